#!/usr/bin/env python3
"""Entry point of every registered check:  check.py <property-id> [--tier quick|thorough] [--seed N]

Exit 0: the property held on everything explored (KNOWN-FINDING lines may be printed).
Exit 1: a line 'VIOLATION property=<id> replay=<path>[ no-failing-input-found]' was printed.
Evidence is rewritten to evidence/<id>.json on every run."""
import argparse
import importlib
import os
import sys
import traceback

sys.path.insert(0, os.path.dirname(os.path.abspath(__file__)))
from vlib import core  # noqa: E402


def main():
    ap = argparse.ArgumentParser()
    ap.add_argument("pid")
    ap.add_argument("--tier", default=os.environ.get("VERIF_TIER", "quick"), choices=["quick", "thorough"])
    ap.add_argument("--seed", type=int, default=int(os.environ.get("VERIF_SEED", "1") or 1))
    ap.add_argument("--replay", default=None)
    a = ap.parse_args()
    mod = importlib.import_module("checks." + a.pid.lower())
    ctx = core.Ctx(a.pid, a.tier, a.seed)
    ctx.replay = a.replay
    try:
        mod.run(ctx)
    except Exception:
        ctx.infra_errors.append("check crashed: " + traceback.format_exc()[-3000:])
    sys.exit(ctx.finish(**getattr(mod, "FINISH", {})))


if __name__ == "__main__":
    main()
