"""C17 — rendering is pure: cached, repeated and pre-filled-stream renders give the same text."""
from vlib import core
from checks import c02 as G
from checks import _tmpl_streams as T

META = {
    "property_id": "C17",
    "technique": "Lean theorems (the render model is a function of content, tags and value; interleaving-independence of steps that write only private state) + harness comparison of fresh / cached / repeated renders on the real code",
    "level": "proof",
    "design_ref": "DESIGN.md §6 C17, notes/design-tmpl.md",
    "text": "Kernel-checked: a render through a cache holding parse(content) equals a fresh parse+render for every value; for every schedule of threads whose steps read shared state and write only private state each thread ends in the state of its sequential run. The hypothesis that a C++ render writes only per-call state is validated, not proved: generated templates are rendered fresh, through a tags cache, and again from that cache into a pre-filled stream; the three texts must agree.",
    "note": "Threaded runs (6 threads sharing tags and value) are executed under ASan/UBSan and under ThreadSanitizer; what TSan does not observe in these runs is not exhibited.",
}

THEOREMS = ["Qentem.Props.C17.cached_eq_fresh", "Qentem.Props.C17.cached_other_value",
            "Qentem.Props.C17.interleave_independent"]


def _ptr(rng, d):
    """a pointer-to-value to d, sometimes through two or three hops"""
    r = rng.random()
    return ("p", d) if r < 0.7 else ("p", ("p", d)) if r < 0.93 else ("p", ("p", ("p", d)))


def with_pointers(rng, doc):
    """wrap some container members into pointer values (Value::SetPointerToValue)"""
    if doc[0] == "o":
        return ("o", [(k, _ptr(rng, with_pointers(rng, d)) if d[0] in "ao" and rng.random() < 0.5 else with_pointers(rng, d)) for k, d in doc[1]])
    if doc[0] == "a":
        return ("a", [_ptr(rng, with_pointers(rng, d)) if d[0] in "ao" and rng.random() < 0.3 else with_pointers(rng, d) for d in doc[1]])
    return doc


LOOP = [60, 108, 111, 111, 112, 32]          # "<loop "


def with_sort(rng, units):
    """add sort="ascend|descend" to some <loop ...> heads"""
    out, i = [], 0
    while i < len(units):
        if units[i:i + 6] == LOOP and rng.random() < 0.6:
            out += LOOP + G.U('sort="%s" ' % rng.choice(["ascend", "descend"]))
            i += 6
        else:
            out.append(units[i])
            i += 1
    return out


def pointer_sort_cases(rng):
    """loop sets that are pointer values, sorted (no group): the render must not reorder the target"""
    cases = []
    for _ in range(60):
        items = [("n", x) for x in rng.sample(range(0, 40), rng.randrange(2, 6))]
        if rng.random() < 0.3:
            items = [("s", G.U(w)) for w in rng.sample(["pear", "apple", "fig", "kiwi", "date"], 3)]
        target = ("a", items) if rng.random() < 0.7 else ("o", [(G.U(k), d) for k, d in zip(["q", "p", "k", "d", "z"], items)])
        doc = ("o", [(G.U("l"), _ptr(rng, target)), (G.U("n"), ("n", 1))])
        if rng.random() < 0.2:
            doc = _ptr(rng, target)      # the root itself
            tmpl = '<loop value="v" sort="%s">{var:v},</loop>' % rng.choice(["ascend", "descend"])
        else:
            tmpl = '<loop set="l" value="v" sort="%s">{var:v},</loop>{var:n}' % rng.choice(["ascend", "descend"])
        cases.append((doc, G.U(tmpl)))
    return cases


def enc_r(doc):
    """G.enc plus real members (token r<16 hex digits of the bit pattern>)"""
    if doc[0] == "r":
        return T._r(doc[1])
    if doc[0] == "a":
        return ",".join(["a%d" % len(doc[1])] + [enc_r(d) for d in doc[1]])
    if doc[0] == "o":
        return ",".join(["o%d" % len(doc[1])] + ["k" + G.dots(key) + "," + enc_r(d) for key, d in doc[1]])
    if doc[0] == "p":
        return "p," + enc_r(doc[1])
    return G.enc(doc)


def group_cases(rng):
    """loops with group= whose grouping member is a number (unsigned, signed, real), a string, true/false/null:
    the grouped copy and every scratch used to build its keys must be private to the render (threads)"""
    cases = []
    for _ in range(80):
        n = rng.randrange(2, 9)
        kind = rng.choice(["n", "i", "r", "s", "mixed"])
        items = []
        for j in range(n):
            kk = kind if kind != "mixed" else rng.choice(["n", "i", "r", "s", "t"])
            if kk == "n":
                key = ("n", rng.choice([2019, 2020, 2021, 7, 18446744073709551615]))
            elif kk == "i":
                key = ("i", rng.choice([-1, -2020, -5, -9223372036854775808]))
            elif kk == "r":
                key = ("r", rng.choice([1.5, 2.25, -0.5, 1e21, 3.0]))
            elif kk == "s":
                key = ("s", G.U(rng.choice(["a", "bb", "2020"])))
            else:
                key = rng.choice([("t",), ("f",), ("z",)])
            items.append(("o", [(G.U("k"), key), (G.U("m"), ("n", j))]))
        doc = ("o", [(G.U("l"), ("a", items)), (G.U("n"), ("n", 1))])
        srt = rng.choice(["", ' sort="ascend"', ' sort="descend"'])
        tmpl = '<loop set="l" value="g" group="k"%s><loop set="g" value="it">{var:it[m]},</loop>;</loop>{var:n}' % srt
        cases.append((doc, G.U(tmpl)))
    return cases


def mutable_statics():
    """C17's interleaving theorem assumes that a render step writes only per-call state. Function-local or
    class-level mutable `static` objects in the library headers are shared by every thread: list them."""
    import os, re
    hits = []
    inc = os.path.join(core.REPO, "Include")
    for fn in sorted(os.listdir(inc)):
        if not fn.endswith(".hpp") or fn == "QTest.hpp":     # QTest.hpp is the repository's test harness, not the library
            continue
        for no, line in enumerate(open(os.path.join(inc, fn), errors="replace"), 1):
            t = line.split("//")[0]
            if re.match(r"^\s*(thread_local\s+)?static\s", t) and not re.match(r"^\s*static\s+(constexpr|const|inline)\b", t) and "(" not in t:
                hits.append("%s:%d: %s" % (fn, no, t.strip()[:120]))
    return hits


def run(ctx):
    st = mutable_statics()
    ctx.notes.append({"mutable_static_objects_in_headers": st})
    if st:
        ctx.proof_broken.append("mutable static objects in the library headers (shared by all threads; the step-shape hypothesis of interleave_independent is no longer validated): %s" % st[:5])
    ctx.gen_constants(["Expr", "Tmpl", "Escape"])
    ctx.prove(["Qentem.Props.C17"], THEOREMS)
    drv = ctx.build_driver()
    exe = ctx.build_harness("template_harness.cpp", tag="c17")
    if not (drv and exe):
        return
    rng = ctx.rng
    g = G.Gen(rng)
    N = 4000 if not ctx.thorough else 40000
    spec_lines, docs = [], []
    for k in range(N):
        if k % 10 == 9:
            doc, toks = G.deep_case(rng)
        else:
            doc = g.root()
            _, toks = g.nodes([], 3)
        docs.append(doc)
        spec_lines.append("tplspec 1 %s %s" % (G.enc(doc), ",".join(toks)))
    spec_out, _ = core.run_lines_parallel(drv, spec_lines, jobs=12, env=None)
    cases = pointer_sort_cases(rng) + group_cases(rng)
    # templates without any tag: the parsed cache stays empty, so every render through the shared cache parses again
    # (threads must not write to the shared cache then either)
    for t in ["", "plain text", "a < b & c", "no tag {here", "}", "{", "<", "<loop", "{var:", "text with } and > only", "x" * 70]:
        cases.append((("o", [(G.U("n"), ("n", 1))]), G.U(t)))
    n_fixed = len(cases)
    for doc, o in zip(docs, spec_out):
        t = o.split(" ")
        if len(t) == 4 and t[0] == "P":
            units = [int(x) for x in t[1].split(",")] if t[1] != "-" else []
            cases.append((with_pointers(rng, doc) if rng.random() < 0.5 else doc, with_sort(rng, units) if rng.random() < 0.5 else units))
    lines = []
    for k, (doc, units) in enumerate(cases):
        for w in ("1", "2") if k % 4 == 0 else ("1",):
            lines.append("tplcache %s %s %s" % (w, enc_r(doc), core.show_units(units)))
    GROUP = core.show_units(G.U(' group="'))
    n_special = len(pointer_sort_cases(rng)) + 80 + 11     # pointer-sort, group and tag-less cases come first
    thr_lines = [l.replace("tplcache", "tplthreads", 1) for k, l in enumerate(lines) if k % 5 == 0 or GROUP in l or k < 2 * n_special and "k110,n1 " in l and len(l.split(" ")[3]) < 300]
    impl, faults = core.run_lines_parallel(exe, lines + thr_lines, jobs=12)
    all_lines = lines + thr_lines
    for i, kind, err in faults:
        ctx.fail("fault:" + kind, "sanitizer fault in cached/repeated/threaded render: " + all_lines[i][:300], {"line": all_lines[i], "stderr": err})
    for i, o in enumerate(impl):
        if o.startswith("FAULT") or o in ("C same", "H same"):
            continue
        key = ("value-changed" if "value-changed" in o else "tags-changed" if "tags-changed" in o else
               "threads-differ" if o.startswith("H") else "cached-differs")
        ctx.fail(key, "%s: %s -> %s" % (key, all_lines[i][:300], o[:300]), {"line": all_lines[i], "impl": o})
    ctx.count("fresh-vs-cached-vs-prefilled (value and tags dumped before/after each render)", len(lines), len(set(lines)),
              sample={"stream": "cache", "input": lines[0][:300] if lines else "", "impl": impl[0] if impl else ""})
    ctx.count("6-threads-sharing-tags-and-value", len(thr_lines), len(set(thr_lines)))
    T.c17_round_c(ctx, exe, lines)      # copies of the tag array; appended renders with carry-out reals (round c)
    # ---- the same threaded run under ThreadSanitizer (no ASan) ----
    tsan_flags = [f for f in core.SAN_FLAGS if not f.startswith("-fsanitize=") and not f.startswith("-fno-sanitize")] + ["-fsanitize=thread"]
    texe = ctx.build_harness("template_harness.cpp", flags=tsan_flags, tag="tsan")
    if texe:
        import os
        env = dict(os.environ, TSAN_OPTIONS="halt_on_error=1:exitcode=95:report_signal_unsafe=0")
        tl = thr_lines[::3] if not ctx.thorough else thr_lines
        timpl, tfaults = core.run_lines_parallel(texe, tl, jobs=6, env=env)
        for i, kind, err in tfaults:
            k = "tsan:data-race" if "ThreadSanitizer" in err else "tsan-run:" + kind
            ctx.fail(k, "ThreadSanitizer report while 6 threads render through shared tags and value: " + tl[i][:300], {"line": tl[i], "stderr": err[-3000:]})
        for i, o in enumerate(timpl):
            if o not in ("H same",) and not o.startswith("FAULT"):
                ctx.fail("threads-differ", "threads differ (TSan build): %s -> %s" % (tl[i][:300], o[:300]), {"line": tl[i], "impl": o})
        ctx.count("6-threads-under-ThreadSanitizer", len(tl), len(set(tl)))
        ctx.notes.append("ThreadSanitizer build works in this sandbox: %d threaded lines run under TSan" % len(tl))
    ctx.assumptions += ["a C++ render step writes only per-call state (stream, loop items): validated by the comparisons and the TSan run, assumed by interleave_independent",
                        "thread scheduling / memory-model effects beyond what TSan observes in these runs are not exhibited"]


FINISH = dict(level="proof",
              rule="generated well-formed templates (incl. block tags nested 7..13 deep, sort= on loops) x value trees (incl. pointer-to-value members as loop sets): fresh render, render filling a tags cache, render from that cache into a pre-filled stream, Stringify of the value and of every pointer target and the tag dump before/after every render; 6 threads x 3 renders sharing tags and value (ASan build and ThreadSanitizer build); widths 1 and 2; round c: renders through copy-constructed / copy-assigned / appended copies of the tag array; for every pre-existing stream length 0..64 several values rendered consecutively through one cache into one stream, values incl. reals whose rounding carries out of the top digit",
              checker_cmd="cd lean && lake build Qentem.Props.C17 && lake env lean <#print axioms>")
