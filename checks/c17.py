"""C17 — rendering is pure: cached, repeated and pre-filled-stream renders give the same text."""
from vlib import core
from checks import c02 as G

META = {
    "property_id": "C17",
    "technique": "Lean theorems (the render model is a function of content, tags and value; interleaving-independence of steps that write only private state) + harness comparison of fresh / cached / repeated renders on the real code",
    "level": "proof",
    "design_ref": "DESIGN.md §6 C17, notes/design-tmpl.md",
    "text": "Kernel-checked: a render through a cache holding parse(content) equals a fresh parse+render for every value; for every schedule of threads whose steps read shared state and write only private state each thread ends in the state of its sequential run. The hypothesis that a C++ render writes only per-call state is validated, not proved: generated templates are rendered fresh, through a tags cache, and again from that cache into a pre-filled stream; the three texts must agree.",
    "note": "Data races themselves are not exhibited by this technique; thread runs under TSan are not part of this check.",
}

THEOREMS = ["Qentem.Props.C17.cached_eq_fresh", "Qentem.Props.C17.cached_other_value",
            "Qentem.Props.C17.interleave_independent"]


def run(ctx):
    ctx.gen_constants(["Expr", "Tmpl", "Escape"])
    ctx.prove(["Qentem.Props.C17"], THEOREMS)
    drv = ctx.build_driver()
    exe = ctx.build_harness("template_harness.cpp")
    if not (drv and exe):
        return
    g = G.Gen(ctx.rng)
    N = 4000 if not ctx.thorough else 40000
    spec_lines = []
    for _ in range(N):
        doc = g.root()
        _, toks = g.nodes([], 3)
        spec_lines.append("tplspec 1 %s %s" % (G.enc(doc), ",".join(toks)))
    spec_out, _ = core.run_lines_parallel(drv, spec_lines, jobs=12, env=None)
    lines = []
    for l, o in zip(spec_lines, spec_out):
        t = o.split(" ")
        if len(t) == 4 and t[0] == "P":
            for w in ("1", "2") if len(lines) % 4 == 0 else ("1",):
                lines.append("tplcache %s %s %s" % (w, l.split(" ")[2], t[1]))
    impl, faults = core.run_lines_parallel(exe, lines, jobs=12)
    for i, kind, err in faults:
        ctx.fail("fault:" + kind, "sanitizer fault in cached/repeated render: " + lines[i][:300], {"line": lines[i], "stderr": err})
    for i, o in enumerate(impl):
        if o != "C same" and not o.startswith("FAULT"):
            ctx.fail("cached-differs", "fresh / cached / repeated renders differ: %s -> %s" % (lines[i][:300], o[:300]),
                     {"line": lines[i], "impl": o})
    ctx.count("fresh-vs-cached-vs-prefilled", len(lines), len(set(lines)),
              sample={"stream": "cache", "input": lines[0][:300] if lines else "", "impl": impl[0] if impl else ""})
    ctx.assumptions += ["a C++ render step writes only per-call state (stream, loop items): validated by the three-way comparison, assumed by interleave_independent",
                        "thread scheduling / memory-model effects are not exhibited"]


FINISH = dict(level="proof",
              rule="generated well-formed templates x value trees: fresh render, render filling a tags cache, render from that cache into a pre-filled stream; widths 1 and 2",
              checker_cmd="cd lean && lake build Qentem.Props.C17 && lake env lean <#print axioms>")
