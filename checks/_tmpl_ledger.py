"""C16 ledger cases for templates: well-formed and malformed / truncated templates (tag arrays,
expression arrays and sub-tag arrays are allocated while parsing and released on every exit path),
rendered once and through the cached entry point; every real trace is decided by the Lean `run`."""
import importlib


def ledger_cases(ctx):
    c01 = importlib.import_module("checks.c01")
    gen = c01.gen_streams(ctx)
    step = 1 if ctx.thorough else 6
    lines = []
    for name in ("malformed", "wellformed", "malformed-wide", "wellformed-wide"):
        lines += c01.to_lines("tplrender", gen[name][::step])
    lines += c01.to_lines("tplcache", gen["malformed"][::step * 3] + gen["wellformed"][::step * 3])
    return "template_harness.cpp", lines
