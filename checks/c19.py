"""C19 — BigInt holds the exact mathematical integer after every operation that fits."""
import os
from vlib import core

META = {
    "property_id": "C19",
    "technique": "Lean 4 theorems over a checked-semantics model of BigInt<Number_T,Width> (any word width W, any word count n) + model/implementation correspondence on boundary-biased operation sequences and an exhaustive double-word helper domain",
    "level": "proof",
    "design_ref": "DESIGN.md §6 C19, notes/design-bigint.md",
    "text": "Kernel-checked theorems (Props.C19.C19, C19_sequences): for every word width W >= 1, every word count n >= 1 and both double-word helper variants, under the representation invariant (n words < 2^W, words above index_ zero, index_ = highest non-zero word) every operation whose exact result fits returns without an out-of-range storage access, re-establishes the invariant and holds exactly the mathematical result (set from any wider type, add, subtract, or, and with operands of any realisable width, multiply/divide by a word with exact remainder, shifts by any amount, comparisons, predicates, narrowing to any width, both bit scans), lifted to all operation sequences by induction; the half-word double-width multiply and divide helpers are exact for every half width h >= 1. The model is tied to Include/BigInt.hpp by running identical operation sequences on 20 real instantiations (8/16/32/64-bit words, 64..2048 bits) and comparing Storage(), Index() and every returned value step by step, and by running the DoubleSize helpers exhaustively at 8-bit words.",
    "note": "Trusted: Lean kernel; axioms ⊆ {propext, Quot.sound, Classical.choice}; the correspondence harness (ASan/UBSan, exact-size heap object). The hand-rolled DoubleSize<_,64> is run at h=4/h=8 through a no-promotion integer class (harness NP<R>), at h=16/32 on the built-in types.",
}

THEOREMS = [
    "Qentem.Props.C19.C19",
    "Qentem.Props.C19.C19_sequences",
    "Qentem.Props.C19.C19_sequences2",
    "Qentem.Props.C19.step2_exact",
    "Qentem.BigInt.copy_spec",
    "Qentem.BigInt.addAt_spec",
    "Qentem.BigInt.subAt_spec",
    "Qentem.BigInt.assign_zero_eq",
    "Qentem.Props.C19.C19_signed",
    "Qentem.Props.C19.signedOperand_nonneg",
    "Qentem.Props.C19.signedOperand_lt",
    "Qentem.Props.C19.step_exact",
    "Qentem.Props.C19.run_exact",
    "Qentem.Props.C19.C19_native",
    "Qentem.Props.C19.sequence_exact_native",
    "Qentem.Props.C19.sequence_exact_hand",
    "Qentem.Props.C19.mul_helper_exact",
    "Qentem.Props.C19.div_helper_exact",
    "Qentem.BigInt.mulHand_exact",
    "Qentem.BigInt.divHand_exact",
    "Qentem.BigInt.divRound_spec",
    "Qentem.BigInt.add_spec",
    "Qentem.BigInt.sub_spec",
    "Qentem.BigInt.multiply_spec",
    "Qentem.BigInt.divide_spec",
    "Qentem.BigInt.shiftLeft_spec",
    "Qentem.BigInt.shiftRight_spec",
    "Qentem.BigInt.mulOK_native",
    "Qentem.BigInt.mulOK_hand",
    "Qentem.BigInt.divOK_native",
    "Qentem.BigInt.divOK_hand",
    "Qentem.BigInt.assign_small_spec",
    "Qentem.BigInt.assign_wide_spec",
    "Qentem.BigInt.add_small_spec",
    "Qentem.BigInt.add_wide_spec",
    "Qentem.BigInt.sub_small_spec",
    "Qentem.BigInt.sub_wide_spec",
    "Qentem.BigInt.or_small_spec",
    "Qentem.BigInt.or_wide_spec",
    "Qentem.BigInt.and_small_spec",
    "Qentem.BigInt.and_wide_spec",
    "Qentem.BigInt.cmpWord_spec",
    "Qentem.BigInt.rcmpWord_spec",
    "Qentem.BigInt.isBig_spec",
    "Qentem.BigInt.number_spec",
    "Qentem.BigInt.narrow_small_spec",
    "Qentem.BigInt.narrow_wide_spec",
    "Qentem.BigInt.findLastBit_spec",
    "Qentem.BigInt.findFirstBit_spec",
    "Qentem.BigInt.clear_spec",
    "Qentem.BigInt.inv_zero",
]

OPEN = []

# (W, n) of the fixed instantiations compiled into harness/bigint_harness.cpp
INST = [(8, 8), (8, 9), (8, 16), (8, 32), (8, 256),
        (16, 4), (16, 5), (16, 16), (16, 64),
        (32, 2), (32, 3), (32, 4), (32, 16), (32, 64),
        (64, 1), (64, 2), (64, 3), (64, 4), (64, 16), (64, 32)]
KS = [8, 16, 32, 64, 128]
# operand / target types of the template overloads: (token, value bits); signed types carry non-negative
# values; L / sL = unsigned long / long (64 bits, distinct from the 64-bit word type)
TYPES = [("8", 8), ("16", 16), ("32", 32), ("64", 64), ("128", 128), ("L", 64),
         ("s8", 7), ("s16", 15), ("s32", 31), ("s64", 63), ("s128", 127), ("sL", 63)]


def pick_type(rng):
    return rng.choice(TYPES) if rng.random() < 0.6 else rng.choice(TYPES[:5])


def negative_operand(rng, W, ty, vbits):
    """a negative value of the signed type `ty` (vbits = its bits - 1) and the unsigned value it denotes for
    W-bit words: the two's-complement pattern at width max(bits, W)"""
    bits = vbits + 1
    r = rng.random()
    if r < 0.35:
        x = -rng.choice([1, 1, 2, 3, 1 << vbits, (1 << vbits) - 1, 255, 256])
    elif r < 0.6:
        x = -(1 << rng.randrange(0, vbits + 1))
    elif r < 0.8:
        j = rng.randrange(0, max(1, bits // W) + 1) * W
        x = -((1 << min(j, vbits)) + rng.choice([-1, 0, 1]))
    else:
        x = -rng.randrange(1, (1 << vbits) + 1)
    x = max(x, -(1 << vbits))
    if x >= 0:
        x = -1
    return x, x % (1 << max(bits, W))


def typed_operand(rng, W, limit):
    """(type token, value as written, value it denotes)"""
    ty, K = pick_type(rng)
    if ty.startswith("s") and rng.random() < 0.3:
        x, u = negative_operand(rng, W, ty, K)
        return ty, x, u
    x = wide_operand(rng, W, K, limit)
    return ty, x, x


def word_operand(rng, W):
    top = (1 << W) - 1
    r = rng.random()
    if r < 0.30:
        return rng.choice([0, 1, 2, 3, top, top - 1, 1 << (W - 1), (1 << (W - 1)) + 1, (1 << (W - 1)) - 1, 10, 5, top // 3])
    if r < 0.45:
        return 1 << rng.randrange(W)
    if r < 0.55:
        return (1 << rng.randrange(1, W + 1)) - 1
    if r < 0.70:
        return rng.randrange(1, 1 << min(W, 8))
    if r < 0.80:
        p = 10 ** rng.randrange(1, 20)
        return p if p <= top else 5 ** rng.randrange(1, 4)
    return rng.randrange(0, top + 1)


def divisor(rng, W):
    top = (1 << W) - 1
    r = rng.random()
    if r < 0.02:
        return 0
    if r < 0.40:
        # top bit set, biased to odd and to the extremes
        d = rng.choice([top, top - 1, top - 2, (1 << (W - 1)), (1 << (W - 1)) + 1, (1 << (W - 1)) + 3,
                        (1 << (W - 1)) | rng.randrange(1 << (W - 1)), (1 << (W - 1)) | rng.randrange(1 << (W - 1)) | 1])
        return d
    if r < 0.55:
        return rng.choice([1, 2, 3, 5, 7, 10, 100, 255 & top])
    if r < 0.65:
        p = 10 ** rng.randrange(1, 20)
        return p if p <= top else 10
    if r < 0.8:
        return (1 << rng.randrange(W)) + rng.choice([0, 1]) or 1
    return rng.randrange(1, top + 1)


def wide_operand(rng, W, K, limit=None):
    """a K-bit operand, biased to chunk boundaries; `limit` (inclusive) when the caller wants it to fit"""
    top = (1 << K) - 1
    r = rng.random()
    if r < 0.25:
        x = rng.choice([0, 1, top, top - 1, 1 << (K - 1), top >> 1])
    elif r < 0.50:
        j = rng.randrange(0, max(1, K // W) + 1) * W
        x = ((1 << j) + rng.choice([-1, 0, 1])) & top
    elif r < 0.65:
        x = (1 << rng.randrange(K))
    elif r < 0.75:
        x = ((1 << rng.randrange(K)) | (1 << rng.randrange(K)))
    elif r < 0.85:
        # all-ones low chunks (forces carries)
        x = (1 << (W * rng.randrange(1, max(2, K // W + 1)))) - 1
        x &= top
    else:
        x = rng.randrange(0, top + 1)
    if limit is not None and x > limit:
        x = limit if rng.random() < 0.3 else rng.randrange(0, limit + 1)
    return x


def shift_amount(rng, W, n, v, fit):
    total = n * W
    room = total - v.bit_length()
    r = rng.random()
    if fit:
        if room <= 0 or v == 0 and r < 0.3:
            return rng.choice([0, W, total, 1])
        if r < 0.2:
            return room
        if r < 0.4:
            return min(room, rng.choice([1, W - 1, W, W + 1, 2 * W, 2 * W - 1, 3 * W + 1]))
        if r < 0.6:
            return (rng.randrange(0, room + 1) // W) * W
        return rng.randrange(0, room + 1)
    if r < 0.3:
        return rng.choice([total, total - 1, total + 1, total + W, 2 * total, (1 << 32) - 1, (1 << 31), total - W])
    if r < 0.6:
        return rng.randrange(0, n + 2) * W + rng.choice([0, 1, W - 1])
    return rng.randrange(0, total + 2 * W)


def gen_sequence(rng, W, n, length):
    """Boundary-biased operation tokens.  `v` follows the exact-integer semantics (wrapping modulo
    2^(nW) as a guess when an operation does not fit) only to steer operand choice."""
    total = n * W
    M = (1 << total) - 1
    v = 0
    vt = 0
    ops = []
    wtop = (1 << W) - 1
    while len(ops) < length:
        r = rng.random()
        fit = rng.random() < 0.85
        if r < 0.06:
            ty, x, u = typed_operand(rng, W, M if fit else None)
            ops.append("%s:%s:%d" % (rng.choice(["as", "as", "cn"]), ty, x)); v = u & M
        elif r < 0.17:
            ty, x, u = typed_operand(rng, W, (M - v) if fit else None)
            ops.append("ad:%s:%d" % (ty, x)); v = (v + u) & M
        elif r < 0.26:
            ty, x, u = typed_operand(rng, W, v if fit else None)
            ops.append("sb:%s:%d" % (ty, x)); v = (v - u) & M
        elif r < 0.28:
            # Add / Subtract(number, index)
            i = rng.choice([0, 0, 1, n - 1, n, n + 1, rng.randrange(0, n + 1)])
            x = word_operand(rng, W)
            if rng.random() < 0.5:
                if fit and v + (x << (W * i)) > M:
                    x = min(x, (M - v) >> (W * i))
                ops.append("ai:%d:%d" % (i, x)); v = (v + (x << (W * i))) & M
            else:
                if fit and (x << (W * i)) > v:
                    x = min(x, v >> (W * i))
                ops.append("si:%d:%d" % (i, x)); v = (v - (x << (W * i))) & M
        elif r < 0.33:
            ty, x, u = typed_operand(rng, W, M if fit else None)
            ops.append("or:%s:%d" % (ty, x)); v = (v | u) & M
        elif r < 0.37:
            ty, x, u = typed_operand(rng, W, M if fit else None)
            ops.append("an:%s:%d" % (ty, x)); v = (v & u) & M
        elif r < 0.50:
            x = word_operand(rng, W)
            if fit and v * x > M:
                x = min(x, M // v) if v else x
                if rng.random() < 0.5 and v:
                    x = min(wtop, M // v)
            ops.append("%s:%d" % (rng.choice(["mu", "mu", "mun"]), x)); v = (v * x) & M
        elif r < 0.62:
            d = divisor(rng, W)
            ops.append("%s:%d" % (rng.choice(["dv", "dv", "dv", "dq"]), d))
            if d:
                v //= d
        elif r < 0.74:
            k = shift_amount(rng, W, n, v, fit)
            ops.append("%s:%d" % (rng.choice(["sl", "sl", "sln"]), k)); v = (v << k) & M if k < 2 * total + 64 else 0
        elif r < 0.82:
            k = shift_amount(rng, W, n, v, False) if rng.random() < 0.5 else rng.randrange(0, max(1, v.bit_length() + 2))
            ops.append("%s:%d" % (rng.choice(["sr", "sr", "srn"]), k)); v = v >> k if k < 2 * total + 64 else 0
        elif r < 0.88:
            # forward (object OP x) and reversed (x OP object) forms with the same operand; the operand is
            # often the low word of the value itself or its neighbours (equality boundary)
            q = rng.random()
            if q < 0.45:
                x = word_operand(rng, W)
            elif q < 0.8:
                x = v & wtop
            else:
                x = ((v & wtop) + rng.choice([-1, 1])) & wtop
            rel = rng.choice(["lt", "le", "gt", "ge", "eq", "ne"])
            ops.append("%s:%d" % (rel, x))
            ops.append("r%s:%d" % (rel, x))
            if rng.random() < 0.5:
                rel2 = rng.choice(["lt", "le", "gt", "ge", "eq", "ne"])
                ops.append("r%s:%d" % (rel2, x))
        elif r < 0.92:
            ops.append(rng.choice(["ib", "nz", "iz", "nu", "ib", "nz", "iz", "nu", "mi", "tw", "tb", "so"]))
        elif r < 0.95:
            if rng.random() < 0.5:
                ops.append("nw:%s" % rng.choice([t for t, _ in TYPES] + ["s8", "s16", "s32", "s64", "s128"]))
            else:
                # the operand aliases the object: b OP= b.Number()
                o = rng.choice(["sad", "ssb", "sor", "san", "smu", "sdv"])
                w0 = v & wtop
                ops.append(o)
                if o == "sad": v = (v + w0) & M
                elif o == "ssb": v -= w0
                elif o == "sor": v |= w0
                elif o == "san": v &= w0
                elif o == "smu": v = (v * w0) & M
                elif w0: v //= w0
        elif r < 0.975:
            ops.append(rng.choice(["ff", "fl"]))
        elif r < 0.995:
            o = rng.choice(["sv", "sv", "ld", "mv", "cc", "mc", "sa", "sm"])
            ops.append(o)
            if o in ("sv", "cc"):
                vt = v
            elif o == "ld":
                v = vt
            elif o in ("mv", "mc"):
                v, vt = vt, 0
        elif r < 0.998:
            ops.append("cl"); v = 0
        else:
            # raw mutators (outside the property; the model follows them, the oracle re-synchronises)
            if rng.random() < 0.5:
                ops.append("ix:%d" % rng.randrange(0, n))
            else:
                ops.append("st:%d:%d" % (rng.randrange(0, n), word_operand(rng, W)))
    return ops


def gen_carry_chain(rng, W, n, length):
    """Carry-chain sequences: a 2-5 word value assembled from boundary words (all-ones, all-ones-1, 0, 1,
    0x55.., 0xAA.., top bit) is multiplied by all-ones / small multipliers, divided back, and hit by adds /
    subtracts that ripple through several words.  Every step fits (the value is tracked exactly)."""
    ones = (1 << W) - 1
    total = n * W
    M = (1 << total) - 1
    fives = ones // 3                       # 0x55..55
    words = [ones, ones, ones - 1, 0, 1, fives, fives, ones - fives, 1 << (W - 1), (1 << (W - 1)) - 1, 7, 3]
    mults = [ones, ones, ones - 1, 2, 3, 3, 5, 10, 1 << (W - 1), (1 << (W - 1)) + 1, fives, 255 & ones, 1]
    ty = str(W)
    ops = []
    v = 0

    def build():
        nonlocal v
        k = rng.randrange(2, max(3, min(5, n - 1) + 1)) if n >= 3 else rng.randrange(1, n + 1)
        k = max(1, min(k, n - 1 if n > 1 else 1))
        ws = [rng.choice(words) for _ in range(k)]
        if ws[-1] == 0:
            ws[-1] = rng.choice([1, 7, ones])
        ops.append("as:%s:%d" % (ty, ws[-1])); v = ws[-1]
        for w in reversed(ws[:-1]):
            ops.append(rng.choice(["sl:%d", "sln:%d"]) % W); v <<= W
            if w:
                ops.append("%s:%s:%d" % (rng.choice(["or", "ad"]), ty, w)); v += w
    build()
    while len(ops) < length:
        r = rng.random()
        if r < 0.40:
            m = rng.choice(mults)
            if v * m <= M:
                ops.append("%s:%d" % (rng.choice(["mu", "mun"]), m)); v *= m
            elif v:
                k = rng.randrange(1, v.bit_length() + 1)
                ops.append("sr:%d" % k); v >>= k
        elif r < 0.52:
            d = rng.choice([m for m in mults if m])
            ops.append("dv:%d" % d); v //= d
        elif r < 0.66:
            x = rng.choice([ones, ones, 1, ones - 1, fives])
            i = rng.randrange(0, max(1, min(n, v.bit_length() // W + 1)))
            if v + (x << (W * i)) <= M:
                ops.append("ai:%d:%d" % (i, x)); v += x << (W * i)
        elif r < 0.76:
            x = rng.choice([ones, 1, 1, fives])
            i = rng.randrange(0, max(1, v.bit_length() // W + 1))
            if (x << (W * i)) <= v:
                ops.append("si:%d:%d" % (i, x)); v -= x << (W * i)
        elif r < 0.82:
            if v and v * (v & ones) <= M:
                ops.append("smu"); v *= v & ones
        elif r < 0.90:
            ops.append(rng.choice(["fl", "ff", "nu", "ib", "nw:128", "nw:64"]) if v else "iz")
        elif r < 0.95:
            k = rng.choice([1, W - 1, W, W + 1])
            if (v << k) <= M:
                ops.append("sl:%d" % k); v <<= k
        else:
            build()
    return ops[:max(length, 1)] if length >= len(ops) else ops[:length]


CORPUS_DIR = os.path.join(core.VERIF, "corpus", "C19")


def corpus_lines():
    out = []
    if os.path.isdir(CORPUS_DIR):
        for fn in sorted(os.listdir(CORPUS_DIR)):
            if fn.endswith(".txt"):
                for ln in open(os.path.join(CORPUS_DIR, fn)):
                    ln = ln.strip()
                    if ln and not ln.startswith("#"):
                        out.append(ln)
    return out


def split_shadow(o):
    """impl output -> (tokens string without the shadow token, checked, bad)"""
    if o.startswith("FAULT") or o in ("bad-op", "cfg-mismatch"):
        return o, 0, 0
    t = o.split(" ")
    if t and t[-1].startswith("S"):
        c, b = t[-1][1:].split(".")
        return " ".join(t[:-1]), int(c), int(b)
    return o, 0, 0


def run_sequences(ctx, drv, exe, lines, stream):
    impl_raw, faults = core.run_lines_parallel(exe, lines, jobs=12, timeout_per_batch=3000)
    model, _ = core.run_lines_parallel(drv, lines, jobs=12, env=None, timeout_per_batch=3000)
    for i, kind, err in faults:
        ctx.fail("fault:" + kind, "sanitizer fault in a BigInt operation sequence: " + lines[i][:600], {"line": lines[i], "stderr": err})
    impl, sh_checked, sh_bad = [], 0, 0
    for i, o in enumerate(impl_raw):
        s, c, b = split_shadow(o)
        impl.append(s)
        sh_checked += c
        sh_bad += b
        if b:
            ctx.fail("shadow:int128", "unsigned __int128 shadow disagrees with the object on " + lines[i][:600], {"line": lines[i], "impl_output": o[:2000]})
        if s in ("bad-op", "cfg-mismatch"):
            ctx.infra_errors.append("harness answered %s to %s" % (s, lines[i][:300]))
    # FAULT lines cannot correspond; they are failures already
    keep = [i for i in range(len(lines)) if not impl[i].startswith("FAULT")]
    ctx.correspond(stream, [lines[i] for i in keep], [impl[i] for i in keep], [model[i] for i in keep])
    # S3: the Lean specification evaluated on the implementation's own trace
    olines, idx = [], []
    for i in keep:
        t = lines[i].split(" ")
        ops = t[3:]
        toks = impl[i].split(" ") if impl[i] else []
        if len(toks) != len(ops):
            ctx.infra_errors.append("trace length %d for %d operations: %s" % (len(toks), len(ops), lines[i][:300]))
            continue
        olines.append("bigoracle %s %s %d %s %s" % (t[1], t[2], len(ops), " ".join(ops), " ".join(toks)) if ops else "bigoracle %s %s 0" % (t[1], t[2]))
        idx.append(i)
    verdicts, _ = core.run_lines_parallel(drv, olines, jobs=12, env=None, timeout_per_batch=3000)
    checked = 0
    for j, v in enumerate(verdicts):
        if v.startswith("ok "):
            checked += int(v[3:])
        else:
            i = idx[j]
            ctx.fail("oracle:" + (v.split(" ")[2].split(":")[0] if v.startswith("bad ") and len(v.split(" ")) > 2 else v),
                     "C19 predicate fails on the implementation trace (%s): %s" % (v[:300], lines[i][:600]),
                     {"line": lines[i], "impl_output": impl[i][:4000], "verdict": v})
    ctx.count(stream + ":exact-steps(lean-spec)", checked, checked)
    ctx.count(stream + ":exact-steps(int128-shadow)", sh_checked, sh_checked)


def helper_operands(rng, W):
    top = (1 << W) - 1
    d = divisor(rng, W) or 1
    r = rng.random()
    if r < 0.8:
        hi = rng.choice([0, d - 1, d - 1, d // 2, rng.randrange(0, d), rng.randrange(0, d)])
    else:
        hi = rng.randrange(0, top + 1)      # outside the precondition: correspondence only
    lo = rng.choice([0, 1, top, top - 1, d, d - 1, (d + 1) & top, 1 << (W - 1), rng.randrange(0, top + 1), rng.randrange(0, top + 1)])
    return hi, lo, d


def run_helpers(ctx, drv, exe):
    rng = ctx.rng
    # exhaustive at 8-bit words: all 2^16 products, all (hi, lo, d) with d != 0 (2^24 - 2^16), both variants
    lines = []
    for v in ("nat", "hand"):
        for a in range(256):
            lines.append("bighmx %s 8 %d" % (v, a))
    stride = 1
    for v in ("nat", "hand"):
        for d in range(1, 256):
            for hi in range(0, 256, stride):
                lines.append("bighdx %s 8 %d %d" % (v, d, hi))
    impl, faults = core.run_lines_parallel(exe, lines, jobs=12)
    model, _ = core.run_lines_parallel(drv, lines, jobs=12, env=None)
    for i, kind, err in faults:
        ctx.fail("fault:" + kind, "sanitizer fault in a DoubleSize helper: " + lines[i], {"line": lines[i], "stderr": err})
    bad = ctx.correspond("helpers-8bit-exhaustive(256 cases per line)", lines, impl, model)
    drill = []
    for i, l in enumerate(lines):
        t = l.split(" ")
        o = impl[i].split(" ")
        if len(o) != 2:
            continue
        expect_exact = None
        if t[0] == "bighmx":
            expect_exact = 256
        elif int(t[4]) < int(t[3]):
            expect_exact = 256
        if (expect_exact is not None and int(o[1]) != expect_exact) or i in bad:
            if t[0] == "bighmx":
                drill += ["bighm %s 8 %s %d" % (t[1], t[3], b) for b in range(256)]
            else:
                drill += ["bighd %s 8 %s %d %s" % (t[1], t[4], lo, t[3]) for lo in range(256)]
    ctx.count("helpers-8bit-exhaustive:evaluations", 256 * len(lines), 256 * len(lines))
    # random, boundary biased at 16/32/64 (and any drill-down of a differing 8-bit batch)
    N = 30000 if not ctx.thorough else 600000
    rl = list(drill[:20000])
    for W, variants in ((16, ("nat", "hand")), (32, ("nat", "hand")), (64, ("hand",))):
        for v in variants:
            for _ in range(N // 5):
                if rng.random() < 0.3:
                    rl.append("bighm %s %d %d %d" % (v, W, word_operand(rng, W), word_operand(rng, W)))
                else:
                    hi, lo, d = helper_operands(rng, W)
                    rl.append("bighd %s %d %d %d %d" % (v, W, hi, lo, d))
    impl, faults = core.run_lines_parallel(exe, rl, jobs=12)
    model, _ = core.run_lines_parallel(drv, rl, jobs=12, env=None)
    for i, kind, err in faults:
        ctx.fail("fault:" + kind, "sanitizer fault in a DoubleSize helper: " + rl[i], {"line": rl[i], "stderr": err})
    ctx.correspond("helpers-random", rl, impl, model)
    for i, l in enumerate(rl):
        t = l.split(" ")
        o = impl[i].split(" ")
        if len(o) != 3:
            continue
        in_pre = (t[0] == "bighm") or int(t[3]) < int(t[5])
        if in_pre and o[2] != "1":
            ctx.fail("helper:" + t[0] + ":" + t[1], "DoubleSize %s is not exact: %s -> %s" % ("Multiply" if t[0] == "bighm" else "Divide", l, impl[i]),
                     {"line": l, "impl_output": impl[i]})


def run(ctx):
    ctx.prove(["Qentem.Props.C19"], THEOREMS, OPEN)
    drv = ctx.build_driver()
    exe = ctx.build_harness("bigint_harness.cpp")
    if not (drv and exe):
        return
    rng = ctx.rng
    if ctx.replay:
        import json
        rp = json.load(open(ctx.replay))
        lines = [f["replay"]["line"] for f in rp.get("failures", []) if "line" in f.get("replay", {})]
        seqs = [l for l in lines if l.startswith("bigseq")]
        if seqs:
            run_sequences(ctx, drv, exe, seqs, "replay")
        return
    corpus = corpus_lines()
    seqs = [l for l in corpus if l.startswith("bigseq")]
    if seqs:
        run_sequences(ctx, drv, exe, seqs, "corpus")
    lines = []
    for (W, n) in INST:
        if not ctx.thorough:
            length, per = 40, 120
        elif n <= 16:
            length, per = 400, 150
        elif n <= 64:
            length, per = 200, 60       # keeps the trace volume (steps x words) bounded
        else:
            length, per = 100, 30
        for _ in range(per):
            L = rng.choice([length, length, max(4, length // 4), rng.randrange(1, length + 1)])
            lines.append("bigseq %d %d %s" % (W, n, " ".join(gen_sequence(rng, W, n, L))))
    run_sequences(ctx, drv, exe, lines, "sequences")
    # carry chains (all steps fit): more of them at 64-bit words, where Multiply/Divide use the half-word helpers
    clines = []
    for (W, n) in INST:
        if n < 2:
            continue
        cnt = (150 if W == 64 else 40) * (4 if ctx.thorough else 1)
        for _ in range(cnt):
            clines.append("bigseq %d %d %s" % (W, n, " ".join(gen_carry_chain(rng, W, n, rng.choice([12, 25, 40])))))
    run_sequences(ctx, drv, exe, clines, "carry-chains")
    run_helpers(ctx, drv, exe)
    from checks import _c19_api
    rows, orow, unc = _c19_api.audit()
    ctx.notes.append("public-API audit (checks/_c19_api.py): %d members, %d operand-type rows, uncovered: %s" % (len(rows), len(orow), unc or "none"))
    if unc:
        ctx.infra_errors.append("public API of BigInt not driven by the harness: %s" % unc)
    ctx.assumptions += [
        "a negative operand of a signed type denotes its two's-complement value at width max(type bits, word bits) (Model.signedOperand)",
        "fixed instantiations: " + ", ".join("%dx%d" % (w, n) for (w, n) in INST) + " (word bits x word count)",
        "DoubleSize<_,64> at half widths 4 and 8 is exercised through a no-promotion integer class; BigInt itself only instantiates it at 64-bit words",
    ]


FINISH = dict(level="proof",
              rule="operation sequences (<= 40 quick / 400 thorough steps; 200 and 100 steps for the 64- and 256-word instantiations) on 20 instantiations, operands biased to 0, 1, all-ones, single bits, word boundaries, divisors with the top bit set, odd/even, shifts at multiples of the word size and at the exact remaining room; carry-chain sequences (2-5 word values of all-ones / all-ones-1 / 0 / 1 / 0x55.. words times all-ones and small multipliers, rippling adds/subtracts, every step fitting; 150 per 64-bit instantiation); both DoubleSize helper variants exhaustively at 8-bit words (2 x (2^16 + 255*2^16) cases), random boundary-biased at 16/32/64",
              checker_cmd="cd lean && lake build Qentem.Props.C19 && lake env lean <#print axioms of the listed theorems>")
