"""C18 — grouping partitions an array of objects by key value, wherever the key sits."""
import glob
import itertools
import os
from vlib import core
from checks import _value as V

META = {
    "property_id": "C18",
    "technique": "Lean 4 model of Value::GroupBy as coded (cursor over all slots, scratch object, text carried between elements) + a fold specification on association lists + kernel-checked theorems (model = specification, partition, source unchanged) + correspondence and specification oracle on the real code",
    "level": "proof",
    "design_ref": "DESIGN.md §6 C18, notes/design-value.md",
    "text": "groupByA (Qentem/Model/Group.lean) transcribes Value.hpp GroupBy; groupBySpec is the left fold 'find the member by name, take the text of its value, append the object minus that member to that group, groups in first-appearance order'. Theorems relate the two for every array of objects that each contain the key (removed members allowed), and show that every input object lands in exactly one group and that the source is untouched. Each run builds arrays of 0-6 objects through the public API (key at every member position, string/number/bool/null/real key values, members of every kind, removed members before and after the key, nested removed members) and compares the real GroupBy result with the model (whole forest dump) and with the specification (abstract view of the groups).",
    "note": "Trusted: Lean kernel; axioms ⊆ {propext, Quot.sound, Classical.choice}; harness and generators. Model and theorems are about the repaired behaviour (removed items are skipped, /repo 04169f1); a tree without the repair is reported through failing inputs with key groupby-removed-member. The template loop's group= attribute calls GroupBy directly (Template.hpp renderLoop); loop_group_same_partition proves that the instance of the render model's groupBy parameter given by this model (groupByTmpl) iterates the specification's partition; the rendering itself is C02's.",
}

THEOREMS = [
    "Qentem.Props.C18.groupBy_source_unchanged",
    "Qentem.Props.C18.groupBy_eq_spec",
    "Qentem.Props.C18.groupBy_empty",
    "Qentem.Props.C18.groupOf_groupInsert",
    "Qentem.Props.C18.group_members",
    "Qentem.Props.C18.total_groupInsert",
    "Qentem.Props.C18.groupBy_partition",
    "Qentem.Props.C18.names_groupInsert",
    "Qentem.Props.C18.group_names_first_appearance",
    "Qentem.Props.C18.isUndefined_ofValue",
    "Qentem.Props.C18.ofValueItems_eq_map",
    "Qentem.Props.C18.toValueItems_eq_map",
    "Qentem.Props.C18.groupView_eq",
    "Qentem.Props.C18.tmplMembers_ofValueSlots",
    "Qentem.Props.C18.itemView_ofValue",
    "Qentem.Props.C18.valueView_ofValue",
    "Qentem.Props.C18.tmplGroupView_ofValue",
    "Qentem.Props.C18.loop_group_same_partition",
    "Qentem.Value.groupScan_spec",
    "Qentem.Value.groupLoop_spec",
    "Qentem.Value.groupAdd_view",
]

GKEYS = [[107], [], [97, 98], [121]]
KVALS = ["sa120", "sa121", "sa-", "sa116.114.117.101", "sa49", "n1", "n2020", "i-5", "T", "F", "N", "r3ff8000000000000", "sa49.46.53",
         "P:sa120", "P:n1", "P:T",
         # the empty string in every way the API builds one (with and without storage), a legitimate group name
         "sh-", "si120", "sj120.121", "sk-", "sl-", "sb-", "se-", "sf-", "sg-", "E:typ", "E:tyc", "E:ptrnull", "E:movedout", "P:sh-"]
EMPTY_VALS = ["sa-", "sh-", "si120", "sj120.121", "sk-", "sl-", "sg-", "E:typ", "E:tyc", "E:ptrnull", "E:movedout"]
MKEYS = [[109], [110], [111], [112], [97]]


# ---- round h: member names that look like the grouping key -----------------------------------------------
# names with the key as a proper prefix AND the same StringUtils::Hash (32-bit SizeT), found once by a brute-force
# search (random 16/15-unit suffixes over [a-z0-9], ~2^31 trials each); re-checked on every run through the harness
# op `valhash` (a changed hash function shows up as a note, the cases are then dropped)
COLLIDING_EXT = {
    "k": ["k6hog7f6gd4aaaaaa", "kmz2d42e99caaaaaa", "kypfa97q15paaaaaa"],
    "ab": ["ab6djvarqzssaaaaaa", "abit89c6fbsjaaaaaa", "abpqijqjxtngaaaaaa"],
    "y": ["y8fn3rlzofhaaaaaa", "ysvwi77wnu6aaaaaa", "yu2u444xcggaaaaaa"],
    "id": ["id33h4fo46nbaaaaaa", "idhsum315d76aaaaaa", "idxezwboqnv1aaaaaa", "id_c4ae1ed5000000"],
    "year": ["yearbe6j6k84ybaaaaa", "yearh85vue7591aaaaa", "yeari14g5nmbktaaaaa", "year_tnkuwdaaaaaaaa"],
    "": ["nzgech80spaaaaaa", "uo86bbakg3aaaaaa", "wfbr4phzeoaaaaaa"],
}
# different names of the key's own length with the same hash (the first unit does not enter the hash)
COLLIDING_SAME = {"ab": ["bb", "cb"], "id": ["ad", "bd"], "year": ["aear", "aecq"]}


def lookalikes(key):
    """(sibling name, class) for a grouping key (text)."""
    out = [(e, "ext+collision") for e in COLLIDING_EXT.get(key, [])]
    out += [(e, "same-length collision") for e in COLLIDING_SAME.get(key, [])]
    out += [(key + "2", "extension"), (key + key, "extension")]
    if len(key) > 1:
        out += [(key[:-1], "prefix"), (key[:1], "prefix")]
    seen, res = {key}, []
    for n, c in out:
        if n not in seen:
            seen.add(n)
            res.append((n, c))
    return res


def check_collisions(ctx, exe):
    """drop (with a note) the names that no longer collide with their key."""
    lines, who = [], []
    for table in (COLLIDING_EXT, COLLIDING_SAME):
        for k, names in table.items():
            for n in [k] + names:
                lines.append("valhash " + V.units([ord(c) for c in n]))
                who.append((id(table), k, n))
    out, _ = core.run_lines(exe, lines)
    h = {w: o for w, o in zip(who, out)}
    for table in (COLLIDING_EXT, COLLIDING_SAME):
        for k in list(table):
            keep = [n for n in table[k] if h[(id(table), k, n)] == h[(id(table), k, k)]]
            if len(keep) != len(table[k]):
                ctx.notes.append("StringUtils::Hash changed: %d of %d names no longer collide with key %r (cases dropped)" % (
                    len(table[k]) - len(keep), len(table[k]), k))
            table[k] = keep


# grouping values that are == for Value::operator== or print the same text, for adjacent rows in both orders
ADJ_ZOO = ["r0000000000000000", "r8000000000000000", "n0", "i0", "sa48", "sa45.48", "n5", "i5", "r4014000000000000", "sa53", "T",
           "sa116.114.117.101", "F", "N", "sa110.117.108.108", "sa-", "sh-", "r3ff8000000000000", "sa49.46.53", "i-5", "sa45.53"]


class Case:
    def __init__(self):
        self.ops = []
        self.removed = False
        self.in_domain = True   # every element is an object holding the key with a printable value
        self.n = 0


def add_member(c, rng, i, key, kind=None):
    base = "1/ia%d/k%s%s" % (i, rng.choice("abcdef"), V.units(key))
    kind = kind or rng.choice(["scalar", "scalar", "scalar", "obj", "arr", "nested-removed", "ptr"])
    if kind == "scalar":
        c.ops.append("set %s %s" % (base, V.rand_payload(rng)))
    elif kind == "obj":
        c.ops.append("set %s/ka120 %s" % (base, V.rand_payload(rng)))
        if rng.random() < 0.5:
            c.ops.append("set %s/ka121 %s" % (base, V.rand_payload(rng)))
    elif kind == "arr":
        c.ops.append("set %s/ia%d %s" % (base, rng.choice([0, 1, 2]), V.rand_payload(rng)))
    elif kind == "nested-removed":
        c.ops.append("set %s/ka120 n1" % base)
        c.ops.append("set %s/ka121 n2" % base)
        c.ops.append("rem %s 120 a" % base)
    else:
        c.ops.append("set 2 %s" % V.rand_payload(rng))
        c.ops.append("ptr %s 2" % base)


def object_ops(c, rng, i, gkey, layout, kval):
    """layout: list of 'K' (the grouping member), 'm' (another member), 'x' (a member that is removed again),
    'u' (a member that is created and never assigned)."""
    used = 0
    for what in layout:
        if what == "K" and kval.startswith("E:"):
            loc = "1/ia%d/k%s%s" % (i, rng.choice("abcdef"), V.units(gkey))
            how = kval[2:]
            if how == "typ":          # operator=(ValueType::String): an empty string without storage
                c.ops.append("typ %s 4" % loc)
            elif how == "tyc":        # Value(ValueType::String)
                c.ops.append("tyc %s 4" % loc)
            elif how == "ptrnull":    # a string emptied by SetPointerToValue(nullptr)
                c.ops.append("set %s sa120.121" % loc)
                c.ops.append("ptr %s -" % loc)
            else:                     # a string whose content was moved out (operator=(StringT&&) elsewhere)
                c.ops.append("set %s sa120.121" % loc)
                c.ops.append("cop am s 3 %s" % loc)
        elif what == "K" and kval.startswith("P:"):
            c.ops.append("set 3 %s" % kval[2:])
            c.ops.append("ptr 1/ia%d/k%s%s 3" % (i, rng.choice("abcdef"), V.units(gkey)))
        elif what == "K":
            c.ops.append("set 1/ia%d/k%s%s %s" % (i, rng.choice("abcdef"), V.units(gkey), kval))
        elif what == "m":
            add_member(c, rng, i, MKEYS[used % len(MKEYS)] + ([used] if used >= len(MKEYS) else []))
            used += 1
        elif what == "x":
            k = [122, 48 + used]
            used += 1
            c.ops.append("set 1/ia%d/ka%s n9" % (i, V.units(k)))
            c.ops.append("rem 1/ia%d %s %s" % (i, V.units(k), rng.choice("abc")))
            c.removed = True
        elif what.startswith("c:"):
            # a sibling member with a given name (look-alike of the grouping key) and a given payload
            _, name, pay = what.split(":", 2)
            nm = V.units([ord(ch) for ch in name])
            if pay == "OBJ":
                c.ops.append("set 1/ia%d/k%s%s/ka120 n1" % (i, rng.choice("abcdef"), nm))
            else:
                c.ops.append("set 1/ia%d/k%s%s %s" % (i, rng.choice("abcdef"), nm, pay))
        elif what == "u":
            c.ops.append("set 1/ia%d/ka117.%d z" % (i, 48 + used))
            used += 1
            c.in_domain = False
    if "K" not in layout:
        c.in_domain = False
        if not layout:
            c.ops.append("typ 1/ia%d 2" % i)


LAYOUTS = [["K"], ["K", "m"], ["m", "K"], ["m", "K", "m"], ["m", "m", "K"], ["K", "x"], ["x", "K"], ["m", "x", "K"],
           ["x", "m", "K", "x", "m"]]
SMALL_VALS = ["sa120", "n1", "T"]


def make_case(rng, gkey, objs):
    c = Case()
    c.n = len(objs)
    if not objs:
        c.ops.append("typ 1 3")
    for i, (layout, kval) in enumerate(objs):
        object_ops(c, rng, i, gkey, layout, kval)
    c.ops.append("GRP 0 1 %s" % V.units(gkey))
    return c


def gen_cases(ctx):
    rng = ctx.rng
    cases = []
    small = [(l, v) for l in LAYOUTS for v in SMALL_VALS]
    cases.append(make_case(rng, [107], []))
    for o in small:
        cases.append(make_case(rng, [107], [o]))
    pairs = list(itertools.product(small, repeat=2))
    if not ctx.thorough:
        pairs = rng.sample(pairs, 350)
    for p in pairs:
        cases.append(make_case(rng, rng.choice(GKEYS), list(p)))
    for _ in range(400 if not ctx.thorough else 6000):
        cases.append(make_case(rng, rng.choice(GKEYS), [rng.choice(small) for _ in range(3)]))
    # the empty string as grouping value, built in every way, at every position, for every key, mixed with other values
    for gkey in GKEYS:
        for ev in EMPTY_VALS:
            for layout in (["K"], ["m", "K"], ["K", "m"], ["x", "K", "m"]):
                cases.append(make_case(rng, gkey, [(layout, ev)]))
                cases.append(make_case(rng, gkey, [(["K", "m"], "sa120"), (layout, ev), (["m", "K"], rng.choice(EMPTY_VALS)), (["K"], "n1")]))
    # every ordered pair of grouping values of a small zoo on ADJACENT rows (values that are == but print differently,
    # such as 0.0 / -0.0, or print the same but are different kinds), framed by a third row
    for a in ADJ_ZOO:
        for b in ADJ_ZOO:
            gk = rng.choice(GKEYS)
            cases.append(make_case(rng, gk, [(["K", "m"], a), (["m", "K"], b), (["K"], a)]))
    for a in ADJ_ZOO[:10]:
        for b in ADJ_ZOO[:10]:
            cases.append(make_case(rng, [107], [(["K"], b), (["K"], a), (["K"], b), (["K"], b)]))
    # sibling members whose NAME looks like the grouping key: the key as a proper prefix with the same hash, plain
    # extensions and prefixes, same-length hash collisions — before and after the grouping member, with scalar,
    # string and container values; and the reverse (the grouping key is the long name, the sibling its prefix)
    for key in COLLIDING_EXT:
        for name, cls in lookalikes(key):
            for pay in ("sa90.90", "n77", "OBJ"):
                for gk, sib in ((key, name), (name, key)):
                    g = [ord(ch) for ch in gk]
                    tok = "c:%s:%s" % (sib, pay)
                    cases.append(make_case(rng, g, [([tok, "K"], "sa120"), (["K", tok], "sa120"), (["m", "K", tok, "m"], "n1")]))
                    cases.append(make_case(rng, g, [(["K", tok], "sa120")]))
    # random: 0..6 objects, longer layouts, every key-value kind, members of every kind
    for _ in range(1500 if not ctx.thorough else 30000):
        n = rng.choice([1, 2, 3, 3, 4, 5, 6])
        gkey = rng.choice(GKEYS)
        vals = [rng.choice(KVALS) for _ in range(rng.choice([1, 2, 2, 3]))]
        objs = []
        for _ in range(n):
            L = rng.choice([1, 2, 3, 3, 4, 5])
            layout = [rng.choice("mmmx") for _ in range(L)]
            layout[rng.randrange(L)] = "K"
            r = rng.random()
            if r < 0.04:
                layout = [w for w in layout if w != "K"]       # an element without the key (outside the quantifier)
            elif r < 0.07:
                layout.insert(rng.randrange(len(layout) + 1), "u")
            objs.append((layout, rng.choice(vals)))
        cases.append(make_case(rng, gkey, objs))
    return cases


def run(ctx):
    ctx.gen_constants(["Expr", "Tmpl", "Escape"])   # the template render model (group= link) imports them
    ctx.prove(["Qentem.Props.C18", "Qentem.Props.C18Tmpl"], THEOREMS)
    drv = ctx.build_driver()
    exe = ctx.build_harness("value_harness.cpp")
    if not (drv and exe):
        return
    check_collisions(ctx, exe)
    cases = gen_cases(ctx)
    corpus = []
    for fn in sorted(glob.glob(os.path.join(core.VERIF, "corpus", "C18", "*.txt"))):
        for ln in open(fn):
            ln = ln.strip()
            if ln and not ln.startswith("#"):
                c = Case()
                c.ops = ln.split(" ; ")
                c.removed = any(o.startswith("rem ") for o in c.ops)
                c.n = 1
                corpus.append(c)
    cases = corpus + cases
    seq, view, spec = [], [], []
    for c in cases:
        ops = [o.replace("GRP", "grp") if o.startswith("GRP") else o for o in c.ops]
        seq.append(V.line_of(ops))
        view.append(V.line_of(ops, cmd="valview"))
        spec.append(V.line_of(ops, cmd="valspec"))
    impl_seq, faults = core.run_lines_parallel(exe, seq, jobs=14)
    model_seq, _ = core.run_lines_parallel(drv, seq, jobs=14, env=None)
    impl_view, _ = core.run_lines_parallel(exe, view, jobs=14)
    spec_out, _ = core.run_lines_parallel(drv, spec, jobs=14, env=None)
    for i, kind, err in faults:
        ctx.fail("fault:" + kind, "sanitizer fault on " + seq[i][:600], {"line": seq[i], "stderr": err})
    nontriv = lambda l: l.count(" ; ") >= 2
    bad = ctx.correspond("groupby-forest-dump", seq, impl_seq, model_seq, nontrivial=nontriv, show=lambda s: s[:300])
    for i in bad[:5]:
        ctx.notes.append("disagreement on '%s': %s" % (seq[i][:300], V.first_diff(impl_seq[i], model_seq[i])))
    n_dom = n_removed = 0
    model_fixed, expect = [], []
    for i, c in enumerate(cases):
        so = spec_out[i]
        if not so.startswith("spec="):
            ctx.infra_errors.append("driver answered '%s' to %s" % (so[:100], spec[i][:200]))
            model_fixed.append(""); expect.append("")
            continue
        parts = dict(p.split("=", 1) for p in so.split(" "))
        sp, fx = parts["spec"], parts["model"]
        if sp == "none":
            model_fixed.append(fx); expect.append(fx)
            continue
        n_dom += 1
        n_removed += 1 if c.removed else 0
        want = ("1/" if sp != "" or c.n > 0 else "0/") + sp
        model_fixed.append(fx)
        expect.append(want)
        got = impl_view[i]
        if got.startswith("FAULT"):
            continue
        # S3: the specification evaluated against what the real code returned
        if got != want:
            key = "groupby-removed-member" if (c.removed and got.startswith("0/")) else "groupby-spec"
            ctx.fail(key, "GroupBy returned %s ; the specification gives %s ; input: %s" % (got[:300], want[:300], view[i][:500]),
                     {"line": view[i], "impl_output": got, "spec": want})
        # the source array is unchanged (dump of root 1 before and after the call, on the real code)
        steps = impl_seq[i].split("|")
        if len(steps) >= 2 and not impl_seq[i].startswith("FAULT"):
            b = steps[-2].split("#")
            a = steps[-1].split("#")
            if len(a) == 5 and len(b) == 5 and a[2] != b[2]:
                ctx.fail("groupby-source-changed", "GroupBy changed its source: %s -> %s" % (b[2][:200], a[2][:200]), {"line": seq[i]})
    # the model against the specification (an instance check of groupBy_eq_spec)
    ctx.correspond("model-vs-specification", spec, expect, model_fixed, nontrivial=nontriv, show=lambda s: s[:300])
    ctx.count("specification-on-impl-output", n_dom, n_dom)
    ctx.notes.append("cases %d, inside the quantifier %d, of which with removed members %d" % (len(cases), n_dom, n_removed))
    ctx.assumptions += [
        "code units are char; keys and strings use units 1..127",
        "the grouped result is read back through GetObject()/GetArray() slot iteration (abstract view: capacities and removed items not shown)",
        "an empty source array: GroupBy returns false and leaves an empty object (accepted as the empty partition)",
    ]


FINISH = dict(level="proof",
              rule="one object of each of 9 layouts x 3 key values, pairs (sampled in quick) and triples of them, random arrays of 1-6 objects with the key at a random position among 1-5 members, 13 key-value forms, members of every kind incl. nested removed members and pointers, removed members before/after the key; elements without the key and never-assigned members for correspondence only; non-trivial = at least two build operations",
              checker_cmd="cd lean && lake build Qentem.Props.C18 && lake env lean <#print axioms of the listed theorems>")
