"""C04 — expression evaluation in {math:...} / <if case="..."> equals ordinary arithmetic with the
documented precedence; no value for division/remainder by zero and fractional powers; never traps;
== / != numeric when either side is a number, textual when neither."""
import itertools
import math
import os
import re
import struct
from fractions import Fraction
from vlib import core
from checks import _tmpl_streams as T

META = {
    "property_id": "C04",
    "technique": "Lean 4 model of the expression scanner and the flat-list evaluator (theorems: flat evaluation = evaluation of the precedence-climbing tree, no trap) + model/implementation correspondence on exhaustive operator adjacencies, kind pairs and random trees in three entry points + an independent exact-rational reference evaluator on the generated trees",
    "level": "proof",
    "design_ref": "DESIGN.md §6 C04",
    "text": "The same expression text goes to the real code (public ParseExpressions+Evaluate on an exact-size buffer, {math:} rendering, <if case> rendering; ASan/UBSan) and to the compiled Lean model; results (kind, 64-bit payload, truth, rendered text) must be identical. Independently of both, a Python evaluator over fractions.Fraction builds the tree of the *generated structure* by precedence climbing over the operator ranks re-extracted from the headers and evaluates it exactly: the C++ result must have a value iff the reference has one and must equal it exactly; comparisons and logic must yield Natural 0 or 1; the extracted ranks must respect the documented precedence groups.",
    "note": "Trusted: Lean kernel for the theorems; g++ as translator of the enum values; the harness; the Python reference evaluator (no shared code with the model). Domain: results that do not overflow 64 bits; text operands only under == / != (text under arithmetic is run for faults but not compared).",
}

THEOREMS = ["Qentem.Props.C04." + t for t in [
    "rank_respects_doc", "rank_inside_groups", "symbols_width_independent",
    "evaluate_eq_tree", "evaluate_eq_tree_rat", "evaluate_as_coded_before_fix_differs",
    "remChk_spec", "no_trap", "no_value_iff", "cmp_logic_01", "truth_is_positive",
    "equality_rule_text", "equality_rule_numeric", "equality_rule_number_vs_text",
    "equality_rule_vars_textual", "add_exact", "sub_exact", "mul_exact_nat", "mul_exact", "exp_exact", "cmp_exact", "scan_wf", "scan_then_evaluate", "scan_total", "scan_then_evaluate_total", "scan_print_items", "scan_print"]] + [
    "Qentem.Expr.parseTop_safe"]
OPEN_STATEMENTS = ["Qentem.Props.C04.ScanPrint in general (proved as scan_print_items / scan_print for the canonical printer over unsigned numeric leaves, all 16 operators, parentheses at any depth; open: variable and text leaves, signed literals, other spacings, redundant parentheses - exercised by correspondence)",
                   "arith_exact beyond the integer kinds: +, -, * (mul_exact), ^ with a non-negative exponent (exp_exact; 0^0 is 0 in the code and excluded) and the comparisons are proved to be integer arithmetic when the result fits 63 bits; real-kind operands, / and a negative exponent are the carrier's field operations by definition (IEEE rounding on the real code is C10; the Fraction oracle covers them here), & and | on reals truncate"]

OPS = [("||", "Or"), ("&&", "And"), ("==", "Equal"), ("!=", "NotEqual"), (">=", "GreaterOrEqual"),
       ("<=", "LessOrEqual"), (">", "Greater"), ("<", "Less"), ("|", "BitwiseOr"), ("&", "BitwiseAnd"),
       ("+", "Addition"), ("-", "Subtraction"), ("*", "Multiplication"), ("/", "Division"),
       ("%", "Remainder"), ("^", "Exponent")]
SYMS = [s for s, _ in OPS]
REDUCED = ["||", "==", "<", "|", "+", "-", "*", "/", "%", "^"]
CMP_LOGIC = {"||", "&&", "==", "!=", ">=", "<=", ">", "<"}
# documented precedence groups, loosest first (properties.jsonl C04): and/or; comparisons; bitwise;
# add, subtract; multiply, divide; power, remainder
DOC_GROUPS = [["||", "&&"], ["==", "!=", ">=", "<=", ">", "<"], ["|", "&"], ["+", "-"], ["*", "/"], ["%", "^"]]

RANK = {}          # symbol -> rank, filled from lean/Qentem/Generated/Expr.lean (T1) in run()
ORANK = {}         # the reference's table: RANK with + and - on one level and * and / on one level
                   # (ordinary left-to-right evaluation inside the additive / multiplicative group)

# Input classes on which the Lean side (model driver) is known to be incomplete.  They are still run on
# the C++ (faults count) but excluded from the model comparison and counted in the evidence.
# Each entry: (name, predicate(text, mode)).
_STRAY_BRACE = re.compile(r"[{}]")
_VAR_TAG = re.compile(r"\{var:[a-z]+\}")
_LIT_FORMS = re.compile(r"(?<![\w.])\.\d|\d\.(?!\d)|0[xX]")


def _huge_literal(text):
    return any(int(m) >= (1 << 63) for m in re.findall(r"\d{19,}", text))


KNOWN_MODEL_GAPS = [
    # The driver's number reader (`readLit` in lean/Qentem/Driver/Expr.lean, the `readNum` parameter of
    # the model) accepts only  -?digits[.digits][e[+-]digits]  below 2^63; Digit::StringToNumber also
    # accepts `1.`, `.5`, `.5e1`, hexadecimal `0x10` (= 16) and `-9223372036854775808` (as a Real).
    ("number-literal-forms-of-StringToNumber", lambda text, mode: bool(_LIT_FORMS.search(text)) or _huge_literal(text)),
    # The driver frames mode m as `{math:` + units + `}` and takes the whole of `units` as the
    # expression; the real extent of a math tag is decided by the tag scanner (C01/C17 area), which
    # ends the tag at the first `}` that does not close a nested `{var:…}`.
    ("math-tag-extent-with-stray-brace", lambda text, mode: mode == "m" and bool(_STRAY_BRACE.search(_VAR_TAG.sub("", text)))),
]

LIM = 1 << 62


class Skip(Exception):
    """outside the domain of the exact reference evaluator"""


class Reject(Exception):
    """an intermediate result leaves the 64-bit-safe domain: the expression is not generated"""


# ------------------------------------------------------------------------------------------------
# generated structure
#   seq      = [operand, op, operand, op, ... operand]
#   operand  = ('num', text, Fraction) | ('txt', text) | ('par', seq)
#            | ('var', name, spec|None, kind, Fraction|None, chars|None)
NUM_RE = re.compile(r"^-?\d+(?:\.\d+)?(?:[eE][+-]?\d+)?$")
NUMBER_KINDS = ("nat", "negint", "posint", "real")
NUMLIKE_KINDS = NUMBER_KINDS + ("nstr", "true", "false", "null")
TEXTSIDE_KINDS = ("nstr", "tstr", "estr", "true", "false", "null")


def lit(text):
    m = re.match(r"^(-?\d+(?:\.\d+)?)(?:[eE]([+-]?\d+))?$", text)
    v = Fraction(m.group(1))
    if m.group(2):
        v *= Fraction(10) ** int(m.group(2))
    return ("num", text, v)


def hex_of_double(x):
    return "%016X" % struct.unpack(">Q", struct.pack(">d", x))[0]


def double_of_hex(h):
    return struct.unpack(">d", bytes.fromhex(h))[0]


def mkvar(name, spec):
    """descriptor of a variable from its protocol spec (None = not defined)"""
    if spec is None:
        return ("var", name, None, "missing", None, None)
    k, rest = spec[0], spec[1:]
    if k == "n":
        return ("var", name, spec, "nat", Fraction(int(rest)), None)
    if k == "i":
        v = int(rest)
        return ("var", name, spec, "negint" if v < 0 else "posint", Fraction(v), None)
    if k == "r":
        x = double_of_hex(rest)
        return ("var", name, spec, "real", Fraction(x) if math.isfinite(x) else None, None)
    if k == "t":
        return ("var", name, spec, "true", Fraction(1), "true")
    if k == "f":
        return ("var", name, spec, "false", Fraction(0), "false")
    if k == "z":
        return ("var", name, spec, "null", Fraction(0), "null")
    if k == "o":
        return ("var", name, spec, "arr", None, None)
    if k == "s":
        s = "".join(chr(int(u)) for u in rest.split(".")) if rest else ""
        if NUM_RE.match(s):
            return ("var", name, spec, "nstr", lit(s)[2], s)
        return ("var", name, spec, "tstr" if s else "estr", None, s)
    raise ValueError(spec)


def sspec(s):
    return "s" + ".".join(str(ord(c)) for c in s)


def rspec(x):
    return "r" + hex_of_double(float(x))


def leaves(seq):
    for t in seq[::2]:
        if t[0] == "par":
            yield from leaves(t[1])
        else:
            yield t


def ops_of(seq):
    for i, t in enumerate(seq):
        if i % 2 == 1:
            yield t
        elif t[0] == "par":
            yield from ops_of(t[1])


def varspec(seq):
    d = {}
    for l in leaves(seq):
        if l[0] == "var" and l[2] is not None:
            d[l[1]] = l[2]
    return ";".join("%s=%s" % kv for kv in sorted(d.items())) if d else "-"


def show(seq, sp):
    """print with sp() spaces around operators and parentheses"""
    out = []
    for i, t in enumerate(seq):
        if i % 2 == 1:
            out.append(sp() + t + sp())
        elif t[0] == "par":
            out.append("(" + sp() + show(t[1], sp) + sp() + ")")
        elif t[0] == "var":
            out.append("{var:%s}" % t[1])
        else:
            out.append(t[1])
    return "".join(out)


# ------------------------------------------------------------------------------------------------
# tree by precedence climbing over the T1 ranks (higher binds tighter, equal rank associates left)


def build(seq, rank=None):
    rank = RANK if rank is None else rank
    out, ops = [], []

    def reduce_():
        op = ops.pop()
        r = out.pop()
        l = out.pop()
        out.append(("bin", op, l, r))
    for i, t in enumerate(seq):
        if i % 2 == 0:
            out.append(("par", build(t[1], rank)) if t[0] == "par" else t)
        else:
            while ops and rank[ops[-1]] >= rank[t]:
                reduce_()
            ops.append(t)
    while ops:
        reduce_()
    assert len(out) == 1
    return out[0]


def crem(a, b):
    r = abs(a) % abs(b)
    return -r if a < 0 else r


def b01(x):
    return Fraction(1 if x else 0)


def cmp_logic(op, a, b):
    if op == "<":
        return b01(a < b)
    if op == "<=":
        return b01(a <= b)
    if op == ">":
        return b01(a > b)
    if op == ">=":
        return b01(a >= b)
    if op == "&&":
        return b01(a > 0 and b > 0)
    if op == "||":
        return b01(a > 0 or b > 0)
    raise ValueError(op)


# ---- S3 reference: ordinary exact arithmetic ---------------------------------------------------


def check_exact(v):
    """intermediate value must be exactly representable wherever the C++ may hold it"""
    if v is None:
        return None
    if abs(v) >= LIM:
        raise Skip
    d = v.denominator
    if d & (d - 1):
        raise Skip
    n = abs(v.numerator)
    while n and n % 2 == 0:
        n //= 2
    if n.bit_length() > 40:
        raise Skip
    return v


def o_apply(op, a, b):
    if op == "+":
        return a + b
    if op == "-":
        return a - b
    if op == "*":
        return a * b
    if op == "/":
        return None if b == 0 else a / b
    if op == "%":
        if a.denominator != 1 or b.denominator != 1:
            raise Skip
        return None if b == 0 else crem(a, b)
    if op == "^":
        if 0 < abs(b) < 1:
            return None            # fractional power: no value
        if a.denominator != 1 or b.denominator != 1 or abs(b) > 64:
            raise Skip
        if (a < 0 and b < 0) or (a == 0 and b <= 0):
            raise Skip             # pinned: -8^-2 = -0.015625; 0^0 and 0^-n are 0 in the code
        p = abs(a.numerator) ** abs(b.numerator)
        check_exact(Fraction(p))
        return a ** b.numerator if b >= 0 else Fraction(1, a.numerator ** abs(b.numerator))
    if op in ("&", "|"):
        # integers only (the code truncates reals: skipped).  Negative operands: two's complement on
        # 64 bits; both operands are inside (-2^62, 2^62) here, so Python's unbounded two's-complement
        # `&` / `|` IS the 64-bit result read as a signed integer (Natural op Natural stays >= 0, any
        # Integer operand makes the result an Integer by the promotion rules: same mathematical value).
        if a.denominator != 1 or b.denominator != 1:
            raise Skip
        return Fraction(a.numerator & b.numerator) if op == "&" else Fraction(a.numerator | b.numerator)
    return cmp_logic(op, a, b)


def textside(n):
    return n[0] == "var" and n[3] in TEXTSIDE_KINDS


def o_eval(n):
    k = n[0]
    if k == "num":
        return check_exact(n[2])
    if k == "var":
        if n[3] not in NUMLIKE_KINDS or n[4] is None:
            raise Skip
        return check_exact(n[4])
    if k == "txt":
        raise Skip
    if k == "par":
        return o_eval(n[1])
    op, l, r = n[1], n[2], n[3]
    if op in ("==", "!="):
        if textside(l) and textside(r):
            res = (l[5] == r[5])          # neither side is a number: textual
        else:
            a, b = o_eval(l), o_eval(r)
            if a is None or b is None:
                return None
            res = (a == b)
        return b01(res != (op == "!="))
    a, b = o_eval(l), o_eval(r)
    if a is None or b is None:
        return None
    return check_exact(o_apply(op, a, b))


def in_s3_domain(seq):
    for l in leaves(seq):
        if l[0] == "txt" or (l[0] == "var" and l[3] not in NUMLIKE_KINDS):
            return False
    return True


# ---- generation filter: magnitudes the way the code computes them (truncating %, &, |, ^) --------


def m_apply(op, a, b):
    if op == "+":
        return a + b
    if op == "-":
        return a - b
    if op == "*":
        return a * b
    if op == "/":
        return None if b == 0 else a / b
    if op == "%":
        d = math.trunc(b)
        return None if d == 0 else Fraction(crem(math.trunc(a), d))
    if op == "^":
        if 0 < abs(a) < 1 or 0 < abs(b) < 1:
            return None
        base, n = math.trunc(abs(a)), math.trunc(abs(b))
        if base == 0:
            return Fraction(0)
        if n == 0:
            return Fraction(1)
        if n > 64:
            raise Reject
        p = base ** n
        if p >= LIM:
            raise Reject
        if b < 0:
            return Fraction(-1 if a < 0 else 1, p)
        return Fraction(-p if (a < 0 and n % 2) else p)
    if op == "&":
        return Fraction(math.trunc(a) & math.trunc(b))
    if op == "|":
        return Fraction(math.trunc(a) | math.trunc(b))
    if op in ("==", "!="):
        return b01((a == b) != (op == "!="))
    return cmp_logic(op, a, b)


def m_eval(n):
    k = n[0]
    if k == "num":
        return n[2]
    if k == "var":
        return n[4] if n[4] is not None else Fraction(1)
    if k == "txt":
        return Fraction(1)
    if k == "par":
        return m_eval(n[1])
    a, b = m_eval(n[2]), m_eval(n[3])
    if a is None or b is None:
        return None
    v = m_apply(n[1], a, b)
    if v is not None and abs(v) >= LIM:
        raise Reject
    return v


def mag_ok(seq):
    try:
        m_eval(build(seq))
        return True
    except Reject:
        return False


# ------------------------------------------------------------------------------------------------
# text -> structure for corpus lines (plain well-formed expressions only; anything else -> None)
TOK_RE = re.compile(r"\s*(\{var:[a-z]+\}|\d+(?:\.\d+)?(?:[eE][+-]?\d+)?|\|\||&&|==|!=|>=|<=|[><|&+\-*/%^()])")


def parse_text(text, vars_):
    toks, pos = [], 0
    text = text.rstrip()
    while pos < len(text):
        m = TOK_RE.match(text, pos)
        if not m:
            return None
        toks.append(m.group(1))
        pos = m.end()
    i = 0

    def operand():
        nonlocal i
        if i >= len(toks):
            raise ValueError
        t = toks[i]
        if t == "(":
            i += 1
            s = seq()
            if i >= len(toks) or toks[i] != ")":
                raise ValueError
            i += 1
            return ("par", s)
        if t == "-" and i + 1 < len(toks) and toks[i + 1][0].isdigit():
            i += 2
            return lit("-" + toks[i - 1])
        if t[0].isdigit():
            i += 1
            return lit(t)
        if t.startswith("{var:"):
            i += 1
            name = t[5:-1]
            return mkvar(name, vars_.get(name))
        raise ValueError

    def seq():
        nonlocal i
        s = [operand()]
        while i < len(toks) and toks[i] in RANK:
            op = toks[i]
            i += 1
            s += [op, operand()]
        return s
    try:
        s = seq()
        if i != len(toks):
            return None
        for l in leaves(s):
            if l[0] == "num" and (l[1].startswith("-0") and l[2] == 0 or abs(l[2]) >= (1 << 63)):
                return None
        return s
    except (ValueError, IndexError):
        return None


# ------------------------------------------------------------------------------------------------
# generators


class Gen:
    def __init__(self, ctx):
        self.ctx = ctx
        self.rng = ctx.rng
        self.exprs = []          # dicts: stream, text, vars, seq|None
        self.seen = set()
        self.rejected = 0

    def sp(self):
        return " " * self.rng.choice((0, 0, 1, 1, 1, 2))

    def add_seq(self, stream, seq, check=True, plain=False):
        if check and not mag_ok(seq):
            self.rejected += 1
            return False
        sp = (lambda: " ") if plain else self.sp
        text = ("" if plain else self.sp()) + show(seq, sp) + ("" if plain else self.sp())
        vs = varspec(seq)
        key = (text, vs)
        if key in self.seen:
            return False
        self.seen.add(key)
        self.exprs.append({"stream": stream, "text": text, "vars": vs, "seq": seq})
        return True

    def add_raw(self, stream, text, vs="-"):
        key = (text, vs)
        if key in self.seen:
            return
        self.seen.add(key)
        vd = dict(e.split("=", 1) for e in vs.split(";")) if vs != "-" else {}
        self.exprs.append({"stream": stream, "text": text, "vars": vs, "seq": parse_text(text, vd) if stream == "W" else None})

    # ---- A: exhaustive operator adjacency ---------------------------------------------------------
    POOLS = [("7", "2", "3", "5", "4"), ("12", "4", "0", "1", "2"), ("3", "2", "2", "1", "2"), ("2", "1", "2", "1", "1")]

    def chain(self, ops, both):
        n = 0
        for pool in self.POOLS:
            seq = [lit(pool[0])]
            for k, o in enumerate(ops):
                seq += [o, lit(pool[k + 1])]
            if self.add_seq("A%d" % len(ops), seq):
                n += 1
                if n == (2 if both else 1):
                    return

    def stream_a(self):
        for t in itertools.product(SYMS, repeat=2):
            self.chain(t, True)
        for t in itertools.product(SYMS, repeat=3):
            self.chain(t, True)
        for t in itertools.product(REDUCED, repeat=4):
            self.chain(t, False)
        if self.ctx.thorough:
            all4 = list(itertools.product(SYMS, repeat=4))
            for t in self.rng.sample(all4, 30000):
                self.chain(t, False)

    # ---- B: promotion pairs -----------------------------------------------------------------------
    def b_operand(self, kind, name, op, right):
        r = self.rng
        pw = (op == "^")
        if kind == "lit-nat":
            return lit(r.choice(["2", "3", "6"] if pw and right else ["7", "2", "12", "30"] if pw else ["7", "2", "12", "0", "1000"]))
        if kind == "lit-neg":
            return lit(r.choice(["-3", "-1", "-2"] if pw else ["-3", "-1", "-250"]))
        if kind == "lit-dyadic":
            return lit(r.choice(["0.5", "2.25", "2.5"] if pw and right else ["0.5", "2.25", "12.5"]))
        if kind == "lit-exp":
            return lit(r.choice(["2e0", "25e-1", "5E+0"] if pw and right else ["1e1", "125e-1", "5E+0"] if pw else ["1e2", "125e-1", "5E+1"]))
        if kind == "var-nat":
            return mkvar(name, "n" + r.choice(["2", "5"] if pw else ["7", "12", "0", "1"]))
        if kind == "var-negint":
            return mkvar(name, "i" + r.choice(["-3", "-1"] if pw else ["-3", "-1", "-40"]))
        if kind == "var-posint":
            return mkvar(name, "i" + r.choice(["5", "2", "0"]))
        if kind == "var-real":
            return mkvar(name, rspec(r.choice([2.5, 0.5, -1.25] if pw else [2.5, 0.5, -1.25, 100.0])))
        if kind == "var-s12":
            return mkvar(name, sspec("12"))
        if kind == "var-s-3":
            return mkvar(name, sspec("-3"))
        if kind == "var-s2.5":
            return mkvar(name, sspec("2.5"))
        if kind == "var-true":
            return mkvar(name, "t")
        if kind == "var-false":
            return mkvar(name, "f")
        if kind == "var-null":
            return mkvar(name, "z")
        raise ValueError(kind)

    B_KINDS = ["lit-nat", "lit-neg", "lit-dyadic", "lit-exp", "var-nat", "var-negint", "var-posint", "var-real",
               "var-s12", "var-s-3", "var-s2.5", "var-true", "var-false", "var-null"]

    def stream_b(self):
        reps = 6 if self.ctx.thorough else 2
        for op in SYMS:
            for kl in self.B_KINDS:
                for kr in self.B_KINDS:
                    for _ in range(reps):
                        self.add_seq("B", [self.b_operand(kl, "a", op, False), op, self.b_operand(kr, "b", op, True)])
                    # the same pair feeding a second operator, and inside parentheses
                    l, rr = self.b_operand(kl, "a", op, False), self.b_operand(kr, "b", op, True)
                    self.add_seq("B", [("par", [l, op, rr]), self.rng.choice(["+", "*", "-", "<", "=="]), lit("3")])

    # ---- C: variables of every kind under == / !=, alone, in parentheses --------------------------
    C_VARS = [("nat", "n7"), ("nat0", "n0"), ("nat1", "n1"), ("negint", "i-3"), ("posint", "i5"), ("real", rspec(2.5)),
              ("real0", rspec(0.0)), ("s12", sspec("12")), ("s-3", sspec("-3")), ("s2.5", sspec("2.5")), ("s7", sspec("7")),
              ("sabc", sspec("abc")), ("sabd", sspec("abd")), ("sab", sspec("ab")), ("strue", sspec("true")),
              ("sempty", "s"), ("true", "t"), ("false", "f"), ("null", "z"), ("arr", "o"), ("missing", None)]
    C_NUMS = ["7", "12", "-3", "2.5", "0", "1", "5"]
    C_TEXTS = ["abc", "abd", "ab", "true", "false", "null", "12x", "x"]

    def stream_c(self):
        vs = self.C_VARS
        for _, sa in vs:
            a = mkvar("a", sa)
            self.add_seq("C", [a])
            self.add_seq("C", [("par", [a])])
            self.add_seq("C", [("par", [("par", [a])])])
            for n in ("1", "0", "7", "12"):
                self.add_seq("C", [("par", [a]), "==", lit(n)])
                self.add_seq("C", [lit(n), "!=", ("par", [a])])
            for op in ("==", "!="):
                for n in self.C_NUMS:
                    self.add_seq("C", [a, op, lit(n)])
                    self.add_seq("C", [lit(n), op, a])
                    self.add_seq("C", [a, op, lit(n), "&&", lit("1")])
                    self.add_seq("C", [lit("0"), "||", a, op, lit(n)])
                for t in self.C_TEXTS:
                    self.add_seq("C", [a, op, ("txt", t)])
                    self.add_seq("C", [("txt", t), op, a])
                for _, sb in vs:
                    b = mkvar("b", sb)
                    self.add_seq("C", [a, op, b])
                    self.add_seq("C", [("par", [a]), op, b])
                    self.add_seq("C", [a, op, b, "+", lit("0")])
                self.add_seq("C", [a, op, a])
            for op in SYMS:
                if op not in ("==", "!="):
                    self.add_seq("C", [a, op, lit("2")])
                    self.add_seq("C", [lit("2"), op, a])
        for op in ("==", "!="):
            for x in self.C_TEXTS + self.C_NUMS:
                for y in self.C_TEXTS + self.C_NUMS:
                    ox = lit(x) if NUM_RE.match(x) else ("txt", x)
                    oy = lit(y) if NUM_RE.match(y) else ("txt", y)
                    self.add_seq("C", [ox, op, oy])

    # ---- D: random deeper trees -------------------------------------------------------------------
    D_OPS = SYMS + ["+", "-", "*", "/", "%", "+", "-", "*", "<", ">=", "=="]

    def dy_text(self, k):
        """k/8 as decimal text"""
        s = "-" if k < 0 else ""
        k = abs(k)
        frac = {0: "0", 1: "125", 2: "25", 3: "375", 4: "5", 5: "625", 6: "75", 7: "875"}[k % 8]
        return "%s%d.%s" % (s, k // 8, frac)

    def d_leaf(self, names, small=False):
        r = self.rng
        hi = 30 if small else 1000
        x = r.random()
        if x < 0.30:
            return lit(str(r.choice([0, 1, 2, 3, 5, 7, 10, 12, 16, 30]) if r.random() < 0.5 else r.randrange(0, hi + 1)))
        if x < 0.42:
            return lit(str(-r.randrange(1, hi + 1)))
        if x < 0.56:
            k = r.randrange(1, hi * 8 + 1) * r.choice((1, 1, -1))
            return lit(self.dy_text(k))
        if x < 0.62:
            m, e = r.randrange(1, 1000), r.choice((-3, -2, -1, 0, 1, 2))
            if m * 10 ** max(e, 0) > hi:
                e = min(e, 0)
            return lit("%d%s%s%d" % (m, r.choice("eE"), r.choice(("", "+")) if e >= 0 else "", e))
        name = names()
        y = r.random()
        if y < 0.25:
            return mkvar(name, "n%d" % r.randrange(0, hi + 1))
        if y < 0.40:
            return mkvar(name, "i%d" % -r.randrange(1, hi + 1))
        if y < 0.50:
            return mkvar(name, "i%d" % r.randrange(0, hi + 1))
        if y < 0.65:
            return mkvar(name, rspec(Fraction(r.randrange(-hi * 8, hi * 8 + 1), 8)))
        if y < 0.80:
            return mkvar(name, sspec(r.choice([str(r.randrange(0, hi + 1)), str(-r.randrange(1, hi + 1)),
                                                self.dy_text(r.randrange(1, hi * 8 + 1))])))
        return mkvar(name, r.choice("tfz"))

    def d_exponent(self):
        r = self.rng
        x = r.random()
        if x < 0.75:
            return lit(str(r.randrange(0, 7)))
        if x < 0.87:
            return lit(str(-r.randrange(1, 4)))
        if x < 0.94:
            return lit(r.choice(["0.5", "0.25", "-0.5", "0.125"]))
        return lit(r.choice(["2.0", "2.5", "1.5", "3e0"]))

    def d_seq(self, depth, names, top):
        r = self.rng
        n = r.randrange(2, 9) if top else r.choice((1, 2, 2, 3, 3, 4))
        ops = []
        for _ in range(n - 1):
            o = r.choice(self.D_OPS)
            while o == "^" and ops and ops[-1] == "^":
                o = r.choice(self.D_OPS)
            ops.append(o)
        seq = []
        for i in range(n):
            pw_left = i < n - 1 and ops[i] == "^"
            pw_right = i > 0 and ops[i - 1] == "^"
            if pw_right and r.random() < 0.9:
                t = self.d_exponent()
            elif depth < 3 and r.random() < (0.22 if top else 0.18):
                t = ("par", self.d_seq(depth + 1, names, False))
            else:
                t = self.d_leaf(names, small=pw_left)
            seq.append(t)
            if i < n - 1:
                seq.append(ops[i])
        return seq

    SPECIALS = [("/", "0"), ("%", "0"), ("/", "0.0"), ("%", "-1"), ("^", "0.5"), ("/", "z"), ("%", "f"), ("%", "0.5"),
                ("/", "(1 - 1)"), ("%", "(2 - 2)"), ("/", "n0"), ("^", "-0.5"), ("%", "1"), ("/", "(0 * 5)")]

    def special_operand(self, what, names):
        if what == "z":
            return mkvar(names(), "z")
        if what == "f":
            return mkvar(names(), "f")
        if what == "n0":
            return mkvar(names(), "n0")
        if what.startswith("("):
            a, o, b = what[1:-1].split(" ")
            return ("par", [lit(a), o, lit(b)])
        return lit(what)

    def stream_d(self):
        r = self.rng
        n = 200000 if self.ctx.thorough else 20000
        nspecial = 0
        for _ in range(n):
            cnt = [0]

            def names():
                cnt[0] += 1
                k = cnt[0] - 1
                return chr(97 + k % 26) * (1 + k // 26)
            seq = self.d_seq(0, names, True)
            special = r.random() < 0.12
            if special:
                j = r.randrange(0, len(seq) // 2)
                o, w = r.choice(self.SPECIALS)
                seq[2 * j + 1] = o
                seq[2 * j + 2] = self.special_operand(w, names)
            if self.add_seq("D", seq) and special:
                nspecial += 1
        self.ctx.notes.append("stream D: %d expressions with an injected zero divisor / %% -1 / fractional power" % nspecial)

    # ---- E: malformed / edge text -----------------------------------------------------------------
    E_FIXED = ["1 +", "1 <", "1 =", "1 -", "1 >", "1 !", "1 |", "1 &", "1 >=", "1 ||", "1 *", "1 ^", "1 %", "1 /",
               "()", "(", ")", "( )", "(()", "())", "((1)", "(1))", "(1", "1)", "(1 + 2", "1 + 2)", "(1 + 2) * (3", "1 + (2 * 3))",
               "1 ! 2", "1 = 2", "1 === 2", "1 =! 2", "1 <> 2", "1 => 2", "1 =< 2", "1 & & 2", "1 | | 2", "1 ||| 2", "1 &&& 2",
               "{var:a", "{var:}", "{var:a} {var:a}", "{var a}", "{vr:a}", "{var:a}}", "{{var:a}", "{var:a} +", "+ {var:a}", "{}", "{", "}",
               "1 2", "1 2 + 3", "007", "1..2", "1.", ".5", "5.", "+5", "1e", "1e+", "0x10", "1,5", "00", "01 + 1", "1 + 01",
               "-", "--1", "- 1", "-(1)", "-(1 + 2)", "- -1", "+", "++1", "1 ++ 2", "1 -- 2", "1 +- 2", "1 -+ 2", "1 - - 2", "2 * -", "2 * - 3",
               " ", "  ", "", "a", "abc", "abc + 1", "1 + abc", "abc == ", " == abc", "==", "== 1", "1 ==", "1 == ", "!=", "1 != ",
               "1 + ()", "() + 1", "1 + ( )", "(1)(2)", "(1) (2)", "2(3)", "(2)3", "1 + (2)(3)", "((((1))))", "(((1)) + ((2)))",
               "1 + 2 +", "1 + 2 + ", "(1 +)", "(+ 1)", "(1 + ) + 2", "1 * (2 +", "1 == 1 ==", "abc == abc ==", "1 < 2 <",
               "\t1 + 2", "1\t+\t2", "1 \n+ 2", "1 +\r\n 2", "1 + 2\n", "\n", "1 + 2 ", " 1", "1 ", " ( 1 ) "]

    def stream_e(self):
        vs = "a=n5;b=s97.98.99"
        for t in self.E_FIXED:
            self.add_raw("E", t, vs)
        for s in SYMS:
            for t in ("1 %s", "1 %s ", "%s 1", "%s", " %s ", "1 %s %s 2", "1 %s (", "(1 %s)", "{var:a} %s", "1%s", "1 %s -", "1 %s 2 %s"):
                self.add_raw("E", t.replace("%s", s), vs)
        for full in ("(1 + {var:a}) * 2 >= 3", "{var:b} == abc && ((2 - 1) ^ 2) != 0", "-5 + -(3) || 12.5e1 % 7"):
            for k in range(len(full) + 1):
                self.add_raw("E", full[:k], vs)
                self.add_raw("E", full[k:], vs)


def load_ranks():
    path = os.path.join(core.LEAN_DIR, "Qentem", "Generated", "Expr.lean")
    src = open(path).read()
    q = dict((m.group(1), int(m.group(2))) for m in re.finditer(r"def qop(\w+) : Nat := (\d+)", src))
    return {s: q[n] for s, n in OPS}, q


def load_corpus(gen):
    d = os.path.join(core.VERIF, "corpus", "C04")
    lines = []
    if os.path.isdir(d):
        for fn in sorted(os.listdir(d)):
            if fn.endswith(".txt"):
                for ln in open(os.path.join(d, fn)):
                    ln = ln.rstrip("\n")
                    if ln and not ln.startswith("#"):
                        lines.append(ln)
    for ln in lines:
        t = ln.split(" ")
        if len(t) != 4 or t[0] not in ("expeval", "expexact"):
            continue
        text = "" if t[3] == "-" else "".join(chr(int(u)) for u in t[3].split(","))
        gen.add_raw("W", text, t[2])
    return len(lines)


def units_of(s):
    return core.show_units(core.units(s))


def signed(b):
    return b - (1 << 64) if b >= (1 << 63) else b


def split_model(out):
    """'<desc> <truth> <flags>' -> (desc, truth, flags)"""
    t = out.split(" ")
    if len(t) < 3:
        return out, "?", "-"
    return " ".join(t[:-2]), t[-2], t[-1]


def impl_value(out):
    """mode-p output of the harness -> ('none'|'np', None) or ('val', kind, Fraction)"""
    t = out.split(" ")
    if t[0] == "NP":
        return ("np",)
    if t[0] == "NE":
        return ("none",)
    if t[0] == "V" and len(t) == 4:
        if t[1] == "n":
            return ("val", "n", Fraction(int(t[2])))
        if t[1] == "i":
            return ("val", "i", Fraction(signed(int(t[2]))))
        if t[1] == "r":
            x = double_of_hex(t[2])
            return ("val", "r", Fraction(x) if math.isfinite(x) else None)
    return ("bad",)


def run(ctx):
    ctx.gen_constants(["Expr"])
    if os.path.exists(os.path.join(core.LEAN_DIR, "Qentem", "Props", "C04.lean")):
        ctx.prove(["Qentem.Props.C04", "Qentem.Proofs.ExprScanSafe"], THEOREMS, OPEN_STATEMENTS)
    else:
        ctx.notes.append("lean/Qentem/Props/C04.lean not present yet: S1 (theorems) skipped")
    drv = ctx.build_driver()
    exe = ctx.build_harness("expr_harness.cpp")
    if not (drv and exe):
        return
    try:
        ranks, qall = load_ranks()
    except (OSError, KeyError) as e:
        ctx.infra_errors.append("cannot read the generated operator ranks: %r" % (e,))
        return
    RANK.clear()
    RANK.update(ranks)
    ORANK.clear()
    ORANK.update(ranks)
    ORANK["+"] = ORANK["-"] = min(ranks["+"], ranks["-"])
    ORANK["*"] = ORANK["/"] = min(ranks["*"], ranks["/"])

    # S3 (T1 side): the extracted ranks respect the documented precedence groups
    for gi, lo in enumerate(DOC_GROUPS):
        for hi in DOC_GROUPS[gi + 1:]:
            for a in lo:
                for b in hi:
                    if not RANK[a] < RANK[b]:
                        ctx.fail("oracle:rank-groups", "QOperation rank of '%s' (%d) is not below the rank of '%s' (%d): the documented precedence groups are not respected" % (a, RANK[a], b, RANK[b]),
                                 {"ranks": RANK})
    if len(set(RANK.values())) != len(RANK) or not all(qall["NoOp"] < v < qall["Error"] for v in RANK.values()):
        ctx.fail("oracle:rank-groups", "QOperation values are not distinct / not between NoOp and Error: %s" % qall, {"ranks": qall})
    two_char = {s for s in SYMS if len(s) == 2}
    if {s for s in SYMS if RANK[s] < RANK[">"]} != two_char:
        ctx.fail("oracle:rank-groups", "the two-character operators are not exactly the ones ranked below '>' (parseExpressions skips two units for them): %s" % RANK, {"ranks": RANK})

    gen = Gen(ctx)
    ncorpus = load_corpus(gen)
    gen.stream_a()
    gen.stream_b()
    gen.stream_c()
    gen.stream_d()
    gen.stream_e()
    nz = T.c04_zero_divisors(gen)        # stream U: - + * / % ^ | & on unsigned operands (literals, variables, computed) with exact results in [2^63, 2^64) and beside the edges, as such and as sub-expressions, exact integer oracle on four entry points; stream H: comparisons of whole numbers in [2^52, 2^64) closer than a double ulp with operands of every kind combination (Natural / Integer / exactly representable Real, produced as literals, variables and arithmetic), && and || over them, adjacent and fractional Reals, huge unsigned vs negative signed, in four entry points with an exact integer oracle; stream Z: zero divisors of every origin incl. Real -0.0 (round c)
    ctx.notes.append("stream Z: %d expressions dividing by a zero (literal / variable / computed, +0 and -0)" % nz)
    nh = T.c04_huge_compare(gen)         # stream H: comparisons of whole numbers above 2^53 across number kinds (round e)
    nu = T.c04_unsigned_arith(gen)       # stream U: arithmetic on Naturals with exact results in [2^63, 2^64) (round g)
    exprs = gen.exprs
    ctx.notes.append("corpus lines: %d; generated expressions: %d; candidates rejected by the 64-bit-safe filter: %d" % (ncorpus, len(exprs), gen.rejected))

    # ---- lines: every expression in the three entry points ----------------------------------------
    lines, meta = [], []      # meta: (expr index, mode)
    for k, e in enumerate(exprs):
        u = units_of(e["text"])
        for mode in ("m", "i", "p"):
            if mode == "p" and not e["text"]:
                continue
            lines.append("expeval %s %s %s" % (mode, e["vars"], u))
            meta.append((k, mode))
    impl, faults = core.run_lines_parallel(exe, lines, jobs=12)
    model, mfaults = core.run_lines_parallel(drv, lines, jobs=12, env=None)
    for i, kind, err in mfaults:
        ctx.infra_errors.append("the Lean driver died on %s: %s %s" % (lines[i], kind, err[-300:]))

    # second batch: the text of Real results exactly as renderMath prints them
    hexes = sorted({split_model(o)[0].split(" ")[2] for o, (k, md) in zip(model, meta) if md == "m" and o.startswith("V r ")})
    fmt = {}
    if hexes:
        fo, ff = core.run_lines_parallel(exe, ["expfmt " + h for h in hexes], jobs=12)
        for i, kind, err in ff:
            ctx.fail("fault:" + kind, "sanitizer fault / trap printing a Real result: expfmt " + hexes[i], {"line": "expfmt " + hexes[i], "stderr": err})
        fmt = dict(zip(hexes, fo))

    fault_at = {i: (kind, err) for i, kind, err in faults}
    per = {}                   # (stream, mode) -> [lines, impl, model]
    oob_agree, oob_lines = 0, set()
    ta_n, ta_set = 0, set()
    gap_n = {}
    for i, ln in enumerate(lines):
        k, mode = meta[i]
        e = exprs[k]
        desc, truth, flags = split_model(model[i])
        io = impl[i]
        if "TREE!" in flags:
            ctx.proof_broken.append("model: flat evaluation and tree evaluation differ (TREE!) on " + ln)
        if i in fault_at:
            kind, err = fault_at[i]
            if mode == "p" and desc.startswith("Foob") and kind == "asan:heap-buffer-overflow":
                # known out-of-contract call: the public ParseExpressions on a buffer that ends with
                # an operator reads content[offset+1]; inside a template the tag terminator is there.
                oob_agree += 1
                oob_lines.add(ln)
                continue
            ctx.fail("fault:" + kind, "sanitizer fault / trap in the expression code on %r (mode %s, vars %s)" % (e["text"], mode, e["vars"]),
                     {"line": ln, "text": e["text"], "stderr": err})
            continue
        if "ta" in flags.split(","):
            ta_n += 1
            ta_set.add(ln)
            continue
        gap = next((name for name, pred in KNOWN_MODEL_GAPS if pred(e["text"], mode)), None)
        if gap:
            gap_n[gap] = gap_n.get(gap, 0) + 1
            continue
        # canonical expected line from the model
        if desc.startswith("F") or desc == "bad-op":
            exp = "MODEL " + model[i]
        elif mode == "p":
            exp = desc + " " + truth
        elif mode == "i":
            # renderIf: a first case whose expression list is empty renders neither branch
            exp = "I -" if desc == "NP" else "I 84" if truth == "1" else "I 70"
        else:
            d = desc.split(" ")
            if d[0] in ("NP", "NE"):
                exp = "M " + units_of("{math:" + e["text"] + "}")
            elif d[1] == "n":
                exp = "M " + units_of(str(int(d[2])))
            elif d[1] == "i":
                exp = "M " + units_of(str(signed(int(d[2]))))
            else:
                f = fmt.get(d[2], "X ?")
                exp = "M " + f[2:] if f.startswith("X ") else "M ?" + f
        p = per.setdefault((e["stream"], mode), [[], [], []])
        p[0].append(ln)
        p[1].append(io)
        p[2].append(exp)
    for (stream, mode), (ls, io, mo) in sorted(per.items()):
        ctx.correspond("%s/%s" % (stream, {"m": "math", "i": "if", "p": "parse+evaluate"}[mode]), ls, io, mo,
                       show=lambda s: s, max_report=40)
    ctx.count("public-ParseExpressions-one-past-end", oob_agree, len(oob_lines))
    ctx.count("text-under-arithmetic(run, not compared)", ta_n, len(ta_set))
    for name, n in sorted(gap_n.items()):
        ctx.count("known-model-gap:" + name, n, n)

    T.c04_zero_divisor_oracle(ctx, exprs, meta, lines, impl, model, units_of, split_model)
    T.c04_huge_compare_oracle(ctx, exe, gen, exprs, meta, lines, impl, units_of)
    T.c04_unsigned_arith_oracle(ctx, exe, gen, exprs, meta, lines, impl, units_of)
    # ---- S3: the exact reference evaluator on the generated structure -------------------------------
    p_out = {}
    for i, (k, mode) in enumerate(meta):
        if mode == "p":
            p_out[k] = i
    n_or, d_or, n_01, n_skip, n_noval = 0, set(), 0, 0, 0
    opcount = dict((s, 0) for s in SYMS)
    kindcount = {}
    for k, e in enumerate(exprs):
        seq = e["seq"]
        if seq is None or k not in p_out:
            continue
        i = p_out[k]
        if impl[i].startswith("FAULT"):
            continue
        for o in ops_of(seq):
            opcount[o] += 1
        for l in leaves(seq):
            kk = ("lit-real" if l[2].denominator != 1 or re.search(r"[.eE]", l[1]) else "lit-neg" if l[2] < 0 else "lit-nat") if l[0] == "num" \
                else "text" if l[0] == "txt" else "var-" + l[3]
            kindcount[kk] = kindcount.get(kk, 0) + 1
        tree = build(seq)
        iv = impl_value(impl[i])
        replay = {"line": lines[i], "text": e["text"], "vars": e["vars"], "impl_output": impl[i]}
        if tree[0] == "bin" and tree[1] in CMP_LOGIC:
            n_01 += 1
            if iv[0] == "val" and not (iv[1] == "n" and iv[2] in (0, 1)):
                ctx.fail("oracle:cmp-logic-01", "top operator '%s' but the value is not Natural 0/1: %r -> %s" % (tree[1], e["text"], impl[i]), replay)
        if not in_s3_domain(seq):
            continue
        try:
            o_eval(tree)                          # every intermediate of the code's grouping is exact
            v = o_eval(build(seq, ORANK))         # the reference value: ordinary left-to-right grouping
        except Skip:
            n_skip += 1
            continue
        n_or += 1
        d_or.add((e["text"], e["vars"]))
        if v is None:
            n_noval += 1
            if iv[0] != "none":
                ctx.fail("oracle:exact-arith", "ordinary arithmetic gives no value for %r (vars %s) but the code returned %s" % (e["text"], e["vars"], impl[i]),
                         dict(replay, oracle="no value"))
        elif iv[0] != "val" or iv[2] != v:
            ctx.fail("oracle:exact-arith", "ordinary arithmetic gives %s for %r (vars %s) but the code returned %s" % (v, e["text"], e["vars"], impl[i]),
                     dict(replay, oracle=str(v)))
    ctx.count("S3-exact-oracle", n_or, len(d_or),
              sample={"stream": "S3-exact-oracle", "cases": n_or, "no-value cases": n_noval, "outside the exact domain (skipped)": n_skip})
    ctx.count("S3-cmp-logic-01", n_01, n_01)
    ctx.notes.append("operator occurrences in generated expressions: " + ", ".join("%s:%d" % (s, opcount[s]) for s in SYMS))
    ctx.notes.append("operand kinds in generated expressions: " + ", ".join("%s:%d" % kv for kv in sorted(kindcount.items())))
    ctx.notes.append("operator ranks (T1): " + ", ".join("%s=%d" % (s, RANK[s]) for s in SYMS))
    ctx.assumptions += [
        "results do not overflow 64 bits (operands |v| <= 1000, powers <= 30^6 / 12^12, every intermediate < 2^62: enforced by a generation filter)",
        "the reference evaluator compares exactly only where doubles are exact (dyadic, <= 40 significant bits); elsewhere the Lean Float model is the comparison",
        "text operands are compared only under == / != ; text under arithmetic is run for faults only",
        "mode p calls the public ParseExpressions on an exact-size buffer; an operator as the last unit reads one unit past it (out of contract; model and ASan agree)",
        "pinned behaviours outside the reference (skipped, compared with the model only): negative base with negative exponent, 0^0 and 0^-n = 0, real operands of % & | ^ are truncated",
    ]


FINISH = dict(level="proof",
              rule="every ordered pair and triple of the 16 operators and every 4-tuple over 10 of them on fixed small literals; every operator x ordered pair of 14 operand kinds; every variable kind under == / != against numbers, text and every other kind, alone and parenthesised; random trees (2-8 operands, nesting <= 3, |v| <= 1000, dyadic fractions, exponents 0..6) with injected zero divisors and fractional powers; stream Z: zero divisors of every origin (literals 0 / -0 / -0.0, variables, strings, computed) under / and % in 12 contexts with the no-value oracle on all three entry points; malformed text incl. every truncation of three expressions; each in {math:}, <if case> and ParseExpressions+Evaluate; non-trivial = distinct input line",
              checker_cmd="cd lean && lake build Qentem.Props.C04 && lake env lean <#print axioms of the listed theorems>; python3 check.py C04")
