"""C12 — a Value behaves as an abstract JSON document under every operation sequence."""
import glob
import itertools
import os
import struct
from vlib import core
from checks import _value as V

META = {
    "property_id": "C12",
    "technique": "Lean 4 model of every public Value operation as a total function on an abstract document type + kernel-checked algebraic laws (get-after-set, vivification, size, append/merge, remove, compress, copy independence, move, coercions) for all documents and all operation sequences; the model is tied to Value.hpp by operation-sequence correspondence over a forest of four named values",
    "level": "proof",
    "design_ref": "DESIGN.md §6 C12, notes/design-value.md",
    "text": "The Lean model (Qentem/Model/Value.lean, ValueOps.lean) gives every operation family of Value a total function on documents (objects keep capacity and removed slots, so Size() and slot numbers are predicted exactly). Theorems state the laws of the abstract document for every document and every operation sequence. Each run feeds the same operation sequences (exhaustive short sequences over a small alphabet, then random sequences with two-operand operations, pointers, every overload variant) to the real code under ASan/UBSan and to the compiled model and compares, after every step, a deep dump (public slot iteration), all typed getters/coercions, key and index probes, == against every root, and Stringify. The laws are additionally evaluated on the implementation's own output.",
    "note": "Trusted: Lean kernel; axioms ⊆ {propext, Quot.sound, Classical.choice}; the correspondence harness and generators. Aliasing operands are covered for the container-typed overloads (operand taken from any location of the forest: other root, sibling, descendant, ancestor, the destination itself) and for copy/move between related values; excluded and documented: self move through &&, moving an ancestor's container into its own descendant, pointer cycles, operator=(ValueType::ValuePtr); real->text and text->number conversions beyond a fixed table (C09/C10), Sort (C15).",
}

THEOREMS = [
    "Qentem.Props.C12.get_after_set_key",
    "Qentem.Props.C12.get_other_after_set_key",
    "Qentem.Props.C12.updKey_isObj",
    "Qentem.Props.C12.vivify_key",
    "Qentem.Props.C12.entries_after_new_key",
    "Qentem.Props.C12.keys_after_existing_key",
    "Qentem.Props.C12.size_after_key",
    "Qentem.Props.C12.size_after_key_full",
    "Qentem.Props.C12.get_after_set_idx",
    "Qentem.Props.C12.get_other_after_set_idx",
    "Qentem.Props.C12.size_after_idx",
    "Qentem.Props.C12.vivify_idx",
    "Qentem.Props.C12.append_to_array",
    "Qentem.Props.C12.append_vivifies",
    "Qentem.Props.C12.append_array",
    "Qentem.Props.C12.merge_arrays",
    "Qentem.Props.C12.merge_into_undefined",
    "Qentem.Props.C12.merge_copy_eq_move_of_copy",
    "Qentem.Props.C12.container_assign_from_own_member",
    "Qentem.Value.WF_refUpd",
    "Qentem.Props.C12.merge_is_fold",
    "Qentem.Props.C12.merge_keeps_other",
    "Qentem.Props.C12.merge_takes_source",
    "Qentem.Props.C12.merge_keeps_positions",
    "Qentem.Props.C12.removed_key_not_found",
    "Qentem.Props.C12.remove_keeps_other",
    "Qentem.Props.C12.remove_keeps_order",
    "Qentem.Props.C12.remove_index_array",
    "Qentem.Props.C12.compress_object",
    "Qentem.Props.C12.compress_array",
    "Qentem.Props.C12.copy_object",
    "Qentem.Props.C12.copy_array",
    "Qentem.Props.C12.run_frame",
    "Qentem.Props.C12.move_root",
    "Qentem.Props.C12.copy_root",
    "Qentem.Props.C12.get_after_set_path",
    "Qentem.Props.C12.copy_nested",
    "Qentem.Props.C12.move_nested",
    "Qentem.Props.C12.copy_source_independent",
    "Qentem.Props.C12.copy_target_independent",
    "Qentem.Props.C12.aliasing_excluded",
    "Qentem.Props.C12.reachable_WF",
    "Qentem.Props.C12.reachable_removed_key_not_found",
    "Qentem.Props.C12.number_of_nat",
    "Qentem.Props.C12.number_of_int",
    "Qentem.Props.C12.number_of_real",
    "Qentem.Props.C12.number_of_keywords",
    "Qentem.Props.C12.bool_of_scalars",
    "Qentem.Props.C12.slot_is_kth_member",
    "Qentem.Props.C12.size_is_member_count",
    "Qentem.Value.step_frame",
    "Qentem.Value.keysNodup_slotUpd",
    "Qentem.Value.keysNodup_slotRemove",
    "Qentem.Value.keysNodup_liveSlots",
    "Qentem.Value.WF_updKey",
    "Qentem.Value.WF_updIdx",
    "Qentem.Value.WF_updPath",
    "Qentem.Value.WF_pushDoc",
    "Qentem.Value.WF_addValue",
    "Qentem.Value.WF_addObj",
    "Qentem.Value.WF_addArr",
    "Qentem.Value.WF_mergeInto",
    "Qentem.Value.WF_removeKey",
    "Qentem.Value.WF_removeIdx",
    "Qentem.Value.WF_resetPayload",
    "Qentem.Value.WF_copyDoc",
    "Qentem.Value.WF_compress",
    "Qentem.Value.WF_assignType",
    "Qentem.Value.WF_getAt",
    "Qentem.Value.WF_modAt",
    "Qentem.Value.WF_groupByA",
    "Qentem.Value.step_WF",
    "Qentem.Value.run_WF",
    "Qentem.Value.getAt_updPath",
    "Qentem.Value.getAt_modAt",
    "Qentem.Value.getAt_modAt_undef",
]


def payload_tree(p):
    c = p[0]
    if c in "NTFU":
        return (c,)
    if c in "nu":
        return ("n", int(p[1:]))
    if c in "ij":
        return ("i", int(p[1:]))
    if c in "rf":
        return ("r", p[1:])
    if c == "s":
        return ("s", p[2:])
    raise ValueError(p)


def parse_loc(l):
    parts = l.split("/")
    sels = []
    for p in parts[1:]:
        if p[0] == "k":
            sels.append(("k", p[2:]))
        else:
            sels.append(("i", int(p[2:])))
    return int(parts[0]), sels


PROBE_KEYS = ["-", "97", "98", "97.97", "97.98", "49", "48", "48.48", "48.48.55", "50", "58", "47", "49.97", "32.49", "43.49", "45.48",
              "52.50.57.52.57.54.55.50.57.53", "52.50.57.52.57.54.55.50.57.54", "52.50.57.52.57.54.55.50.57.55",
              "57.57.57.57.57.57.57.57.57.57.57", "48.48.48.48.48.48.48.48.48.48.49", "48.48.48.48.48.48.48.48.48.49", "217.161", "196.177"]
KIND_NUM = {"U": 0, "p": 1, "o": 2, "a": 3, "s": 4, "n": 5, "i": 6, "r": 7, "T": 8, "F": 9, "N": 10}


def array_key_index(key):
    """the element a key denotes on an array: 1..10 decimal digits, else none (Value::GetValue(key, length))."""
    if key == "-":
        return None
    us = [int(u) for u in key.split(".")]
    if len(us) > 10 or any(u < 48 or u > 57 for u in us):
        return None
    n = 0
    for u in us:
        n = n * 10 + (u - 48)
    return n


def child(t, sel, vivified):
    """the child a reader reaches; `vivified`: through a subscript reference (undefined members count)."""
    kind, arg = sel
    if t[0] == "o":
        if kind == "k":
            for kv in t[2]:
                if kv is not None and kv[0] == arg:
                    return kv[1] if (vivified or kv[1] != ("U",)) else None
            return None
        if arg < len(t[2]) and t[2][arg] is not None:
            v = t[2][arg][1]
            return v if (vivified or v != ("U",)) else None
        return None
    if t[0] == "a":
        i = array_key_index(arg) if kind == "k" else arg
        if i is not None and i < len(t[1]):
            v = t[1][i]
            return v if (vivified or v != ("U",)) else None
        return None
    return None


def navigate(t, sels, vivified):
    for s in sels:
        if t is None:
            return None
        if not vivified and t[0] == "p":
            return None
        t = child(t, s, vivified)
    return t


def noptr(t):
    if t[0] == "p":
        return ("p",)
    if t[0] == "a":
        return ("a", [noptr(x) for x in t[1]])
    if t[0] == "o":
        return ("o", t[1], [None if kv is None else (kv[0], noptr(kv[1])) for kv in t[2]])
    return t


def noptr_slot(kv):
    return None if kv is None else (kv[0], noptr(kv[1]))


def fully_compressed(t):
    """no removed slot in any object and no undefined element in any array, at every depth."""
    if t[0] == "a":
        return all(x != ("U",) and fully_compressed(x) for x in t[1])
    if t[0] == "o":
        return all(kv is not None and fully_compressed(kv[1]) for kv in t[2])
    return True


def py_compress(t):
    if t[0] == "a":
        return ("a", [py_compress(x) for x in t[1] if x != ("U",)])
    if t[0] == "o":
        return ("o", "", [(kv[0], py_compress(kv[1])) for kv in t[2] if kv is not None])
    return t


def nocap(t):
    if t[0] == "a":
        return ("a", [nocap(x) for x in t[1]])
    if t[0] == "o":
        return ("o", "", [None if kv is None else (kv[0], nocap(kv[1])) for kv in t[2]])
    return t


def dbits(x):
    return "%016x" % struct.unpack("<Q", struct.pack("<d", float(x)))[0]


def summary_fields(g):
    f = {}
    for part in g.split(":")[2:]:
        f[part[0]] = part[1:]
    return f


def check_laws(ops, impl_line):
    """Evaluate laws of the abstract document on the implementation's own output. Returns [(key, text)]."""
    out = []
    steps = impl_line.split("|")
    if len(steps) != len(ops):
        return out
    prev = [("U",)] * 4
    for op, st in zip(ops, steps):
        ret, roots = V.split_step(st)
        if len(roots) != 4:
            return out
        try:
            cur = [V.parse_deep(d) for d, _ in roots]
        except Exception as e:  # malformed dump: left to the correspondence diff
            return out
        t = op.split(" ")
        name = t[0]
        changed = set()
        if name in ("set", "typ", "tyc", "app", "ins", "rem", "rmi", "rst", "cmp", "ptr", "adp", "rsv", "clr"):
            tr, tp = parse_loc(t[1])
            changed = {tr}
        elif name == "grp":
            tr, tp = int(t[1]), []
            changed = {tr}
        elif name == "cop":
            tr, tp = parse_loc(t[3])
            sr, sp = parse_loc(t[4])
            changed = {tr, sr}
        else:
            tr, tp = parse_loc(t[1])
            sr, sp = parse_loc(t[3] if name == "inm" else t[2])
            changed = {tr, sr}
        # frame law: untouched roots keep their content (what a pointer shows of its pointee aside)
        for r in range(4):
            if r not in changed and noptr(cur[r]) != noptr(prev[r]):
                out.append(("frame", "root %d changed by '%s'" % (r, op)))
        if name == "set" and t[2] != "z":
            node = navigate(cur[tr], tp, True)
            want = payload_tree(t[2])
            if node != want:
                out.append(("get-after-set", "after '%s' the target reads %r, expected %r" % (op, node, want)))
        if name in ("mov", "cpy") and tr != sr:
            src_before = navigate(prev[sr], sp, False)
            if src_before is not None:
                node = navigate(cur[tr], tp, True)
                if name == "mov":
                    if noptr(node) != noptr(src_before):
                        out.append(("move-content", "after '%s' the target is %r, the source was %r" % (op, node, src_before)))
                    after = navigate(cur[sr], sp, True)
                    if after != ("U",):
                        out.append(("moved-from-undefined", "after '%s' the source reads %r" % (op, after)))
                else:
                    if node is None or V.abstract(noptr(node)) != V.abstract(noptr(src_before)):
                        out.append(("copy-content", "after '%s' the target is %r, the source was %r" % (op, node, src_before)))
                    if noptr(cur[sr]) != noptr(prev[sr]):
                        out.append(("copy-independence", "'%s' changed its source" % op))
        # an indexed subscript on an object whose slot is live (even with an Undefined value) stays inside
        # that object: same keys in the same slots, every other member untouched
        if name in ("set", "typ", "app", "ins", "rem", "rmi", "rst", "cmp", "ptr", "adp") and tp and tp[0][0] == "i" \
                and prev[tr][0] == "o" and tp[0][1] < len(prev[tr][2]) and prev[tr][2][tp[0][1]] is not None:
            i0 = tp[0][1]
            ok = cur[tr][0] == "o" and len(cur[tr][2]) == len(prev[tr][2])
            if ok:
                for j, (a, b) in enumerate(zip(prev[tr][2], cur[tr][2])):
                    if j == i0:
                        ok = ok and b is not None and b[0] == a[0]
                    else:
                        ok = ok and noptr_slot(a) == noptr_slot(b)
            if not ok:
                out.append(("index-into-object", "'%s' on %r gave %r: slot %d is live, the object and its other members must stay" % (op, prev[tr], cur[tr], i0)))
        # container-typed overloads have value semantics, also when the operand lives inside the destination's root:
        # the destination becomes (a copy of) the container as it was when the call was made
        if name == "cop" and t[1] in ("ac", "cc", "am", "cm"):
            kindc = {"o": "o", "a": "a", "s": "s"}[t[2]]
            pre_t = navigate(prev[tr], tp, True)
            src_before = navigate(prev[sr], sp, False)
            nested = tr == sr and (tp[:len(sp)] == sp or sp[:len(tp)] == tp)
            if src_before is not None and src_before[0] == kindc and (tr != sr or pre_t is not None):
                node = navigate(cur[tr], tp, True)
                if t[1] in ("ac", "cc"):
                    if node is None or V.abstract(noptr(node)) != V.abstract(noptr(src_before)):
                        out.append(("container-copy", "after '%s' the destination is %r; the operand was %r" % (op, node, src_before)))
                elif not nested:
                    if node is None or nocap(noptr(node)) != nocap(noptr(src_before)):
                        out.append(("container-move", "after '%s' the destination is %r; the operand was %r" % (op, node, src_before)))
                    after = navigate(cur[sr], sp, True)
                    empty = {"o": ("o", "", []), "a": ("a", []), "s": ("s", "-")}[kindc]
                    if after is None or nocap(after) != empty:
                        out.append(("container-move", "after '%s' the moved-from operand reads %r" % (op, after)))
        if name in ("typ", "tyc"):
            empty = {0: ("U",), 2: ("o", "0", []), 3: ("a", []), 4: ("s", "-"), 5: ("n", 0), 6: ("i", 0),
                     7: ("r", "0000000000000000"), 8: ("T",), 9: ("F",), 10: ("N",)}.get(int(t[2]))
            node = navigate(cur[tr], tp, True)
            if empty is not None and node != empty:
                out.append(("assign-kind", "after '%s' the target reads %r, expected the empty value of that kind %r" % (op, node, empty)))
        if name == "cmp":
            node = navigate(cur[tr], tp, True)
            if node is not None and not fully_compressed(node):
                out.append(("compress", "after '%s' the target still holds a removed slot or an undefined element at some depth: %r" % (op, node)))
            if not tp:
                want = py_compress(prev[tr])
                if nocap(noptr(cur[tr])) != nocap(noptr(want)):
                    out.append(("compress", "after '%s' the root is %r, expected the live members in order: %r" % (op, cur[tr], want)))
        # Merge of arrays appends exactly the members (the non-Undefined elements) of the source, in order;
        # the copying overload leaves the source as it was (= the moving overload applied to a copy)
        if name == "mrg" and tr != sr:
            src_before = navigate(prev[sr], sp, False)
            prior = navigate(prev[tr], tp, True) or ("U",)
            if src_before is not None and src_before[0] == "a" and prior[0] in ("a", "U"):
                base = prior[1] if prior[0] == "a" else []
                want = ("a", [noptr(x) for x in base] + [noptr(x) for x in src_before[1] if x != ("U",)])
                node = navigate(cur[tr], tp, True)
                if node is None or V.abstract(noptr(node)) != V.abstract(want):
                    out.append(("merge-array", "after '%s' the target is %r; expected its items followed by the %d members of the source %r" % (
                        op, node, len([x for x in src_before[1] if x != ("U",)]), src_before)))
                if t[3] == "b" and noptr(cur[sr]) != noptr(prev[sr]):
                    out.append(("merge-array", "'%s' (copying overload) changed its source" % op))
        if name == "rem" and not tp and prev[tr][0] == "o":
            key = t[2]
            before = [kv for kv in prev[tr][2] if kv is not None and kv[0] != key]
            after = [kv for kv in cur[tr][2] if kv is not None] if cur[tr][0] == "o" else None
            if after != before:
                out.append(("remove", "after '%s' the live members are %r, expected %r" % (op, after, before)))
        # coercion and size laws on every root
        for r in range(4):
            d, g = roots[r]
            f = summary_fields(g)
            tr_ = cur[r]
            exp = None
            if tr_[0] == "n":
                v = tr_[1]
                exp = ("2.%d" % v, str(v), str(v if v < 2 ** 63 else v - 2 ** 64), dbits(v), "1" if v > 0 else "0")
            elif tr_[0] == "i":
                v = tr_[1]
                exp = ("3.%d" % v, str(v % 2 ** 64), str(v), dbits(v), "1" if v > 0 else "0")
            elif tr_[0] == "T":
                exp = ("2.1", "1", "1", dbits(1), "1")
            elif tr_[0] in "FN":
                exp = ("2.0", "0", "0", dbits(0), "0")
            if exp is not None:
                got = (f.get("m"), f.get("u"), f.get("j"), f.get("d"), f.get("b"))
                if got != exp:
                    out.append(("coercion", "root %s coerces to %r, expected %r" % (d, got, exp)))
            # == across kinds is false (pointers aside); a value equals itself unless it is a NaN
            ef = f.get("e", "")
            for q in range(4):
                if len(ef) == 4 and tr_[0] != "p" and cur[q][0] != "p" and tr_[0] != cur[q][0] and ef[q] == "1":
                    out.append(("eq-cross-kind", "root %s == root %s" % (d, roots[q][0])))
            # a keyed read of an array: the key must be a plain decimal index of an existing, defined element; an array
            # has no member under any other key ("" , ":", "4294967296", "+1", eleven digits, non-ASCII digits, ...)
            if tr_[0] == "a" and "q" in f:
                got = f["q"].split(",")
                if len(got) == len(PROBE_KEYS):
                    for key, g_ in zip(PROBE_KEYS, got):
                        i_ = array_key_index(key)
                        want_ = "~"
                        if i_ is not None and i_ < len(tr_[1]) and tr_[1][i_] != ("U",):
                            want_ = str(KIND_NUM[tr_[1][i_][0]])
                        if g_.split("!")[0] != want_:
                            out.append(("array-key-read", "array %s: GetValue(key %s) gives kind %s, expected %s" % (d[:120], key, g_, want_)))
                            break
            if tr_[0] == "o" and f.get("z") != str(len(tr_[2])):
                out.append(("size", "root %s has Size() %s" % (d, f.get("z"))))
            if tr_[0] == "a" and f.get("z") != str(len(tr_[1])):
                out.append(("size", "root %s has Size() %s" % (d, f.get("z"))))
        prev = cur
    return out


SMALL_OPS = ["set 0/ka97 n1", "set 0/kb98 sa120", "set 0/ke97.97 T", "set 0/kc97 z", "rem 0 97 a", "rem 0 98 b",
             "rmi 0 0 a", "rmi 0 1 b", "cmp 0", "set 0/ia1 N", "app 0 i-5", "ins 0 98 U", "set 0/kd98/ka97 n2",
             "cpy 1 0 a", "mrg 0 1 b", "apv 0 1 b", "mov 0 1 a", "set 0/kf98 z", "set 0/ib1 n5"]


def gen_lines(ctx):
    lines, opss = [], []

    def add(ops, roots=None):
        lines.append(V.line_of(ops, roots))
        opss.append(ops)
    # corpus first
    for fn in sorted(glob.glob(os.path.join(core.VERIF, "corpus", "C12", "*.txt"))):
        for ln in open(fn):
            ln = ln.strip()
            if ln and not ln.startswith("#"):
                lines.append(ln)
                opss.append(None)
    n_corpus = len(lines)
    # exhaustive short sequences over a small alphabet (keys a, b, aa on root 0; root 1 as second operand)
    L = 4 if ctx.thorough else 3
    for n in range(1, L + 1):
        for seq in itertools.product(SMALL_OPS, repeat=n):
            add(list(seq), "01")
    n_exh = len(lines) - n_corpus
    rng = ctx.rng
    N = 40000 if ctx.thorough else 6000
    for _ in range(N):
        add(V.rand_sequence(rng, rng.choice([3, 5, 8, 8, 12, 12, 16])))
    # container-typed overloads (ObjectT / ArrayT / StringT, const& and &&, =, += and construction) whose operand
    # lives in the destination's own root: descendant, ancestor, sibling, the destination itself
    for ops in V.alias_cases():
        add(ops)
    # object merges into a destination that is exactly full and holds removed members, every merge form
    for ops in V.full_merge_cases():
        add(ops)
    # pointer chains of one, two and three hops onto every kind: the typed tests (IsObject ... IsNull, IsNumber,
    # IsUndefined) and every getter follow all hops
    for last in (["set 3 N"], ["set 3 T"], ["set 3 F"], ["set 3 n7"], ["set 3 i-7"], ["set 3 r3ff8000000000000"], ["set 3 sa120"],
                 ["set 3/ka97 n1"], ["app 3 n1"], ["rst 3"], ["typ 3 4"], ["rsv 3 2 2"]):
        add(last + ["ptr 2 3", "ptr 1 2", "ptr 0 1", "set 3 sa121", "rst 3"])
        add(["ptr 2 3", "ptr 1 2", "ptr 0 1"] + last)
        add(last + ["set 0/ka97 n1", "ptr 0/ka98 1", "ptr 1 2", "ptr 2 3", "app 2 n1"])
    # every copying operation on an empty source that owns storage, then a write into the copy
    for ops in V.copy_then_write_cases():
        add(ops)
    return lines, opss, n_corpus, n_exh


def run(ctx):
    ctx.prove(["Qentem.Props.C12", "Qentem.Proofs.ValueWF", "Qentem.Proofs.ValuePath"], THEOREMS,
              open_statements=["copy/move between locations of the same root (source inside destination or vice versa) are excluded by the checked precondition t.root != s.root (aliasing_excluded), not proved equal to a value-semantics result"])
    drv = ctx.build_driver()
    exe = ctx.build_harness("value_harness.cpp")
    if not (drv and exe):
        return
    lines, opss, n_corpus, n_exh = gen_lines(ctx)
    impl, faults = core.run_lines_parallel(exe, lines, jobs=14)
    model, _ = core.run_lines_parallel(drv, lines, jobs=14, env=None)
    for i, kind, err in faults:
        ctx.fail("fault:" + kind, "sanitizer fault on " + lines[i][:600], {"line": lines[i], "stderr": err})
    bad = ctx.correspond("value-op-sequences", lines, impl, model, show=lambda s: s[:300])
    for i in bad[:5]:
        ctx.notes.append("disagreement on '%s': %s" % (lines[i][:300], V.first_diff(impl[i], model[i])))
    # S3: the laws on the implementation's own output (all four roots printed)
    nlaw = 0
    for i, ops in enumerate(opss):
        if ops is None or impl[i].startswith("FAULT") or lines[i].startswith("valseq @"):
            continue
        nlaw += 1
        for key, text in check_laws(ops, impl[i])[:3]:
            ctx.fail("law:" + key, text, {"line": lines[i], "impl_output": impl[i][:4000]})
    # a disagreement is a failing input for C12 when the model is right by the property's own words:
    # re-run the disagreeing lines through the laws even if only two roots were printed
    for i in bad[:50]:
        if lines[i].startswith("valseq @") and opss[i] is not None:
            full = V.line_of(opss[i])
            o, _ = core.run_lines(exe, [full])
            for key, text in check_laws(opss[i], o[0])[:3]:
                ctx.fail("law:" + key, text, {"line": full, "impl_output": o[0][:4000]})
    ctx.count("laws-on-impl-output", nlaw, nlaw)
    ctx.notes.append("corpus lines %d, exhaustive sequences %d, random sequences %d" % (n_corpus, n_exh, len(lines) - n_corpus - n_exh))
    ctx.assumptions += [
        "code units are char (keys and strings use units 1..127); SizeT is 32 bit; sizes stay small",
        "operands of two-operand operations live in different roots (no aliasing); no pointer cycles; every pointee is a root that outlives the run",
        "reals come from a table of eight values with unambiguous %.15g text; strings coerced to numbers are plain decimal integers or start with a letter (C09/C10 own the conversions)",
    ]


FINISH = dict(level="proof",
              rule="all sequences of length <= 3 (quick) / 4 (thorough) over 17 operations on keys a, b, aa with a second operand root, then random sequences of 3-16 operations over four roots (every overload variant, nested paths, pointers, two-operand operations); after every step all roots are dumped through the public API; non-trivial = distinct sequences",
              checker_cmd="cd lean && lake build Qentem.Props.C12 && lake env lean <#print axioms of the listed theorems>")
