"""C15 — comparisons form a consistent order; every Sort returns an ordered permutation."""
import itertools
import os
import re
from vlib import core
from checks import _c15_api

META = {
    "property_id": "C15",
    "technique": "Lean 4 theorems over all code-unit strings, all model values and all arrays (Memory::Sort model with an abstract comparator) + model/implementation correspondence on exhaustive small domains + the Lean order/sort predicates evaluated on the C++ results",
    "level": "proof",
    "design_ref": "DESIGN.md §6 C15, notes/design-order.md",
    "text": "Kernel-checked: for every pair/triple of strings IsLess/IsGreater/IsEqual and the six String/StringView operators are a strict linear order (trichotomy, duality, <= and >= as unions, transitivity) that is lexicographic by code unit with a proper prefix first; the cursor models never read out of range. For values (pointer operands dereferenced on both sides since 73c896c): <= / >= are the unions, duality and every transitivity instance hold for every pair/triple; exactly one of <,==,> for every NaN-free pair (refuted on the NaN witness). Memory::Sort (Lomuto scheme as coded) returns, for any comparison that is asymmetric and transitive on the elements present, a List.Perm of the input with no later element before an earlier one, with fuel = length and no out-of-range access; corollaries for Array<String>, object keys with lookups preserved, and Array<Value> ascending and descending for every array (a <=/>= chain when NaN-free).",
    "note": "Trusted: Lean kernel; axioms ⊆ {propext, Quot.sound, Classical.choice}; g++ as translator of enum ValueType; the correspondence harness (ASan/UBSan, exact-size buffers). A double is modelled by the monotone integer key of its bit pattern (None for NaN); the hash-chain rebuild after HArray::Sort is not modelled here (C13) — lookups after Sort are checked on the real code for every key.",
}

THEOREMS = ["Qentem.Props.C15." + t for t in [
    "str_consistent", "str_trichotomy", "str_lt_gt_dual", "str_le_ge_dual", "str_dual", "str_le_iff", "str_ge_iff",
    "str_ne_iff", "str_eq_iff_eq", "str_lt_trans", "str_trans", "str_lt_iff_lex", "str_prefix_lt", "str_cursor_model",
    "val_compare_targets", "val_le_iff", "val_ge_iff", "val_gt_eq_lt_swap", "val_eq_comm", "val_dual", "val_lt_trans",
    "val_lt_irrefl", "val_trans", "value_nan_not_consistent", "value_trichotomy_false", "val_consistent_partial",
    "val_eq_imp", "val_eq_iff_partial", "val_lt_same_kind", "val_lt_cross_kind", "value_type_ranks",
    "sort_ordered_permutation", "sort_strict_weak_order", "sort_segment", "str_lt_strict", "str_gt_strict",
    "string_sort_ascending", "string_sort_descending", "object_sort_lookup", "val_lt_strict", "val_gt_strict",
    "value_sort", "value_sort_chain_false", "value_sort_chain_partial",
    "oracle_permutation_sound", "oracle_ordered_sound", "oracle_chain_sound",
]]

OPEN = ["Qentem.Props.C15.ValueTrichotomy (false on the current code for a NaN real) — proved for NaN-free pairs",
        "Qentem.Props.C15.ValueSortChain (false for arrays holding NaN) — proved for NaN-free arrays; the 'no later element before an earlier one' form holds for every array"]

# Keys of the two findings listed in known-findings.txt (ctx.finish prints them as KNOWN-FINDING).
K_NAN = "nan-real-unordered"
K_DEPTH = "sort-stack-depth-on-sorted-input"

ZOO = ["u", "t", "f", "z",
       "n0", "n1", "n2", "n18446744073709551615", "n9223372036854775808",
       "i0", "i-1", "i1", "i9223372036854775807", "i-9223372036854775808",
       "r0000000000000000", "r8000000000000000", "r3ff0000000000000", "rbff0000000000000", "r0000000000000001",
       "r8000000000000001", "r7fefffffffffffff", "rffefffffffffffff", "r7ff0000000000000", "rfff0000000000000",
       "r4008000000000000", "r7ff8000000000000", "rfff8000000000001",
       "s:e", "s:97", "s:97.98", "s:97.98.99", "s:98", "s:65",
       "o0x0", "o1x1", "o1x2", "o2x0", "o3x7", "a0x0", "a1x1", "a1x2", "a2x0", "a5x3",
       "pu", "ps:115", "pn1", "po0x0", "pps:97", "pr7ff8000000000000", "pz"]


def _big():
    """64-bit integers that differ by 1..3 around the magnitudes where a double stops being exact (2^53) and at the
    ends of the signed / unsigned ranges, grouped in clusters; and doubles at the same magnitudes."""
    import struct
    cl = []
    for base in (2 ** 53, 2 ** 62, 2 ** 63 - 1, 2 ** 63, 2 ** 64 - 1):
        cl.append(["n%d" % v for v in range(base - 3, base + 4) if 0 <= v <= 2 ** 64 - 1])
    for base in (2 ** 53, 2 ** 62, 2 ** 63 - 1, -(2 ** 53), -(2 ** 62), -(2 ** 63)):
        cl.append(["i%d" % v for v in range(base - 3, base + 4) if -(2 ** 63) <= v <= 2 ** 63 - 1])
    cl.append(["r%016x" % struct.unpack("<Q", struct.pack("<d", float(v)))[0]
               for v in (2 ** 53, 2 ** 53 + 2, 2 ** 62, 2 ** 63, 2 ** 64, -(2 ** 53), -(2 ** 53) - 2, -(2 ** 63))])
    return cl


BIG_CLUSTERS = _big()
BIG = [t for c in BIG_CLUSTERS for t in c]


def num_of(tok):
    """Exact numeric reading of a number token (Python int for n/i, float for r)."""
    import struct
    if tok[0] in "ni":
        return int(tok[1:])
    if tok[0] == "r":
        return struct.unpack("<d", struct.pack("<Q", int(tok[1:], 16)))[0]
    return None


def magnitude_sorted(ctx, line, inp, out, asc):
    """'numbers of one kind compare by magnitude' for a Sort result: an array holding numbers of ONE kind must come
    back in exact numeric order (integers read as Python ints, never through double)."""
    if len(inp) < 2 or inp[0][0] not in "nir" or any(t[0] != inp[0][0] for t in inp) or any(is_nan(t) for t in inp):
        return
    try:
        got = [num_of(t) for t in out]
    except ValueError:
        return
    exp = sorted((num_of(t) for t in inp), reverse=not asc)
    if got != exp:
        k = next((i for i in range(min(len(got), len(exp))) if got[i] != exp[i]), 0)
        ctx.fail("sort:magnitude", "Sort of same-kind numbers is not in numeric order at position %d (%s where %s belongs): %s -> %s" % (
            k, got[k] if k < len(got) else "-", exp[k] if k < len(exp) else "-", line[:300], ",".join(out)[:300]),
            {"line": line, "impl_output": ",".join(out)})


def depth(tok):
    d = 0
    while tok.startswith("p"):
        d += 1
        tok = tok[1:]
    return d


def is_nan(tok):
    tok = tok.lstrip("p")
    if not tok.startswith("r"):
        return False
    b = int(tok[1:], 16)
    return (b & 0x7FFFFFFFFFFFFFFF) > 0x7FF0000000000000


def known_class(toks):
    """Finding key if the operands fall in the class where the law is known to fail (NaN), else None."""
    if any(is_nan(t) for t in toks):
        return K_NAN
    return None


def stok(u):
    return ".".join(str(x) for x in u) if u else "e"


def run_both(ctx, exe, drv, stream, lines, nontrivial=None):
    impl, faults = core.run_lines_parallel(exe, lines, jobs=12)
    model, _ = core.run_lines_parallel(drv, lines, jobs=12, env=None)
    for i, kind, err in faults:
        ctx.fail("fault:" + kind, "sanitizer fault on " + lines[i], {"line": lines[i], "stderr": err})
    ctx.correspond(stream, lines, impl, model, nontrivial=nontrivial)
    return impl, model


def oracle(ctx, drv, olines):
    out, _ = core.run_lines_parallel(drv, olines, jobs=12, env=None)
    return out


# ------------------------------------------------------------------------------------------------
def strings_stage(ctx, exe, drv):
    rng = ctx.rng
    small = [list(t) for n in range(0, 5) for t in itertools.product([97, 98], repeat=n)]          # 31 strings
    withnul = [list(t) for n in range(0, 4) for t in itertools.product([0, 97, 98], repeat=n)]      # 40 strings
    lines = []
    for w in ("1", "2", "4", "W"):
        for a in small:
            for b in small:
                lines.append("ordstr %s %s %s" % (w, stok(a), stok(b)))
    for w in ("1", "4"):
        for a in withnul:
            for b in withnul:
                lines.append("ordstr %s %s %s" % (w, stok(a), stok(b)))
    # random longer strings: shared prefixes, one unit changed, proper prefixes, boundary units
    def rand_units(w, n):
        hi = {"1": 127, "2": 0xFFFF, "4": 0x10FFFF, "W": 0x10FFFF, "1s": 255}[w]
        pool = [0, 1, 97, 98, hi, hi - 1, 127, 128, 255] if hi >= 255 else [0, 1, 97, 98, hi, hi - 1]
        return [min(rng.choice(pool) if rng.random() < 0.5 else rng.randrange(0, hi + 1), hi) for _ in range(n)]
    N = 6000 if not ctx.thorough else 400000
    for _ in range(N):
        w = rng.choice(["1", "2", "4", "W", "1s"])
        a = rand_units(w, rng.randrange(0, 40))
        r = rng.random()
        if r < 0.25:
            b = a[:rng.randrange(0, len(a) + 1)]
        elif r < 0.5 and a:
            b = list(a); i = rng.randrange(len(b)); b[i] = rand_units(w, 1)[0]
        elif r < 0.6:
            b = list(a)
        elif r < 0.8:
            b = a + rand_units(w, rng.randrange(1, 6))
        else:
            b = rand_units(w, rng.randrange(0, 40))
        if rng.random() < 0.5:
            a, b = b, a
        if w == "1s":
            lines.append("ordstrs 1 %s %s" % (stok(a), stok(b)))
        else:
            lines.append("ordstr %s %s %s" % (w, stok(a), stok(b)))
    corpus = os.path.join(core.VERIF, "corpus", "C15", "strings.txt")
    if os.path.exists(corpus):
        lines = [l.strip() for l in open(corpus) if l.strip() and not l.startswith("#")] + lines
    impl, model = run_both(ctx, exe, drv, "string-operators", lines, nontrivial=lambda l: l.split(" ")[2] != l.split(" ")[3])
    # S3: order axioms on the implementation's own answers
    res = {}
    for l, o in zip(lines, impl):
        if o.startswith("FAULT"):
            continue
        if " " not in o or len(o.split(" ")[0]) != 6:
            ctx.fail("string-families-disagree", "operator families disagree on %s: %s" % (l, o), {"line": l, "impl_output": o})
            continue
        t = l.split(" ")
        res[(t[0], t[1], t[2], t[3])] = o
    olines, meta = [], []
    for (op, w, a, b), o in res.items():
        six, raw = o.split(" ")[0], o.split(" ")[1]
        # raw IsLess/IsGreater agree with the operators
        if raw[:4] != six[0] + six[1] + six[2] + six[3]:
            ctx.fail("raw-vs-operator", "IsLess/IsGreater disagree with the operators on %s %s %s: %s" % (w, a, b, o), {"line": "%s %s %s %s" % (op, w, a, b), "impl_output": o})
        ua, ub = ([] if a == "e" else a.split(".")), ([] if b == "e" else b.split("."))
        mn = min(len(ua), len(ub))
        if len(raw) != 5 or (raw[4] == "1") != (ua[:mn] == ub[:mn]):
            ctx.fail("raw-isequal", "StringUtils::IsEqual over the common length is wrong on %s %s %s: %s" % (w, a, b, o), {"line": "%s %s %s %s" % (op, w, a, b), "impl_output": o})
        back = res.get((op, w, b, a))
        if back is not None:
            olines.append("ordoraclepair %s %s" % (six, back.split(" ")[0])); meta.append((op, w, a, b))
        olines.append("%s %s %s %s" % ("ordoraclelexs" if op == "ordstrs" else "ordoraclelex", a, b, six)); meta.append((op, w, a, b))
    # all triples over the exhaustive domain (width 1 and 4), from the pair answers
    toks = [stok(s) for s in small]
    trip = list(itertools.product(toks, repeat=3))
    if not ctx.thorough:
        trip = [t for t in trip if rng.random() < 0.35]
    for w in ("1", "4"):
        for a, b, c in trip:
            olines.append("ordoracletri %s %s %s" % (res[("ordstr", w, a, b)].split(" ")[0], res[("ordstr", w, b, c)].split(" ")[0], res[("ordstr", w, a, c)].split(" ")[0]))
            meta.append(("ordstr", w, a, b + " " + c))
    verdicts = oracle(ctx, drv, olines)
    for v, m, ol in zip(verdicts, meta, olines):
        if v != "ok":
            ctx.fail("string-order:" + v, "order law '%s' fails on the implementation's answers for %s (%s)" % (v, m, ol), {"operands": m, "oracle_line": ol})
    ctx.count("string-order-oracle", len(olines), len(set(zip(olines, meta))))


# ------------------------------------------------------------------------------------------------
def values_stage(ctx, exe, drv):
    rng = ctx.rng
    lines = ["ordval %s %s" % (a, b) for a in ZOO for b in ZOO]
    # integers 1..3 apart around 2^53 / 2^62 / 2^63 / 2^64 and the signed extremes, all kinds against each other,
    # a few behind pointers, and against the small numbers of the zoo
    bigp = BIG + ["p" + c[len(c) // 2] for c in BIG_CLUSTERS] + [z for z in ZOO if z[0] in "nir" and not is_nan(z)][::3]
    lines += ["ordval %s %s" % (a, b) for a in bigp for b in bigp]
    corpus = os.path.join(core.VERIF, "corpus", "C15", "values.txt")
    if os.path.exists(corpus):
        lines = [l.strip() for l in open(corpus) if l.strip() and not l.startswith("#")] + lines
    impl, model = run_both(ctx, exe, drv, "value-operators", lines, nontrivial=lambda l: l.split(" ")[1] != l.split(" ")[2])
    res = {}
    for l, o in zip(lines, impl):
        t = l.split(" ")
        if len(o) == 6:
            res[(t[1], t[2])] = o
    # "numbers of one kind compare by magnitude": an independent numeric reading of same-kind number pairs
    # (behind any number of pointers: the operators compare the targets)
    for (a0, b0), o in res.items():
        a, b = a0.lstrip("p"), b0.lstrip("p")
        if a[0] in "nir" and a[0] == b[0] and not is_nan(a) and not is_nan(b):
            x, y = num_of(a), num_of(b)
            exp = "".join("1" if t else "0" for t in (x < y, x <= y, x > y, x >= y, x == y, x != y))
            if o != exp:
                ctx.fail("value-order:magnitude", "numbers of one kind do not compare by magnitude: %s vs %s gives %s (< <= > >= == !=), expected %s" % (a, b, o, exp),
                         {"operands": [a, b], "impl": o, "expected": exp})
    olines, meta = [], []
    for (a, b), o in res.items():
        if (b, a) in res:
            olines.append("ordoraclepair %s %s" % (o, res[(b, a)])); meta.append((a, b))
    if ctx.thorough:
        trip = list(itertools.product(ZOO, repeat=3))
    else:
        clean = [z for z in ZOO if known_class([z]) is None][::2]
        trip = list(itertools.product(clean, repeat=3)) + [tuple(rng.choice(ZOO) for _ in range(3)) for _ in range(12000)]
    for c in BIG_CLUSTERS:                                   # every triple inside a cluster of near-equal big numbers
        trip += list(itertools.product(c, repeat=3))
    trip += [tuple(rng.choice(bigp) for _ in range(3)) for _ in range(6000 if not ctx.thorough else 60000)]
    for a, b, c in trip:
        olines.append("ordoracletri %s %s %s" % (res[(a, b)], res[(b, c)], res[(a, c)])); meta.append((a, b, c))
    verdicts = oracle(ctx, drv, olines)
    for v, m, ol in zip(verdicts, meta, olines):
        if v != "ok":
            key = known_class(list(m)) or ("value-order:" + v)
            ctx.fail(key, "order law '%s' fails on the implementation's answers for values %s (%s)" % (v, " ".join(m), ol), {"operands": list(m), "oracle_line": ol})
    ctx.count("value-order-oracle", len(olines), len(set(meta)))


# ------------------------------------------------------------------------------------------------
def gen_ops(rng, keys, n):
    ops, live = [], []
    for _ in range(n):
        if live and rng.random() < 0.3:
            k = rng.choice(live if rng.random() < 0.8 else keys)
            ops.append("!" + k)
            if k in live:
                live.remove(k)
        else:
            k = rng.choice(keys)
            ops.append("+%s=%d" % (k, rng.randrange(0, 1000)))
            if k not in live:
                live.append(k)
    return ops


def sorts_stage(ctx, exe, drv):
    rng = ctx.rng
    T = ctx.thorough
    # ---- arrays of values
    lines = []
    alphabets = [(["n1", "n2", "n3"], 7), (["o1x1", "o1x2", "s:97"], 6 if not T else 7), (["s:97", "s:97.98", "s:98"], 6 if not T else 7),
                 (["u", "i-1", "a0x0"], 5 if not T else 7)]
    if T:
        alphabets.append((["pn1", "n1", "u"], 6))
    for alpha, L in alphabets:
        for n in range(0, L + 1):
            for t in itertools.product(alpha, repeat=n):
                lst = ",".join(t) if t else "-"
                for asc in "10":
                    lines.append("%s %s %s" % ("ordsortv" if (len(t) + int(asc)) % 2 else "ordsorta", asc, lst))
    clean = [z for z in ZOO if known_class([z]) is None]
    for _ in range(1500 if not T else 120000):
        n = rng.randrange(0, 60)
        r = rng.random()
        src = clean if r < 0.8 else ZOO
        arr = [rng.choice(src) for _ in range(n)]
        if rng.random() < 0.3:
            arr = [rng.choice(arr) for _ in range(n)] if arr else arr       # many duplicates
        lines.append("ordsortv %s %s" % (rng.choice("01"), ",".join(arr) if arr else "-"))
    for c in BIG_CLUSTERS:                                   # near-equal big numbers inside arrays being sorted
        for asc in "10":
            for arr in [c, c[::-1], c[1:] + c[:1]] + [[x, y] for x in c for y in c if x != y][:: 1 if T else 3] + [rng.sample(c, len(c)) for _ in range(4)]:
                lines.append("%s %s %s" % (rng.choice(["ordsortv", "ordsorta"]), asc, ",".join(arr)))
    for _ in range(300 if not T else 6000):
        kind = rng.choice("nni")
        pool = [t for c in BIG_CLUSTERS for t in c if t[0] == kind] + (["n0", "n1"] if kind == "n" else ["i0", "i-1", "i1"])
        arr = [rng.choice(pool) for _ in range(rng.randrange(2, 40))]
        lines.append("ordsortv %s %s" % (rng.choice("01"), ",".join(arr)))
        if rng.random() < 0.3:
            lines.append("ordsortn %s %s %s" % (rng.choice("01"), kind, ",".join(arr)))
        if rng.random() < 0.3:                               # mixed kinds at these magnitudes (ordered by kind rank, then magnitude)
            lines.append("ordsortv %s %s" % (rng.choice("01"), ",".join(rng.choice(BIG) for _ in range(rng.randrange(2, 30)))))
    impl, model = run_both(ctx, exe, drv, "value-array-sort", lines, nontrivial=lambda l: "," in l)
    # already sorted / reversed inputs: feed the implementation's own outputs back in both directions
    again = []
    for l, o in zip(lines[::3], impl[::3]):
        if not o.startswith("FAULT") and o != "bad-op":
            again.append("ordsortv 1 " + o.split(" ")[0]); again.append("ordsortv 0 " + o.split(" ")[0])
    impl2, model2 = run_both(ctx, exe, drv, "value-array-sort(sorted/reversed input)", again, nontrivial=lambda l: "," in l)
    olines, meta = [], []
    for l, o in list(zip(lines, impl)) + list(zip(again, impl2)):
        if o.startswith("FAULT") or o == "bad-op":
            continue
        t = l.split(" ")
        olines.append("ordoraclesort %s %s" % (t[-1], o)); meta.append(l)
        if t[-1] != "-":
            magnitude_sorted(ctx, l, t[-1].split(","), o.split(" ")[0].split(","), t[1] == "1")
    for v, l, ol in zip(oracle(ctx, drv, olines), meta, olines):
        if v != "ok":
            toks = [] if l.split(" ")[-1] == "-" else l.split(" ")[-1].split(",")
            key = (v in ("not-ordered", "not-a-chain") and known_class(toks)) or ("sort:" + v)
            ctx.fail(key, "Sort result is '%s' (by the implementation's own comparisons): %s -> %s" % (v, l, ol.split(" ")[2]), {"line": l, "impl_output": ol.split(" ")[2]})
    ctx.count("value-array-sort-oracle", len(olines), len(set(olines)))

    # ---- arrays of strings
    lines = []
    for n in range(0, (6 if not T else 7) + 1):
        for t in itertools.product(["e", "97", "97.98"], repeat=n):
            for asc in "10":
                lines.append("ordsorts %s %s %s" % (asc, "124"[(n + int(asc)) % 3], ",".join(t) if t else "-"))
    for _ in range(800 if not T else 60000):
        w = rng.choice(["1", "2", "4", "1s"])
        hi = {"1": 127, "2": 0xFFFF, "4": 0x10FFFF, "1s": 255}[w]
        base = [rng.choice([0, 97, 98, hi, 128 if hi >= 128 else 1]) for _ in range(rng.randrange(0, 8))]
        arr = []
        for _ in range(rng.randrange(0, 40)):
            r = rng.random()
            if r < 0.4:
                arr.append(base[:rng.randrange(0, len(base) + 1)])
            elif r < 0.7:
                arr.append(base + [rng.randrange(0, hi + 1) for _ in range(rng.randrange(0, 3))])
            else:
                arr.append([rng.randrange(0, hi + 1) for _ in range(rng.randrange(0, 6))])
        lines.append("ordsorts %s %s %s" % (rng.choice("01"), w, ",".join(stok(a) for a in arr) if arr else "-"))
    impl, model = run_both(ctx, exe, drv, "string-array-sort", lines, nontrivial=lambda l: "," in l)
    olines, meta = [], []
    for l, o in zip(lines, impl):
        if o.startswith("FAULT") or o == "bad-op":
            continue
        t = l.split(" ")
        olines.append("ordoraclesort %s %s" % (t[3], o)); meta.append(l)
    for v, l, ol in zip(oracle(ctx, drv, olines), meta, olines):
        if v != "ok":
            ctx.fail("sort:" + v, "Array<String>::Sort result is '%s': %s -> %s" % (v, l, ol.split(" ")[2]), {"line": l, "impl_output": ol.split(" ")[2]})
    ctx.count("string-array-sort-oracle", len(olines), len(set(olines)))

    # ---- objects / hash arrays (keys sorted, removed members, lookups afterwards)
    keys = ["e", "97", "97.98", "97.98.99", "98", "97.97", "65", "122.122"]
    lines = []
    for n in range(0, 4 if not T else 5):                                   # exhaustive short histories
        for t in itertools.product(["+97=1", "+97.98=2", "+98=3", "!97", "!97.98", "+e=4"], repeat=n):
            for asc in "10":
                lines.append("%s %s %s" % ("ordsorto" if (n + int(asc)) % 2 else "ordsorth", asc, ",".join(t) if t else "-"))
    for _ in range(2500 if not T else 120000):
        ks = keys if rng.random() < 0.5 else [stok([rng.choice([97, 98, 99]) for _ in range(rng.randrange(0, 4))]) for _ in range(rng.randrange(1, 40))]
        ops = gen_ops(rng, ks, rng.randrange(0, 48))
        lines.append("%s %s %s" % (rng.choice(["ordsorto", "ordsorth"]), rng.choice("01"), ",".join(ops) if ops else "-"))
    for n in (1, 2, 3, 4, 5, 8, 9, 16, 17, 33):                             # sorted / reversed insertion orders at capacity edges
        ks = sorted(set(stok([97 + (i // 26), 97 + i % 26][: 1 + (i % 2)] + [98] * (i % 3)) for i in range(n)))
        for order in (ks, ks[::-1]):
            for asc in "10":
                lines.append("ordsorth %s %s" % (asc, ",".join("+%s=%d" % (k, i) for i, k in enumerate(order))))
                lines.append("ordsorto %s %s" % (asc, ",".join(["+%s=%d" % (k, i) for i, k in enumerate(order)] + ["!" + order[0]])))
    impl, model = run_both(ctx, exe, drv, "object-sort", lines, nontrivial=lambda l: "," in l)
    olines, meta = [], []
    for l, o in zip(lines, impl):
        if o.startswith("FAULT") or o == "bad-op":
            continue
        t = o.split(" ")
        if len(t) != 5:
            ctx.fail("object-sort-output", "unexpected harness output %s for %s" % (o, l), {"line": l})
            continue
        if t[4] != "lookups-ok":
            ctx.fail("lookup-after-sort", "after Sort a lookup by key is wrong (%s): %s" % (t[4], l), {"line": l, "impl_output": o})
        if "~dirty" in o:
            ctx.fail("removed-slot-not-cleared", "a removed slot still holds a key/value: %s -> %s" % (l, o), {"line": l, "impl_output": o})
        olines.append("ordoraclesort %s %s %s %s" % (t[0], t[1], t[2], t[3])); meta.append(l)
    for v, l, ol in zip(oracle(ctx, drv, olines), meta, olines):
        if v != "ok":
            ctx.fail("sort:" + v, "object Sort result is '%s': %s -> %s" % (v, l, ol), {"line": l, "oracle_line": ol})
    ctx.count("object-sort-oracle", len(olines), len(set(olines)))

    # ---- template loop sort= attribute renders the sorted copy
    lines = []
    for _ in range(300 if not T else 20000):
        arr = []
        for _ in range(rng.randrange(0, 12)):
            if rng.random() < 0.6:
                arr.append("s:" + stok([rng.choice([97, 98, 99, 65, 122]) for _ in range(rng.randrange(1, 4))]))
            else:
                arr.append("n%d" % rng.choice([0, 1, 2, 9, 10, 11, 99, 100, 12345, rng.randrange(0, 10 ** 9)]))
        lines.append("ordloop %s %s" % (rng.choice("01"), ",".join(arr) if arr else "-"))
    impl, model = run_both(ctx, exe, drv, "loop-sort-attribute", lines, nontrivial=lambda l: "," in l)
    olines = ["ordoracleloop %s %s %s" % (l.split(" ")[1], l.split(" ")[2], o) for l, o in zip(lines, impl) if not o.startswith("FAULT") and o != "bad-op"]
    for v, ol in zip(oracle(ctx, drv, olines), olines):
        if v != "ok":
            ctx.fail("loop-sort:" + v, "<loop sort=...> output is '%s': %s" % (v, ol), {"oracle_line": ol})
    ctx.count("loop-sort-oracle", len(olines), len(set(olines)))


# ------------------------------------------------------------------------------------------------
def patterns(n, rng):
    """Adversarial key patterns of length n (lists of ranks; equal rank = equivalent elements)."""
    m = n // 2
    srt = list(range(n))
    out = {
        "sorted": srt, "reversed": srt[::-1], "all-equal": [5] * n,
        "two-alternating": [i % 2 for i in range(n)], "two-blocks-01": [0] * m + [1] * (n - m), "two-blocks-10": [1] * m + [0] * (n - m),
        "organ-pipe": [min(i, n - 1 - i) for i in range(n)], "valley": [max(i, n - 1 - i) for i in range(n)],
        "sawtooth": [i % 4 for i in range(n)], "random-perm": rng.sample(srt, n), "random-3": [rng.randrange(3) for _ in range(n)],
    }
    if n >= 3:
        d = list(srt); d[0] = d[m] = d[n - 1] = m; out["dup-first-mid-last"] = d          # duplicates at the pivot candidates
        d = list(srt); d[0] = n; out["first-is-max"] = d
        d = list(srt); d[0] = d[1] = 0; d[n - 1] = d[n - 2]; out["dup-at-both-ends"] = d
        d = srt[::-1]; d[m] = d[0]; out["reversed-dup-first-mid"] = d
        d = srt[m:] + srt[:m]; out["rotated"] = d
    return out


def patterns_stage(ctx, exe, drv):
    """Every length 0..40 and lengths around 64/128/256, adversarial patterns, both directions, through every
    container kind: thresholds of any small-sort / pivot-selection scheme in Memory::Sort sit inside this range."""
    rng = ctx.rng
    lines = []
    longs = [63, 64, 65, 127, 128, 129, 255, 256, 257] if ctx.thorough else [64, 65, 129, 256]
    for n in list(range(0, 41)) + longs:
        for name, ranks in patterns(n, rng).items():
            for asc in "10":
                nat = ",".join("n%d" % r for r in ranks) if ranks else "-"
                strs = ",".join(stok([48 + r // 100, 48 + r // 10 % 10, 48 + r % 10]) for r in ranks) if ranks else "-"
                lines.append("%s %s %s" % ("ordsortv" if n % 2 else "ordsorta", asc, nat))
                lines.append("ordsortn %s r %s" % (asc, ",".join("r%016x" % (0x4000000000000000 + (r << 40)) for r in ranks) if ranks else "-"))
                if n <= 40:
                    lines.append("ordsortv %s %s" % (asc, ",".join("a%dx%d" % (r + 1, i) for i, r in enumerate(ranks)) if ranks else "-"))
                    lines.append("ordsorts %s %s %s" % (asc, "124"[n % 3], strs))
                    lines.append("ordsortw %s %s %s" % (asc, "142"[n % 3], strs))
                    lines.append("ordsortn %s i %s" % (asc, ",".join("i%d" % (r - 7) for r in ranks) if ranks else "-"))
                    if n >= 2:
                        s0, e0 = rng.randrange(0, n), 0
                        e0 = rng.randrange(s0, n + 1)
                        lines.append("%s %s %d %d %s" % ("ordsortseg" if n % 2 else "ordsortseg64", asc, s0, e0, nat))
                elif name in ("sorted", "reversed", "organ-pipe", "all-equal", "random-perm", "dup-first-mid-last"):
                    lines.append("ordsorts %s 1 %s" % (asc, strs))
                # hash arrays: keys are unique, so permutation patterns only; removed members give the duplicates
                if len(set(ranks)) == n and n >= 1 and (n <= 40 or name in ("sorted", "reversed")):
                    ops = ["+%s=%d" % (stok([48 + r // 100, 48 + r // 10 % 10, 48 + r % 10]), 0 if n % 3 == 2 else i) for i, r in enumerate(ranks)]
                    op = ["ordsorth", "ordsorto", "ordsortl"][n % 3]
                    lines.append("%s %s %s" % (op, asc, ",".join(ops)))
                    if n >= 3:
                        rm = ["!" + ops[k].split("=")[0][1:] for k in (0, n // 2, n - 1)]
                        lines.append("%s %s %s" % (op, asc, ",".join(ops + rm)))
    impl, model = run_both(ctx, exe, drv, "sort-length-patterns", lines, nontrivial=lambda l: "," in l)
    sort_oracles(ctx, drv, "sort-length-patterns-oracle", lines, impl)


def sort_oracles(ctx, drv, stream, lines, impl):
    """Ordered-permutation oracle (implementation's own comparison tables) for any of the sort ops."""
    olines, meta = [], []
    for l, o in zip(lines, impl):
        if o.startswith("FAULT") or o == "bad-op":
            if o == "bad-op":
                ctx.fail("sort-op-rejected", "harness rejected %s" % l, {"line": l})
            continue
        t, r = l.split(" "), o.split(" ")
        op = t[0]
        if op in ("ordsorto", "ordsorth", "ordsortl"):
            if len(r) != 5:
                ctx.fail("object-sort-output", "unexpected harness output %s for %s" % (o, l), {"line": l}); continue
            if r[4] != "lookups-ok":
                ctx.fail("lookup-after-sort", "after Sort a lookup by key is wrong (%s): %s" % (r[4], l), {"line": l, "impl_output": o})
            if "~dirty" in o:
                ctx.fail("removed-slot-not-cleared", "a removed slot still holds a key/value: %s -> %s" % (l, o), {"line": l, "impl_output": o})
            olines.append("ordoraclesort %s %s %s %s" % (r[0], r[1], r[2], r[3])); meta.append(l)
        elif op in ("ordsortseg", "ordsortseg64"):
            s0, e0 = int(t[2]), int(t[3])
            inp = [] if t[4] == "-" else t[4].split(",")
            out = [] if r[0] == "-" else r[0].split(",")
            if len(out) != len(inp) or out[:s0] != inp[:s0] or out[e0:] != inp[e0:]:
                ctx.fail("sort:outside-segment-changed", "Memory::Sort(arr,%d,%d) touched elements outside the segment: %s -> %s" % (s0, e0, l, r[0]), {"line": l, "impl_output": o})
            olines.append("ordoraclesort %s %s %s %s" % (",".join(inp[s0:e0]) or "-", ",".join(out[s0:e0]) or "-", r[1], r[2])); meta.append(l)
        else:
            olines.append("ordoraclesort %s %s" % (t[-1], o)); meta.append(l)
            if t[-1] != "-":
                magnitude_sorted(ctx, l, t[-1].split(","), r[0].split(","), t[1] == "1")
    for v, l, ol in zip(oracle(ctx, drv, olines), meta, olines):
        if v != "ok":
            toks = [] if l.split(" ")[-1] == "-" else l.split(" ")[-1].split(",")
            key = (v in ("not-ordered", "not-a-chain") and known_class(toks)) or ("sort:" + v)
            ctx.fail(key, "Sort result is '%s' (by the implementation's own comparisons): %s -> %s" % (v, l, ol.split(" ")[2][:400]), {"line": l, "impl_output": ol.split(" ")[2]})
    ctx.count(stream, len(olines), len(set(olines)))


def forms_stage(ctx, exe, drv):
    """The remaining public forms: Memory::Sort on a segment with both index types, Array<StringView> over one buffer,
    Array<number>, HList."""
    rng = ctx.rng
    T = ctx.thorough
    lines = []
    alpha = ["n1", "n2", "a1x1", "a1x2"]
    for n in range(0, 5 if not T else 6):
        for t in itertools.product(alpha[: 3 if n >= 5 else 4], repeat=n):
            for s0 in range(0, n + 1):
                for e0 in range(s0, n + 1):
                    if (s0, e0) != (0, n) and rng.random() < (0.5 if n >= 4 else 0.0):
                        continue
                    lines.append("%s %s %d %d %s" % ("ordsortseg" if (s0 + e0) % 2 else "ordsortseg64", "10"[(s0 + n) % 2], s0, e0, ",".join(t) if t else "-"))
    clean = [z for z in ZOO if known_class([z]) is None]
    for _ in range(400 if not T else 8000):
        n = rng.randrange(0, 40)
        arr = [rng.choice(clean) for _ in range(n)]
        s0 = rng.randrange(0, n + 1); e0 = rng.randrange(s0, n + 1)
        lines.append("%s %s %d %d %s" % (rng.choice(["ordsortseg", "ordsortseg64"]), rng.choice("01"), s0, e0, ",".join(arr) if arr else "-"))
    for n in range(0, 6 if not T else 7):
        for t in itertools.product(["e", "97", "97.98"], repeat=n):
            lines.append("ordsortw %s %s %s" % ("10"[n % 2], "124"[len(set(t)) % 3], ",".join(t) if t else "-"))
    nums = {"n": ["n0", "n1", "n2", "n18446744073709551615", "n9223372036854775808"],
            "i": ["i0", "i-1", "i1", "i9223372036854775807", "i-9223372036854775808"],
            "r": [z for z in ZOO if z[0] == "r" and not is_nan(z)]}
    for _ in range(600 if not T else 12000):
        k = rng.choice("nir")
        arr = [rng.choice(nums[k]) if rng.random() < 0.6 else {"n": "n%d", "i": "i%d", "r": "r%016x"}[k] % (rng.randrange(0, 2 ** 62) if k != "i" else rng.randrange(-2 ** 62, 2 ** 62)) for _ in range(rng.randrange(0, 30))]
        arr = [a for a in arr if not is_nan(a)]
        lines.append("ordsortn %s %s %s" % (rng.choice("01"), k, ",".join(arr) if arr else "-"))
    keys = ["e", "97", "97.98", "97.98.99", "98", "97.97", "65", "122.122"]
    for n in range(0, 4 if not T else 5):
        for t in itertools.product(["+97=0", "+97.98=0", "+98=0", "!97", "!97.98", "+e=0"], repeat=n):
            lines.append("ordsortl %s %s" % ("10"[n % 2], ",".join(t) if t else "-"))
    for _ in range(800 if not T else 20000):
        ks = keys if rng.random() < 0.5 else [stok([rng.choice([97, 98, 99]) for _ in range(rng.randrange(0, 4))]) for _ in range(rng.randrange(1, 40))]
        ops = [re.sub(r"=\d+$", "=0", o) for o in gen_ops(rng, ks, rng.randrange(0, 48))]
        lines.append("ordsortl %s %s" % (rng.choice("01"), ",".join(ops) if ops else "-"))
    impl, model = run_both(ctx, exe, drv, "remaining-sort-forms", lines, nontrivial=lambda l: "," in l)
    sort_oracles(ctx, drv, "remaining-sort-forms-oracle", lines, impl)


def api_stage(ctx):
    rows, unc = _c15_api.audit()
    ctx.notes.append("API audit (checks/_c15_api.py): %d public comparison/sort entry points, not driven: %s" % (len(rows), unc or "none"))
    ctx.count("api-audit", len(rows), len(rows))


def big_stage(ctx, exe, drv):
    """Large arrays (any pivot / small-sort threshold above the exhaustive range): generated, sorted and judged inside
    the harness (result == independently sorted key sequence, adjacent items in order by the container's own operators,
    borders of a sub-segment untouched, every HArray key still found).  Patterns that do not recurse once per element."""
    rng = ctx.rng
    sizes = [1023, 1024, 1025, 1500, 2049, 2500, 4097, 5000, 10000]
    lines = []
    for n in sizes:
        for kind in "udsvhg":
            for pat in "rfbm":
                for asc in "10":
                    lines.append("ordbig %s %s %d %s %d" % (kind, pat, n, asc, rng.randrange(1, 2 ** 31)))
    if ctx.thorough:
        for n in (1026, 2047, 2048, 3000, 8191, 8193, 20000, 50000, 100000):
            for kind in "udsvhg":
                for pat in ("rb" if n > 10000 else "rfbm"):
                    for asc in "10":
                        lines.append("ordbig %s %s %d %s %d" % (kind, pat, n, asc, rng.randrange(1, 2 ** 31)))
    out, faults = core.run_lines_parallel(exe, lines, jobs=12)
    for i, kind, err in faults:
        ctx.fail("fault:" + kind, "sanitizer fault on " + lines[i], {"line": lines[i], "stderr": err})
    for l, o in zip(lines, out):
        if o != "ok" and not o.startswith("FAULT"):
            ctx.fail("sort:big:" + o.split(":")[0], "large Sort is not the ordered permutation of its input (%s): %s" % (o, l), {"line": l, "impl_output": o})
    ctx.count("large-sort-in-harness", len(lines), len(lines), sample={"stream": "large-sort-in-harness", "input": lines[0], "impl": out[0]})
    # the sizes the proved model can still run: model correspondence + table oracle just above / below 1024
    ml = []
    for n in (1023, 1024, 1025):
        perm = rng.sample(range(n), n)
        for asc in "10":
            ml.append("ordsortn %s n %s" % (asc, ",".join("n%d" % r for r in perm)))
    impl, model = run_both(ctx, exe, drv, "sort-around-1024(model)", ml)
    sort_oracles(ctx, drv, "sort-around-1024-oracle", ml, impl)


def depth_stage(ctx, exe):
    """Observation on the real code only: recursion depth n of Memory::Sort on sorted input (not modelled)."""
    n = 4000 if not ctx.thorough else 30000
    lines = ["orddeep %d %d %d" % (n, r, a) for r in (0, 1) for a in (0, 1)]
    out, faults = core.run_lines(exe, lines)
    for l, o in zip(lines, out):
        if o != "ok":
            ctx.fail(K_DEPTH, "Array<SizeT>::Sort on %s: %s" % (l, o), {"line": l, "impl_output": o})
    ctx.count("sort-depth-observation", len(lines), len(lines), sample={"stream": "sort-depth-observation", "input": lines[0], "impl": out[0]})
    ctx.notes.append("Memory::Sort recursion depth %d on sorted/reversed input tolerated by the harness build (observation; depth is not modelled)" % n)


def replay_stage(ctx, exe, drv):
    """--replay <file>: re-run the input lines recorded in a replay file (or a plain text file of harness lines)
    through the implementation and the model and show both."""
    import json
    txt = open(ctx.replay).read()
    lines = []
    try:
        js = json.loads(txt)
        for f in js.get("failures", []):
            r = f.get("replay", {})
            if "line" in r:
                lines.append(r["line"])
        for b in js.get("broken_correspondence", []):
            lines += [e["input"] for e in b.get("examples", [])]
    except ValueError:
        lines = [l.strip() for l in txt.split("\n") if l.strip() and not l.startswith("#")]
    lines = list(dict.fromkeys(lines))
    if not lines:
        ctx.infra_errors.append("replay file has no input lines")
        return
    impl, model = run_both(ctx, exe, drv, "replay", lines)
    for l, i, m in zip(lines, impl, model):
        core.log("replay: %s\n  impl : %s\n  model: %s" % (l, i, m))


def run(ctx):
    ctx.gen_constants(["Order"])
    ctx.prove(["Qentem.Props.C15"], THEOREMS, open_statements=OPEN)
    drv = ctx.build_driver()
    exe = ctx.build_harness("order_harness.cpp")
    if not (drv and exe):
        return
    if getattr(ctx, "replay", None):
        replay_stage(ctx, exe, drv)
        return
    strings_stage(ctx, exe, drv)
    values_stage(ctx, exe, drv)
    sorts_stage(ctx, exe, drv)
    forms_stage(ctx, exe, drv)
    patterns_stage(ctx, exe, drv)
    big_stage(ctx, exe, drv)
    depth_stage(ctx, exe)
    api_stage(ctx)
    ctx.assumptions += [
        "code units modelled as Nat; for the signed `char` build a unit u is ordered as (u+128) mod 256 (stream ordstrs)",
        "a double is modelled by the monotone integer key of its IEEE-754 bit pattern (NaN = none); tied by the value zoo (±0, denormals, extremes, ±inf, NaN)",
        "trichotomy and the <=-chain form of 'sorted' are proved for NaN-free values only; a NaN real breaks them on the real code (finding nan-real-unordered)",
        "recursion depth of Memory::Sort (O(n) stack on sorted input) is not exhibited by the model",
    ]


FINISH = dict(level="proof",
              rule="all pairs (and all/sampled triples) of the 31 strings of length <= 4 over {a,b} in 4 widths, 40 strings over {NUL,a,b}, random strings to length 40 with shared prefixes and boundary units incl. signed char; all pairs of a 50-value zoo (every kind, extremes, ±0, NaN, pointers) and triples; all arrays up to size 7 over 3-value alphabets ascending/descending + random arrays to length 60 + re-sorting sorted/reversed outputs; string arrays; object histories with removals across capacity edges with lookups re-checked; loop sort= rendering; non-trivial = operands differ / array has >= 2 elements",
              checker_cmd="cd lean && lake build Qentem.Props.C15 && lake env lean <#print axioms of the listed theorems>")
