"""C13 — the hash array is an insertion-ordered map under every operation sequence."""
import itertools
import os
import re
from vlib import core

META = {
    "property_id": "C13",
    "technique": "Lean 4 theorems about a layout-level model of HashTable/HArray/HList (bucket heads, 1-based Next links, tombstones) for an arbitrary hash function with H k != 0: chain invariant + refinement to a list-of-slots specification; model/implementation correspondence on the full memory layout after every step of generated operation sequences",
    "level": "proof",
    "design_ref": "DESIGN.md §6 C13, notes/design-hashtable.md",
    "text": "Kernel-checked theorems, for every hash function with H k != 0 and every value type: the invariant (capacity a power of two, chains acyclic and complete, stored hash = H key, live keys distinct) holds for the empty table and is preserved by every operation (Insert, Get/operator[], assignment, lookups by key and index, Remove, RemoveIndex, Rename, Reserve, Resize, Expect, Compress, Clear, Reset, Sort, copy, move, operator+=); no operation faults (find never exhausts its fuel) and each refines the list-of-slots specification with equal outputs; lifted to every finite operation sequence; corollaries: live entries = the textbook insertion-ordered association list, lookup = history of stores/removals, key<->index agreement, Sort permutes the entries; StringUtils::Hash satisfies H k != 0. The model is tied to the real headers by comparing Size, Capacity, every bucket head and every item's key/Hash/Next/value after every step of operation sequences over three key alphabets (duplicates and embedded NUL; 64 keys colliding at every capacity 2..64; random bytes) for HArray<String,String>, HArray<String,Value> and HList<String>.",
    "note": "Trusted: Lean kernel; axioms ⊆ {propext, Quot.sound, Classical.choice}; the correspondence harness (ASan/UBSan, exact-size key buffers, bucket heads read at Storage()-Capacity()). The ordered-map predicate is evaluated on the real object after every step twice: by the Lean slot specification (driver op htspec) and by a std::vector reference inside the harness. Not modelled: allocation failure, 32-bit overflow of the allocation size (tables >= 2^27 slots), aliasing of operands other than h += h itself (modelled as the no-op the repaired headers make it).",
}

THEOREMS = [
    "Qentem.Props.C13.hash_ne_zero",
    "Qentem.Props.C13.hash_top_bit",
    "Qentem.Props.C13.hashChar_ne_zero",
    "Qentem.Props.C13.inv_empty",
    "Qentem.Props.C13.find_fuel",
    "Qentem.Props.C13.inv_step_refine_step",
    "Qentem.Props.C13.reachable_refines",
    "Qentem.Props.C13.reachable_refines_hashChar",
    "Qentem.Props.C13.iteration_first_insertion_order",
    "Qentem.Props.C13.lookup_eq_history",
    "Qentem.Props.C13.found_iff_stored_not_removed",
    "Qentem.Props.C13.lookup_last_stored",
    "Qentem.Props.C13.key_index_agree",
    "Qentem.Props.C13.sort_keeps_lookups",
    "Qentem.Props.C13.sort_orders_keys_of_sorted",
    "Qentem.Props.C13.sort_orders_keys",
    "Qentem.Props.C13.tree_copy_dst_eq_src",
    "Qentem.Props.C13.tree_copy_unrelated_unchanged",
    "Qentem.Props.C13.tree_assign_dst_eq_src",
    "Qentem.Props.C13.tree_move_dst_eq_src",
    "Qentem.Props.C13.tree_get_stored",
    "Qentem.Props.C13.tree_insert_from_stored",
    "Qentem.HashTree.getAt_setAt_self",
    "Qentem.HashTree.getAt_setAt_incomparable",
    "Qentem.HashTable.sortSeg_of_checked",
    "Qentem.HashTable.sortSeg_sorted",
    # the lemmas the step theorem rests on (one per routine)
    "Qentem.HashTable.find_some",
    "Qentem.HashTable.find_none",
    "Qentem.HashTable.insertAt_inv",
    "Qentem.HashTable.genLoop_spec",
    "Qentem.HashTable.rebuild_spec",
    "Qentem.HashTable.resize_spec",
    "Qentem.HashTable.insert_spec",
    "Qentem.HashTable.getOrCreate_spec",
    "Qentem.HashTable.assign_spec",
    "Qentem.HashTable.lookup_spec",
    "Qentem.HashTable.lookupIdx_spec",
    "Qentem.HashTable.remove_spec",
    "Qentem.HashTable.removeIdx_spec",
    "Qentem.HashTable.reset_spec",
    "Qentem.HashTable.clear_spec",
    "Qentem.HashTable.reserve_spec",
    "Qentem.HashTable.resizeTo_spec",
    "Qentem.HashTable.expect_spec",
    "Qentem.HashTable.compress_spec",
    "Qentem.HashTable.copy_spec",
    "Qentem.HashTable.move_spec",
    "Qentem.HashTable.merge_spec",
    "Qentem.HashTable.buildOperand_spec",
    "Qentem.HashTable.sort_spec",
    "Qentem.HashTable.rename_spec",
    "Qentem.HashTable.run_refines",
    "Qentem.HashTable.entries_step",
    "Qentem.HashTable.entries_run",
    "Qentem.HashTable.spec_key_index_agree",
    "Qentem.HashTable.sort_entries_perm",
    "Qentem.HashTable.Inv.keysNodup",
]
OPEN = []

W = 1 << 32


def conv_char(c):
    c &= 255
    return c if c < 128 else c + W - 256


def qhash(key):
    """python transcription of StringUtils::Hash for char keys; only used to *choose* colliding keys
    (and cross-checked against the C++ and the model in the hthash stream)."""
    h, base, off, length = 11, 33, 0, len(key)
    while off < length:
        h = (h + base * off * conv_char(key[off])) % W
        base = (base + off) % W
        h = (h * (length ^ off)) % W
        base = (base + off) % W
        length -= 1
        h = (h + conv_char(key[length])) % W
        off += 1
    return h | (1 << 31)


ALPHA1 = [[], [97], [98], [97, 97], [97, 98], [97, 0, 98]]


def colliding_alphabet():
    """64 keys of length 1-3 whose hashes fall into 8 values of the low 6 bits: with a capacity of 64
    every used bucket holds up to 8 keys, with smaller capacities more."""
    syms = [0, 1, 97, 98, 99, 122, 128, 255]
    cands = [list(t) for n in (1, 2, 3) for t in itertools.product(syms, repeat=n)]
    groups = {}
    for k in cands:
        groups.setdefault(qhash(k) & 63, []).append(k)
    best = sorted(groups.items(), key=lambda kv: (-len(kv[1]), kv[0]))[:8]
    keys = []
    for _, g in best:
        keys.extend(g[:8])
    assert len(keys) == 64, len(keys)
    return keys


def ks(k):
    return core.show_units(k)


class Gen:
    def __init__(self, rng, keys, kind, alias=True):
        # alias: also generate calls whose argument is an element of the same table (IV IK IKV GK RK NK NT)
        self.rng, self.keys, self.kind, self.alias = rng, keys, kind, alias
        self.next_id = 1

    def key(self):
        return self.rng.choice(self.keys)

    def val(self):
        v = self.next_id
        self.next_id += 1
        return v if self.kind != "L" else 0

    def small(self):
        r = self.rng
        return r.choice([0, 0, 1, 1, 2, 2, 3, 3, 4, 5, 6, 7, 8, 9, 12, 15, 16, 17, 31, 33, 63, 64, 65, 70])

    def operand(self):
        r = self.rng
        n = r.choice([0, 1, 1, 2, 3, 4, 6, 9])
        pairs = [(self.key(), self.val()) for _ in range(n)]
        rem = [r.choice(pairs)[0] if pairs and r.random() < 0.8 else self.key() for _ in range(r.choice([0, 0, 1, 2]))]
        a = "&".join("%s=%d" % (ks(k), v) for k, v in pairs) or "-"
        b = "&".join(ks(k) for k in rem) or "-"
        return a + "/" + b

    def op(self, insert_bias=0.3):
        r = self.rng
        x = r.random()
        if x < insert_bias:
            return "I/%s/%d" % (ks(self.key()), self.val())
        if self.alias and r.random() < 0.12:
            c = r.choice(["IV", "IV", "IV", "IK", "IKV", "GK", "RK", "NK", "NT", "RC", "GC", "PG", "PB", "PI", "PR", "PC", "PL", "PL"])
            if self.kind == "L" and c == "GC":
                c = "RC"                      # HList has no operator[]
            if c in ("RC", "GC"):
                return "%s/%s" % (c, ks(self.key()))
            if c == "PI":
                return "PI/%d/%d" % (self.small(), self.val())
            if c in ("PG", "PB", "PR", "PC", "PL"):
                return "%s/%d" % (c, self.small())
            if c == "IV":
                return "IV/%s/%s" % (ks(self.key()), ks(self.key()))
            if c == "IK":
                return "IK/%d/%d" % (self.small(), self.val())
            if c == "IKV":
                return "IKV/%d/%d" % (self.small(), self.small())
            if c in ("GK", "RK"):
                return "%s/%d" % (c, self.small())
            return "%s/%d/%s" % (c, self.small(), ks(self.key()))
        c = r.choices(["A", "G", "L", "X", "R", "D", "N", "S", "Y", "M", "P", "Q", "V", "Z", "E", "C", "K", "T", "I", "W"],
                      weights=[8, 6, 10, 5, 12, 6, 6, 3, 3, 2, 3, 3, 1, 3, 3, 3, 1, 1, 5, 2])[0]
        if self.kind == "L" and c in ("A", "G"):
            c = "I"
        if c in ("I", "A"):
            return "%s/%s/%d" % (c, ks(self.key()), self.val())
        if c in ("G", "L", "R"):
            return "%s/%s" % (c, ks(self.key()))
        if c in ("X", "D", "V", "Z", "E"):
            return "%s/%d" % (c, self.small())
        if c == "N":
            return "N/%s/%s" % (ks(self.key()), ks(self.key()))
        if c == "S":
            return "S/%d" % r.randrange(2)
        if c in ("P", "Q"):
            return "%s/%s" % (c, self.operand())
        return c

    def seq(self, n, insert_bias=0.3):
        return ";".join(self.op(insert_bias) for _ in range(n))


def exhaustive_ops(kind, alias=False):
    a, b, aa = "97", "98", "97,97"
    ops = ["I/%s/1" % a, "I/%s/2" % b, "I/%s/3" % aa, "R/%s" % a, "R/%s" % b, "D/0", "D/1", "L/%s" % a, "X/1",
           "C", "S/1", "N/%s/%s" % (a, b), "N/%s/%s" % (a, "99"), "Y", "E/1", "Z/1", "P/%s=7&%s=8/%s" % (b, "99", b), "W"]
    if kind != "L":
        ops += ["G/%s" % a, "A/%s/9" % b]
    if alias:
        ops += ["IK/0/6", "RK/1", "NK/0/99", "NT/0/%s" % b, "RC/%s" % a, "PI/0/4", "PR/0", "PC/1", "PL/0"]
        if kind != "L":
            ops += ["IV/%s/%s" % (aa, a), "IV/%s/%s" % (b, a), "IKV/0/1", "GK/0", "GC/%s" % aa, "PG/0", "PB/1"]
    return ops


def random_key(rng):
    n = rng.choice([0, 1, 1, 2, 2, 3, 4, 5, 8])
    return [rng.choice([0, 1, 65, 97, 127, 128, 200, 255, rng.randrange(256)]) for _ in range(n)]


def alloc_cap(n):
    n += n & 1
    s = 1 << (n.bit_length() - 1) if n else 1
    return s * 2 if s < n else s


def big_key(i):
    return str(((i + 1) * 48271) % 2147483647)


def big_expected(kind, n):
    """Reference for `htbig`: the insertion-ordered map on n generated keys (plain Python, linear)."""
    def fnv(entries):
        import zlib
        return zlib.adler32(b"".join(k.encode() + b"\0" + str(v).encode() + b"\1" for k, v in entries))
    val = (lambda i: i + 1) if kind == "A" else (lambda i: 0)
    ent = [(big_key(i), val(i)) for i in range(n)]
    assert len(set(k for k, _ in ent)) == n
    cap = 0
    size = 0
    for _ in range(n):                      # growth by doubling when full
        if size == cap:
            cap = alloc_cap((1 if cap == 0 else cap) * 2)
        size += 1
    recs = []
    rec = lambda size, cap, e, absent: "%d %d %d %d %d %d %d %d" % (size, cap, len(e), len(e), absent, len(e), len(e), fnv(e))
    recs.append(rec(n, cap, ent, 0))
    cap = alloc_cap(n)                       # copyTable: allocate(src.Size())
    recs.append(rec(n, cap, ent, 0))
    ent = sorted(ent, key=lambda e: e[0])    # ASCII keys: IsLess order = bytewise, proper prefix first
    recs.append(rec(n, cap, ent, 0))
    gone = set(big_key(i) for i in range(0, n, 2))
    live = [e for e in ent if e[0] not in gone]
    recs.append(rec(n, cap, live, len(gone)))
    if not live:
        size, cap = 0, 0                     # Compress() of a table without live items is Reset()
    elif len(live) < n:
        size, cap = len(live), alloc_cap(len(live))
    else:
        size = n
    recs.append(rec(size, cap, live, len(gone)))
    # Resize(n/4): slots from n/4 on are dropped (after Compress there are no tombstones), then compaction
    q = n // 4
    if q == 0:
        return "|".join(recs + ["0 0 0 0 %d 0 0 %d" % (n, fnv([]))])
    kept = live[:q]
    recs.append(rec(len(kept), alloc_cap(q), kept, n - len(kept)))
    return "|".join(recs)


def sparse_lines(ctx, zero_keys):
    """Sparse tables: capacity >> size (Reserve / Expect 32..256, 1..8 live items).  `zero_keys` hash into
    bucket 0 at every capacity up to 256 - the bucket where Sort chains the removed slots."""
    rng = ctx.rng
    lines = []
    few = [[97], [98], [99], [97, 97], [], [100]]
    for kind in ("A", "L", "B"):
        for cap in (32, 64, 128, 256):
            for z in zero_keys[:3]:
                for a, b in (([97], [98]), ([98], z), (z, [99])):
                    # remove -> sort -> clear -> re-insert -> remove -> lookup, around a bucket-0 key
                    lines.append("htrun %s V/%d;I/%s/1;I/%s/2;R/%s;S/1;K;I/%s/3;I/%s/4;R/%s;L/%s;L/%s" % (
                        kind, cap, ks(a), ks(b), ks(a), ks([101]), ks(z), ks([101]), ks(z), ks([101])))
                    lines.append("htrun %s E/%d;I/%s/1;I/%s/2;I/%s/3;D/1;S/0;K;I/%s/4;I/%s/5;I/%s/6;D/0;L/%s;L/%s;C;L/%s" % (
                        kind, cap, ks(a), ks(b), ks(z), ks(b), ks(z), ks(a), ks(z), ks(a), ks(z)))
        for _ in range(220 if not ctx.thorough else 4000):
            keys = few + zero_keys[:4]
            g = Gen(rng, keys, kind)
            cap = rng.choice([32, 64, 128, 256])
            ops = ["%s/%d" % (rng.choice("VE"), cap)]
            for _ in range(rng.randrange(4, 30)):
                r = rng.random()
                if r < 0.30:
                    ops.append("I/%s/%d" % (ks(g.key()), g.val()))
                elif r < 0.48:
                    ops.append("R/%s" % ks(g.key()))
                elif r < 0.56:
                    ops.append("D/%d" % rng.randrange(0, 8))
                elif r < 0.66:
                    ops.append("S/%d" % rng.randrange(2))
                elif r < 0.76:
                    ops.append("K")
                elif r < 0.88:
                    ops.append("L/%s" % ks(g.key()))
                else:
                    ops.append(g.op(0.2))          # any other operation, on a sparse table
            lines.append("htrun %s %s" % (kind, ";".join(ops)))
    return lines


def bucket_zero_keys():
    """Keys of length 1-2 whose hash has the low 8 bits clear: bucket 0 at every capacity up to 256."""
    out = [list(t) for n in (1, 2) for t in itertools.product(range(256), repeat=n) if qhash(list(t)) & 255 == 0]
    assert len(out) >= 4, len(out)
    return out[:1] + out[1::37][:7]


def gen_lines(ctx):
    rng = ctx.rng
    lines = []
    corpus = os.path.join(core.VERIF, "corpus", "C13")
    if os.path.isdir(corpus):
        for fn in sorted(os.listdir(corpus)):
            if fn.endswith(".txt"):
                lines += [l.strip() for l in open(os.path.join(corpus, fn)) if l.strip() and not l.startswith("#")]
    n_corpus = len(lines)
    # exhaustive short sequences over a small operation alphabet (index arithmetic, chain surgery)
    depth = 4 if ctx.thorough else 3
    for kind in ("A", "L"):
        ops = exhaustive_ops(kind, alias=True)
        for n in range(1, depth + 1):
            for t in itertools.product(ops, repeat=n):
                lines.append("htrun %s %s" % (kind, ";".join(t)))
    if not ctx.thorough:
        ops = exhaustive_ops("B", alias=True)
        for t in itertools.product(ops, repeat=2):
            lines.append("htrun B %s" % ";".join(t))
        for _ in range(3000):   # a sample of the length-4 domain
            lines.append("htrun A %s" % ";".join(rng.choice(ops) for _ in range(4)))
    # every fill level 1..17 (capacities 2,4,8,16: exactly full at 2,4,8,16), then a call whose argument is an
    # element of the same table - with a new key (the call grows a full table) and with an existing key
    for kind in ("A", "B", "L"):
        for n in range(1, 18):
            fill = ";".join("I/%d/%d" % (100 + j, j + 1) for j in range(n))
            tails = ["IK/0/90;L/100", "IK/%d/91" % (n - 1), "RK/0;IK/1/92", "NK/0/99;L/99", "NT/%d/99" % (n - 1),
                     "PI/0/93;PL/0", "PI/%d/94;PL/%d" % (n - 1, n - 1), "PR/0;PL/1;PC/%d" % (n - 1), "RC/100;RC/%d;PL/0" % (100 + n - 1)]
            if kind != "L":
                tails += ["IV/99/100;L/99;L/100", "IV/99/%d;L/99" % (100 + n - 1), "IV/100/%d;L/100" % (100 + n - 1),
                          "IKV/0/%d;L/100" % (n - 1), "IV/100/100;L/100", "GK/%d" % (n - 1), "R/100;IV/100/101;L/100",
                          "PG/0", "PG/%d" % (n - 1), "PB/%d;GC/99;GC/100" % (n - 1)]
            for t in tails:
                lines.append("htrun %s %s;%s" % (kind, fill, t))
    lines += sparse_lines(ctx, bucket_zero_keys())
    n_exh = len(lines) - n_corpus
    coll = colliding_alphabet()
    per = 450 if not ctx.thorough else 9000
    for kind in ("A", "B", "L"):
        for name, keys in (("dup", ALPHA1), ("coll", coll)):
            for j in range(per):
                g = Gen(rng, keys, kind)
                if name == "coll" and j % 6 == 0:   # insert-heavy: drives the capacity up to 64 and beyond
                    lines.append("htrun %s %s" % (kind, g.seq(rng.randrange(40, 110), insert_bias=0.75)))
                else:
                    lines.append("htrun %s %s" % (kind, g.seq(rng.randrange(1, 40))))
        for j in range(per):
            keys = [random_key(rng) for _ in range(rng.choice([2, 4, 8, 24]))]
            g = Gen(rng, keys, kind)
            lines.append("htrun %s %s" % (kind, g.seq(rng.randrange(1, 40), insert_bias=0.4)))
    return lines, n_corpus, n_exh


def spec_view(record_line):
    """C++ layout records -> what the slot specification prints (out#cap#slots)."""
    if record_line == "-":
        return "-"
    out = []
    for rec in record_line.split("|"):
        p = rec.split("#")
        if len(p) != 3:
            return "unparsable:" + rec[:60]
        cap = p[1].split(" ")[1]
        slots = []
        if p[2] != "-":
            for it in p[2].split(";"):
                k, h, _n, v = it.split("/")
                slots.append("~" if h == "0" else k + "/" + v)
        out.append(p[0] + "#" + cap + "#" + (";".join(slots) if slots else "-"))
    return "|".join(out)


def prop_rec(rec):
    """the part of a specification record the property talks about: output (index dropped) + live entries"""
    p = rec.split("#")
    if len(p) != 3:
        return rec
    ents = ";".join(x for x in p[2].split(";") if x not in ("~", "-"))
    return re.sub(r"^f\d+:", "f:", p[0]) + "#" + ents


def property_diff(line, impl_view, spec_view_):
    """First step at which the real table and the Lean slot specification differ in what the property
    is about.  Capacity and the moment tombstones are dropped are not part of the property; once they
    differ, slot numbers are no longer comparable, so the comparison stops at the next operation that
    takes or returns a slot number (X, D, Z and the calls addressed by slot: IK IKV GK RK NK NT P*)."""
    ops = line.split(" ")[2].split(";")
    a, b = impl_view.split("|"), spec_view_.split("|")
    if len(a) != len(b):
        return min(len(a), len(b)), "record-count"
    diverged = False
    for k in range(len(a)):
        c = ops[k].split("/")[0] if k < len(ops) else "?"
        if diverged and c in ("X", "D", "Z", "IK", "IKV", "GK", "RK", "NK", "NT", "PG", "PB", "PI", "PR", "PC", "PL"):
            return None, None
        if c == "X":
            if not diverged and a[k].split("#")[0] != b[k].split("#")[0]:
                return k, "index-lookup"
        elif prop_rec(a[k]) != prop_rec(b[k]):
            return k, "entries-or-output"
        if a[k] != b[k]:
            diverged = True
    return None, None


def run(ctx):
    ctx.prove(["Qentem.Props.C13"], THEOREMS, OPEN)
    drv = ctx.build_driver()
    exe = ctx.build_harness("hashtable_harness.cpp")
    if not (drv and exe):
        return
    rng = ctx.rng

    # ---- big tables (more than 2^16 buckets: find and generateHash must agree on the bucket at every
    # capacity): started now, in the background, collected after the other streams
    from concurrent.futures import ThreadPoolExecutor
    sizes = [("A", 66000)] if not ctx.thorough else [
        ("A", 70000), ("L", 70000), ("A", 131071), ("A", 131072), ("A", 131073), ("L", 131073), ("A", 262143), ("A", 262145)]
    blines = ["htbig %s %d" % kn for kn in sizes]
    bex = ThreadPoolExecutor(max_workers=4)
    bfut = [bex.submit(core.run_lines, exe, [l]) for l in blines]

    # ---- recorded finding: allocation size wraps in 32-bit SizeT for requests of >= 2^27..2^30 slots
    wo, wf = core.run_lines(exe, ["htwrap x"])
    if wo[0].startswith("FAULT"):
        ctx.fail("alloc-size-wrap", "HList h; h.Reserve(1u<<30); h.Insert(\"a\") faults (%s): the allocation size wraps in 32-bit SizeT" % wo[0],
                 {"line": "htwrap x", "stderr": wf[0][2] if wf else ""})
    ctx.count("alloc-size-wrap-probe", 1, 1)

    # ---- the hash function: C++ vs model (vs the python copy used to pick colliding keys)
    hl = ["hthash " + ks(list(t)) for n in (0, 1) for t in itertools.product(range(256), repeat=n)]
    sub = [0, 1, 2, 31, 32, 65, 97, 98, 122, 126, 127, 128, 129, 200, 254, 255]
    hl += ["hthash " + ks(list(t)) for t in itertools.product(sub, repeat=2)]
    hl += ["hthash " + ks(list(t)) for t in itertools.product([0, 97, 128, 255], repeat=3)]
    for _ in range(3000 if not ctx.thorough else 60000):
        hl.append("hthash " + ks([rng.randrange(256) for _ in range(rng.randrange(0, 40))]))
    impl, faults = core.run_lines_parallel(exe, hl, jobs=8)
    model, _ = core.run_lines_parallel(drv, hl, jobs=8, env=None)
    for i, kind, err in faults:
        ctx.fail("fault:hash:" + kind, "sanitizer fault in StringUtils::Hash on " + hl[i], {"line": hl[i], "stderr": err})
    ctx.correspond("StringUtils::Hash(char)", hl, impl, model)
    for l, o in zip(hl, impl):
        u = l.split(" ")[1]
        key = [] if u == "-" else [int(x) for x in u.split(",")]
        if not o.startswith("FAULT"):
            if int(o) == 0:
                ctx.fail("hash-zero", "StringUtils::Hash returned 0 for " + l, {"line": l})
            if int(o) != qhash(key):
                ctx.infra_errors.append("python copy of the hash differs on %s: %s vs %d" % (l, o, qhash(key)))
                break

    # ---- operation sequences: layout after every step, C++ vs model
    lines, n_corpus, n_exh = gen_lines(ctx)
    mlines = [("htrun A " + l[8:]) if l.startswith("htrun B ") else l for l in lines]
    impl_raw, faults = core.run_lines_parallel(exe, lines, jobs=12)
    model, _ = core.run_lines_parallel(drv, mlines, jobs=12, env=None)
    slines = ["htspec" + l[5:] for l in mlines]
    spec, _ = core.run_lines_parallel(drv, slines, jobs=12, env=None)
    for i, kind, err in faults:
        ctx.fail("fault:" + kind, "sanitizer fault in the hash table on " + lines[i][:300], {"line": lines[i], "stderr": err})
    impl, verdicts = [], []
    for o in impl_raw:
        if " @ " in o:
            a, b = o.rsplit(" @ ", 1)
        else:
            a, b = o, ("fault" if o.startswith("FAULT") else "no-verdict")
        impl.append(a)
        verdicts.append(b)
    for stream, sel in (("layout:HArray<String,String>", "htrun A "), ("layout:HArray<String,Value>", "htrun B "), ("layout:HList<String>", "htrun L ")):
        idx = [i for i, l in enumerate(lines) if l.startswith(sel)]
        ctx.correspond(stream, [lines[i] for i in idx], [impl[i] for i in idx], [model[i] for i in idx],
                       nontrivial=lambda l: l.count(";") >= 1)
    # ---- S3: the ordered-map predicate on what the real code did
    n_steps = 0
    for i, l in enumerate(lines):
        if impl[i].startswith("FAULT"):
            continue
        n_steps += impl[i].count("|") + 1
        if verdicts[i] != "ok":
            ctx.fail("oracle:" + re.sub(r"^step\d+:", "", verdicts[i]).split(":")[0].split(" [")[0].replace(" ", "-"),
                     "ordered-map predicate (std::vector reference) fails: %s on %s" % (verdicts[i][:300], l[:400]),
                     {"line": l, "verdict": verdicts[i]})
        sv = spec_view(impl[i])
        if sv != spec[i]:
            k, why = property_diff(l, sv, spec[i])
            if k is not None:
                a, b = sv.split("|"), spec[i].split("|")
                ctx.fail("spec:" + why, "the real table differs from the Lean slot specification at step %d (%s): impl %s spec %s on %s" % (
                    k, why, (a[k] if k < len(a) else "<missing>")[:300], (b[k] if k < len(b) else "<missing>")[:300], l[:400]),
                    {"line": l, "step": k, "impl_view": sv[:3000], "spec": spec[i][:3000]})
            # otherwise only capacity / compaction timing differs: that is a layout disagreement, already
            # recorded by ctx.correspond above, not a failure of the ordered-map property
    ctx.count("ordered-map oracle (Lean Slots spec + std::vector reference) on C++ results, steps", n_steps, len(set(lines)))

    # ---- big tables: collect the runs started at the beginning
    bres = [f.result() for f in bfut]
    bexp = [big_expected(*kn) for kn in sizes]
    bex.shutdown()
    for l, (o, fl), e in zip(blines, bres, bexp):
        for _, kind_, err in fl:
            ctx.fail("fault:big:" + kind_, "sanitizer fault in a big hash table: " + l, {"line": l, "stderr": err})
        if o and not o[0].startswith("FAULT") and o[0] != e:
            a, b = o[0].split("|"), e.split("|")
            k = next((j for j in range(min(len(a), len(b))) if a[j] != b[j]), min(len(a), len(b)))
            ctx.fail("big-table", "%s: phase %d (0 insert, 1 copy, 2 sort, 3 remove half, 4 compress, 5 resize) gives "
                     "'size cap actual found absent idx val ordhash' = %s, the insertion-ordered map %s" % (l, k, a[k] if k < len(a) else "-", b[k] if k < len(b) else "-"),
                     {"line": l, "impl": o[0], "expected": e})
    ctx.count("big tables (every inserted key looked up after every phase; plain Python reference)", len(blines), len(blines))

    # ---- public-API audit (by overload): anything the op language does not call is put into the evidence
    from checks import _c13_api
    rows, uncovered = _c13_api.audit()
    ctx.notes.append({"public_api_members": len(rows), "not_driven": uncovered})
    if uncovered:
        core.log("  C13 API audit: not driven: %s" % uncovered)

    # ---- nested tables: HArray whose values hold HArrays; related sources and destinations
    from checks import _hashtree
    _hashtree.run(ctx, drv)
    ctx.notes.append("corpus lines %d, exhaustive short sequences %d, random sequences %d" % (n_corpus, n_exh, len(lines) - n_corpus - n_exh))
    ctx.assumptions += [
        "hash function is a parameter H with H k != 0 in every table theorem; StringUtils::Hash is modelled separately (32-bit wrap, signed char conversion) and compared with the C++ on all keys of length <= 1, pairs/triples over boundary bytes and random keys",
        "capacity arithmetic in Nat: the 32-bit wrap of (sizeof(SizeT)+sizeof(HItem))*capacity (tables >= 2^27 slots) is outside the model; allocation failure is not modelled",
        "operands of += are distinct objects in the model; h += h is the separate model operation selfMerge (a no-op since the repair e7de6e5) and is part of every generated stream",
    ]


FINISH = dict(level="proof",
              rule="all operation sequences of length <= 3 (quick; <= 4 thorough) over an 18-20 operation alphabet on 3 keys for HArray and HList, plus random sequences (1-40 ops; insert-heavy ones up to 110 ops reaching capacities > 64) over three key alphabets x three instantiations; full layout compared after every step; non-trivial = at least two operations",
              checker_cmd="cd lean && lake build Qentem.Props.C13 && lake env lean <#print axioms of the listed theorems>")
