"""Mechanical audit of the C13 op language against the public API of HashTable / HArray / HList and the
item records HAItem_T / HLItem_T: every public member function of the three headers, BY OVERLOAD
(name + parameter list + const, as written), and the call shape in harness/hashtable_harness.cpp or
harness/hashtree_harness.cpp that drives it.  `python3 -m checks._c13_api` prints the table;
`audit()` returns (rows, uncovered); c13.py puts the uncovered list into the evidence notes on every run.

A signature found in the headers but missing from DRIVEN below is reported NOT DRIVEN (a new overload in
the library shows up here); so is a signature whose call shape no longer occurs in the harness sources."""
import os
import re
from vlib import core

HEADERS = ["HashTable.hpp", "HArray.hpp", "HList.hpp"]
HARNESSES = ["hashtable_harness.cpp", "hashtree_harness.cpp"]

SIG = re.compile(r"^    (?:template <[^>]*>\s*)?(?:(?:inline|static|explicit|friend|constexpr|QENTEM_CONST_EXPRESSION|QENTEM_NOINLINE)\s+)*"
                 r"(?:[\w:<>,\s\*&]+?\s+[\*&]*)?(~?\w+|operator\s*[^\s(]+)\s*\(([^)]*)\)\s*((?:const)?)[^;{]*\{", re.M)

# signature -> (regex that must occur in the harness sources, ops, how the model steps it)
DRIVEN = {
    "HashTable::HashTable(const SizeT size)": (r"Table t2\(2\)", "Y", "reserve"),
    "HashTable::HashTable(HashTable &&src)": (r"Table m\(Memory::Move\(h\)\)", "M", "move"),
    "HashTable::HashTable(const HashTable &src)": (r"Table t\(h\)", "Y; tree y Y", "copy"),
    "HashTable::~HashTable()": (r"Table\s+h;", "every line", "destroy (C16 ledger)"),
    "HashTable::operator=(HashTable &&src)": (r"h = Memory::Move\(t\)", "Y M; tree m Y", "move"),
    "HashTable::operator=(const HashTable &src)": (r"t = h;", "Y; tree c a y", "copy"),
    "HashTable::Has(const Char_T *key, const SizeT length) const": (r"h\.Has\(kp, ", "L PL + oracle", "lookup"),
    "HashTable::Has(const Key_T &key) const": (r"h\.Has\(Key\(kp", "L", "lookup (wrapper)"),
    "HashTable::GetKey(const SizeT index) const": (r"h\.GetKey\(i\)", "X + oracle", "lookupIdx"),
    "HashTable::GetItem(const Char_T *key, const SizeT length, const SizeT hash) const": (r"h\.GetItem\(kp, SizeT\(kb\.n\), StringUtils::Hash", "L PL", "lookup"),
    "HashTable::GetItem(const Key_T &key) const": (r"h\.GetItem\(Key\(kp", "L + oracle", "lookup (wrapper)"),
    "HashTable::GetItem(const SizeT index) const": (r"h\.GetItem\(i\)", "X + oracle", "lookupIdx"),
    "HashTable::GetKeyIndex(SizeT &index, const Char_T *str, const SizeT length) const": (r"h\.GetKeyIndex\(idx, kp, ", "L PL + oracle; tree dump", "lookup"),
    "HashTable::GetKeyIndex(SizeT &index, const Key_T &key) const": (r"h\.GetKeyIndex\(idx2, Key\(", "L", "lookup (wrapper)"),
    "HashTable::Remove(const Char_T *key) const": (r"h\.Remove\(kp\);", "RC PC", "remove (wrapper: Count + Remove(ptr,len))"),
    "HashTable::Remove(const Char_T *key, SizeT length) const": (r"h\.Remove\(kp, ", "R PR; tree r", "remove"),
    "HashTable::Remove(const Key_T &key) const": (r"h\.Remove\(Key\(kp|h\.Remove\(\*k\)", "R RK", "remove (wrapper)"),
    "HashTable::RemoveIndex(const SizeT index) const": (r"h\.RemoveIndex\(i\)", "D", "removeIdx"),
    "HashTable::Rename(const Key_T &from, Key_T &&to) const": (r"h\.Rename\(from, Key\(bp", "N NK", "rename"),
    "HashTable::Rename(const Key_T &from, const Key_T &to) const": (r"h\.Rename\(from, to\)", "N NK NT", "rename (wrapper)"),
    "HashTable::Reserve(SizeT size)": (r"h\.Reserve\(i\)", "V", "reserve"),
    "HashTable::Clear()": (r"h\.Clear\(\)", "K; tree k", "clear"),
    "HashTable::Reset()": (r"h\.Reset\(\)", "T; tree x", "reset"),
    "HashTable::Resize(const SizeT new_size)": (r"h\.Resize\(i\)", "Z", "resize"),
    "HashTable::Expect(const SizeT count)": (r"h\.Expect\(i\)", "E", "expect"),
    "HashTable::Sort(const bool ascend = true)": (r"h\.Sort\(asc\)", "S", "sort"),
    "HashTable::Compress()": (r"h\.Compress\(\)", "C; tree z", "compress"),
    "HashTable::ActualSize() const": (r"h\.ActualSize\(\)", "oracle; tree dump", "(abstraction)"),
    "HashTable::Size() const": (r"h\.Size\(\)", "dump", "(layout)"),
    "HashTable::Capacity() const": (r"h\.Capacity\(\)", "dump", "(layout)"),
    "HashTable::Storage() const": (r"h\.Storage\(\)", "dump", "(layout)"),
    "HashTable::First() const": (r"ch\.First\(\)", "oracle", "= Storage()"),
    "HashTable::Last() const": (r"ch\.Last\(\)", "oracle", "= Storage()+Size()-1 / nullptr"),
    "HashTable::End() const": (r"ch\.End\(\)", "oracle", "= First()+Size()"),
    "HashTable::IsEmpty() const": (r"ch\.IsEmpty\(\)", "oracle", "Size()==0"),
    "HashTable::IsNotEmpty() const": (r"ch\.IsNotEmpty\(\)", "oracle", "Size()!=0"),
    "HashTable::begin() const": (r"for \(const HItem &x : ch\)", "oracle", "= First()"),
    "HashTable::end() const": (r"for \(const HItem &x : ch\)", "oracle", "= End()"),
    "HashTable::begin()": (r"for \(HItem &x : h\)", "oracle", "= Storage()"),
    "HashTable::end()": (r"for \(HItem &x : h\)", "oracle", "= Storage()+Size()"),
    "HAItem_T::operator<(const HAItem_T &item) const": (r"\(a < b\) != lt", "S + oracle", "Hash.isLess on the keys"),
    "HAItem_T::operator>(const HAItem_T &item) const": (r"\(a > b\) != gt", "S + oracle", "Hash.isGreater"),
    "HAItem_T::operator<=(const HAItem_T &item) const": (r"\(a <= b\) != ", "oracle", "isLess orEqual"),
    "HAItem_T::operator>=(const HAItem_T &item) const": (r"\(a >= b\) != ", "oracle", "isGreater orEqual"),
    "HAItem_T::operator==(const HAItem_T &item) const": (r"\(a == b\) != eq", "oracle", "key equality"),
    "HAItem_T::Clear()": (r"tmp\.Clear\(\)", "R D RK PR PC (inside remove) + oracle", "removeH"),
    "HArray::operator+=(HArray &&src)": (r"h \+= Memory::Move\(src\)", "Q W; tree q", "merge"),
    "HArray::operator+=(const HArray &src)": (r"h \+= src;", "P W; tree p", "merge"),
    "HArray::Get(const Char_T *key, const SizeT length)": (r"h\.Get\(kp, ", "G A PG GC; tree g", "get"),
    "HArray::operator[](const Char_T *key)": (r"cstr \? h\[kp\]", "GC PB", "get (wrapper: Count + Get)"),
    "HArray::operator[](const Key_T &key)": (r"return &h\[k\];|auto &v = h\[k\]", "G GK", "get (wrapper)"),
    "HArray::operator[](Key_T &&key)": (r"return &h\[Key\(kp", "G A", "get"),
    "HArray::Insert(Key_T &&key, Value_T &&value)": (r"h\.Insert\(Key\(kp, SizeT\(kb\.n\)\), VT::make\(id\)\)", "I", "insert"),
    "HArray::Insert(const Key_T &key, Value_T &&value)": (r"h\.Insert\(k, VT::make\(id\)\)|h\.Insert\(\*k, VT::make\(m\)\)", "I IK", "insert (wrapper)"),
    "HArray::Insert(Key_T &&key, const Value_T &value)": (r"h\.Insert\(Key\(ks\.data\(\), SizeT\(ks\.size\(\)\)\), \*pv\)", "IV; tree i", "insert (wrapper: copies the value first)"),
    "HArray::Insert(const Key_T &key, const Value_T &value)": (r"h\.Insert\(k, v\)|h\.Insert\(k, \*pv\)|h\.Insert\(\*k, \*pv\)", "I IV IKV; tree i", "insert (wrapper)"),
    "HArray::Insert(const Char_T *key, const SizeT length, Value_T &&value)": (r"h\.Insert\(kp, SizeT\(kb\.n\), VT::make\(id\)\)|h\.Insert\(kp, len, VT::make\(id\)\)", "I PI", "insert (wrapper)"),
    "HArray::GetValue(const Char_T *key, const SizeT length) const": (r"h\.GetValue\(kp, SizeT\(kb\.n\)\)", "L PL IV + oracle; tree paths", "lookup"),
    "HArray::GetValue(const Key_T &key) const": (r"h\.GetValue\(Key\(kp", "L", "lookup (wrapper)"),
    "HArray::GetValue(const SizeT index) const": (r"h\.GetValue\(i\)", "X IKV; tree dump", "lookupIdx"),
    "HArray::GetValue(const Char_T *key, const SizeT length, const SizeT hash) const": (r"h\.GetValue\(kp, SizeT\(kb\.n\), StringUtils::Hash", "L PL", "lookup"),
    "HLItem_T::operator<(const HLItem_T &item) const": (r"\(a < b\) != lt", "S + oracle", "as HAItem_T"),
    "HLItem_T::operator>(const HLItem_T &item) const": (r"\(a > b\) != gt", "S + oracle", "as HAItem_T"),
    "HLItem_T::operator<=(const HLItem_T &item) const": (r"\(a <= b\) != ", "oracle", "as HAItem_T"),
    "HLItem_T::operator>=(const HLItem_T &item) const": (r"\(a >= b\) != ", "oracle", "as HAItem_T"),
    "HLItem_T::operator==(const HLItem_T &item) const": (r"\(a == b\) != eq", "oracle", "as HAItem_T"),
    "HLItem_T::Clear()": (r"tmp\.Clear\(\)", "R D (inside remove) + oracle", "removeH"),
    "HList::operator+=(HList &&src)": (r"h \+= Memory::Move\(src\)", "Q W", "merge (V = Unit)"),
    "HList::operator+=(const HList &src)": (r"h \+= src;", "P W", "merge (V = Unit)"),
    "HList::Insert(const Char_T *key, const SizeT length)": (r"h\.Insert\(kp, SizeT\(kb\.n\)\);|h\.Insert\(kp, len\);", "I PI", "insert (wrapper)"),
    "HList::Insert(const Key_T &key)": (r"h\.Insert\(k\);|h\.Insert\(\*k\);", "I IK", "insert (wrapper)"),
    "HList::Insert(Key_T &&key)": (r"h\.Insert\(Key\(kp, SizeT\(kb\.n\)\)\);", "I", "insert"),
}


def public_api():
    out = []
    for header in HEADERS:
        src = open(os.path.join(core.INCLUDE, header)).read()
        for m in re.finditer(r"^struct (\w+)[^{;]*\{", src, re.M):
            cls, start = m.group(1), m.end()
            end = src.find("\n};", start)
            body = src[start:end]
            cut = body.find("  private:")
            if cut >= 0:
                body = body[:cut]
            for s in SIG.finditer(body):
                name, args = re.sub(r"\s+", "", s.group(1)), re.sub(r"\s+", " ", s.group(2).strip())
                if name in ("if", "while", "for", "switch", "return") or "(" in args:
                    continue
                if name[0].islower() and not name.startswith("operator") and name not in ("begin", "end"):
                    continue                       # calls of private helpers inside inline bodies
                out.append("%s::%s(%s)%s" % (cls, name, args, " const" if s.group(3) else ""))
    return out


def audit():
    text = "\n".join(open(os.path.join(core.HARNESS, h)).read() for h in HARNESSES)
    rows, uncovered = [], []
    for sig in public_api():
        d = DRIVEN.get(sig)
        if d is None:
            rows.append((sig, "-", "NOT DRIVEN (not in the audit table)")); uncovered.append(sig)
        elif re.search(d[0], text) is None:
            rows.append((sig, d[1], "NOT DRIVEN (call shape not found in the harness sources)")); uncovered.append(sig)
        else:
            rows.append((sig, d[1], d[2]))
    return rows, uncovered


def markdown():
    rows, unc = audit()
    out = ["| public member (by overload) | ops that call it | model step |", "|---|---|---|"]
    for sig, ops, how in rows:
        out.append("| `%s` | %s | %s |" % (sig, ops, how))
    out.append("")
    out.append("uncovered: %s" % (", ".join(unc) if unc else "none"))
    return "\n".join(out)


if __name__ == "__main__":
    print(markdown())
