"""Mechanical audit of the C14 op language against the public API of Array / String / StringStream /
StringView: every public member function of the four headers (name + parameter list, as written) and
whether harness/seq_harness.cpp or harness/arraytree_harness.cpp calls it.  `audit()` returns
(rows, uncovered); c14.py puts the uncovered list into the evidence notes on every run."""
import os
import re
from vlib import core

HEADERS = ["Array.hpp", "String.hpp", "StringStream.hpp", "StringView.hpp"]
HARNESSES = ["seq_harness.cpp", "arraytree_harness.cpp"]

# public members that are deliberately not driven (with the reason)
EXCLUDED = {
    "Array::Swap": "C15 (Sort/Swap)", "Array::Sort": "C15",
    "begin": "iterator sugar = First()/Storage()", "end": "iterator sugar = End()",
    "operator<<(Stream_T": "printing into a foreign stream type (template operator<<(Stream_T&, …))",
}

SIG = re.compile(r"^    (?:template <[^>]*>\s*)?(?:(?:inline|static|explicit|friend|constexpr|QENTEM_CONST_EXPRESSION|QENTEM_NOINLINE)\s+)*"
                 r"(?:[\w:<>,\s\*&]+?\s+[\*&]*)?(~?\w+|operator\s*[^\s(]+)\s*\(([^)]*)\)[^;{]*\{", re.M)


def public_api(header):
    src = open(os.path.join(core.INCLUDE, header)).read()
    cut = src.find("  private:")
    body = src if cut < 0 else src[:cut]
    cls = header[:-4]
    out = []
    for m in SIG.finditer(body):
        name, args = re.sub(r"\s+", "", m.group(1)), re.sub(r"\s+", " ", m.group(2).strip())
        if name in ("if", "while", "for", "switch", "return") or (name[0].islower() and not name.startswith("operator") and name not in ("begin", "end")):
            continue                                   # statements / calls of private helpers inside bodies
        out.append((cls, name, args))
    return out


def harness_text():
    return "\n".join(open(os.path.join(core.HARNESS, h)).read() for h in HARNESSES)


def called(cls, name, args, text):
    if name == cls or name == "~" + cls:
        return True                                    # constructors / destructor: every object of the harness
    if name.startswith("operator"):
        op = name[len("operator"):]
        pats = {"=": r"[\]\)\w] = ", "+=": r"\+= ", "+": r" \+ ", "<<": r" << ", "==": r" == |l == r", "!=": r" != |l != r",
                "<": r"l < r", "<=": r"l <= r", ">": r"l > r", ">=": r"l >= r"}
        return re.search(pats.get(op, re.escape(op)), text) is not None
    return re.search(r"(->|\.|::)" + re.escape(name) + r"\(", text) is not None


def audit():
    text = harness_text()
    rows, uncovered = [], []
    for h in HEADERS:
        for cls, name, args in public_api(h):
            key = "%s::%s" % (cls, name)
            reason = EXCLUDED.get(key) or EXCLUDED.get(name) or next((v for k, v in EXCLUDED.items() if (name + "(" + args).startswith(k)), None)
            ok = (not reason) and called(cls, name, args, text)
            rows.append((key, args, "driven" if ok else ("excluded: " + reason if reason else "NOT DRIVEN")))
            if not ok and not reason:
                uncovered.append("%s(%s)" % (key, args))
    return rows, uncovered


if __name__ == "__main__":
    rows, unc = audit()
    for r in rows:
        print("%-34s %-52s %s" % r)
    print("uncovered:", unc)
