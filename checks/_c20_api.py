"""Mechanical audit of the C20 op language against the public entry points it is about:
every function (name + parameter list, as written in the header) of Include/Unicode.hpp, every static
member of struct JSONUtils / JSONotation_T in Include/JSONUtils.hpp, every `*Hex*` function of
Include/Digit.hpp; for each one whether harness/unicode_harness.cpp calls that overload, with which
character types, stream types and number types, and where the library itself instantiates it.
`audit()` returns (rows, uncovered); c20.py puts the uncovered list into the evidence notes on every
run, so a new overload / entry point shows up as NOT DRIVEN without anybody editing this file."""
import os
import re
from vlib import core

HARNESS = "unicode_harness.cpp"

# entry points that belong to another property (reason given); everything else must be driven
EXCLUDED = {
    "JSONUtils::Escape/3": "C08 (escaping never emits \\u; driven by harness/json_harness.cpp)",
    "JSONUtils::JSONotation_T::GetReplacementChar/1": "C08 (replacement table used by Escape only)",
}

# (qualified name / number of parameters) -> regex that the harness must contain to count as a call of that overload
CALLS = {
    "Unicode::ToUTF/2": r"Unicode::ToUTF<Char_T>\(SizeT32\(u\), ss\)",
    "Unicode::UnicodeToUTF<1U>::ToUTF/2": r"Unicode::UnicodeToUTF<Char_T, Stream_T, sizeof\(Char_T\)>::ToUTF\(",
    "Unicode::UnicodeToUTF<2U>::ToUTF/2": r"Unicode::UnicodeToUTF<Char_T, Stream_T, sizeof\(Char_T\)>::ToUTF\(",
    "Unicode::UnicodeToUTF<4U>::ToUTF/2": r"Unicode::UnicodeToUTF<Char_T, Stream_T, sizeof\(Char_T\)>::ToUTF\(",
    "JSONUtils::UnEscape/3": r"JSONUtils::UnEscape\(buf\.p, SizeT\(buf\.n\), ss\)",
    "Digit::HexStringToNumber/3": r"Digit::HexStringToNumber<Number_T>\(buf\.p, offset, Size_T\(end\)\)",
    "Digit::HexStringToNumber/2": r"Digit::HexStringToNumber<Number_T>\(buf\.p, SizeT\(buf\.n\)\)",
}

FUNC = re.compile(r"^\s*(?:template <[^>]*>\s*)?(?:(?:inline|static|constexpr|QENTEM_NOINLINE)\s+)+"
                  r"[\w:<>\s\*&]+?[\s\*&](\w+)\s*\(([^)]*)\)\s*(?:const\s*)?(?:noexcept\s*)?\{", re.M)


def nargs(args):
    args = args.strip()
    return 0 if not args else args.count(",") + 1


def entry_points():
    """[(qualified name, parameter list, header:line)] extracted from the current headers."""
    out = []
    # Unicode.hpp: free function + the three specialisations
    src = open(os.path.join(core.INCLUDE, "Unicode.hpp")).read()
    for m in FUNC.finditer(src):
        line = src.count("\n", 0, m.start(1)) + 1
        before = src[:m.start()]
        spec = re.findall(r"struct UnicodeToUTF<Char_T, Stream_T, (\w+)>\s*\{", before)
        # inside a specialisation when the last '{' opened by it is not closed yet
        inside = False
        if spec:
            k = before.rfind("struct UnicodeToUTF<Char_T, Stream_T, " + spec[-1] + ">")
            inside = before[k:].count("{") > before[k:].count("}")
        q = ("Unicode::UnicodeToUTF<%s>::%s" % (spec[-1], m.group(1))) if inside else ("Unicode::" + m.group(1))
        out.append((q, re.sub(r"\s+", " ", m.group(2).strip()), "Unicode.hpp:%d" % line))
    # JSONUtils.hpp: static members of JSONUtils and of JSONotation_T
    src = open(os.path.join(core.INCLUDE, "JSONUtils.hpp")).read()
    k = src.find("struct JSONUtils {")
    jn = src.find("struct JSONotation_T {", k)
    for m in FUNC.finditer(src, k):
        line = src.count("\n", 0, m.start(1)) + 1
        q = ("JSONUtils::JSONotation_T::" if (jn >= 0 and m.start() > jn) else "JSONUtils::") + m.group(1)
        out.append((q, re.sub(r"\s+", " ", m.group(2).strip()), "JSONUtils.hpp:%d" % line))
    # Digit.hpp: everything with Hex in its name
    src = open(os.path.join(core.INCLUDE, "Digit.hpp")).read()
    for m in FUNC.finditer(src):
        if "hex" in m.group(1).lower():
            line = src.count("\n", 0, m.start(1)) + 1
            out.append(("Digit::" + m.group(1), re.sub(r"\s+", " ", m.group(2).strip()), "Digit.hpp:%d" % line))
    return out


def library_sites(name):
    """Where the library itself (Include/) calls the function, outside its own definition."""
    short = name.split("::")[-1]
    sites = []
    for fn in sorted(os.listdir(core.INCLUDE)):
        if not fn.endswith(".hpp"):
            continue
        for i, ln in enumerate(open(os.path.join(core.INCLUDE, fn)), 1):
            if re.search(r"\b" + short + r"\s*(<[^;]*?>)?\(", ln) and "static" not in ln and not ln.lstrip().startswith(("*", "//")):
                sites.append("%s:%d" % (fn, i))
    return sites


def harness_axes(text):
    """What the harness instantiates: character types, stream types, number types, offset types."""
    chars = sorted(set(re.findall(r"vh::emit\(run<(\w+)>\(t\)\)", text)))
    streams = sorted(set(re.findall(r"runF<Char_T, (\w+)<Char_T>>", text)))
    numbers = sorted(set(re.findall(r"doHexW[23]<(\w+),", text)))
    sizes = sorted(set(re.findall(r"doHexW3<\w+, (\w+), Char_T>", text)))
    return {"Char_T": chars, "Stream_T": streams, "Number_T": numbers, "SizeT_Type": sizes}


REQUIRED_AXES = {"Char_T": ["char", "char16_t", "char32_t", "wchar_t"], "Stream_T": ["String", "StringStream"],
                 "Number_T": ["uint32_t", "uint64_t"], "SizeT_Type": ["SizeT"]}


def audit():
    text = open(os.path.join(core.HARNESS, HARNESS)).read()
    axes = harness_axes(text)
    rows, uncovered = [], []
    for q, args, where in entry_points():
        key = "%s/%d" % (q, nargs(args))
        if key in EXCLUDED:
            status = "excluded: " + EXCLUDED[key]
        elif key in CALLS and re.search(CALLS[key], text):
            status = "driven"
        else:
            status = "NOT DRIVEN"
            uncovered.append("%s(%s)" % (q, args))
        rows.append((q, args, where, ", ".join(library_sites(q)) or "-", status))
    for ax, need in REQUIRED_AXES.items():
        missing = [x for x in need if x not in axes[ax]]
        if missing:
            uncovered.append("instantiation axis %s lacks %s" % (ax, missing))
    return rows, uncovered, axes


if __name__ == "__main__":
    rows, unc, axes = audit()
    print("| entry point | parameters | defined | library call sites | harness |\n|---|---|---|---|---|")
    for r in rows:
        print("| `%s` | `%s` | %s | %s | %s |" % r)
    print("\naxes instantiated by the harness:", axes)
    print("uncovered:", unc)
