"""C09 — text to number: integers exact, reals within one ulp, out-of-range rejected."""
import itertools
import os
from vlib import core

META = {
    "property_id": "C09",
    "technique": "Lean 4 model of Digit::StringToNumber with kernel-checked theorems (integer path exact, malformed rejected, consumed length, sign, table facts, closed form of the scaling pipeline) + model/implementation correspondence on (kind, bits, offset) in four character widths + exact-rational rounding oracle (Lean) evaluated on what the C++ returned",
    "level": "proof",
    "design_ref": "DESIGN.md §6 C09; notes/design-strtonum.md",
    "text": "The converter is transcribed as a total Lean function over lists of code units with checked reads. Theorems (all inputs, any width): decimal integers below 2^64 / down to -2^63 come back exact with the whole numeral consumed, -0 is the real -0, the listed malformed shapes are NotANumber, the sign bit of every Real equals the sign of the text, the power tables equal 5^i and every reciprocal is within 5^i/2 of 2^(64+s)/5^i. The one-ulp bound and the overflow clause are CLOSED theorems for every well-formed numeral without a leading zero of at most 99 999 000 units (real_within_one_ulp_closed, overflow_reported_closed, via numeral_good: five regime theorems over every way the 19-unit scan window can cut the mantissa, truncation slack 10^-17 carried through both rounding analyses, rational exact values on both paths, exponents of any length; two kernel-evaluated tables of 16 996 and 776 cases for short mantissas on the negative path). The bound is documented: for texts of 10^8 units or more the 32-bit exponent arithmetic of the real tail is not sound. The exact-Rat oracle written in Lean still runs on the C++ results as the correspondence test of the model.",
    "note": "Trusted: Lean kernel; axioms ⊆ {propext, Quot.sound, Classical.choice}; g++ as table translator; the correspondence harness (ASan/UBSan, exact-size buffers) and its generators; BigInt<uint64,256> word-level code is abstracted as 256-bit-truncated naturals here (C19 proves it exact). strtod is consulted only as a second opinion and never decides a verdict.",
}

THEOREMS = [
    "Qentem.Props.C09.tables_ok",
    "Qentem.Props.C09.int_exact_natural",
    "Qentem.Props.C09.int_exact_negative",
    "Qentem.Props.C09.int_exact_zero",
    "Qentem.Props.C09.sign_preserved",
    "Qentem.Props.C09.malformed_leading_zero",
    "Qentem.Props.C09.malformed_lone_dot",
    "Qentem.Props.C09.digits_dot_digits",
    "Qentem.Props.C09.zero_dot_digits",
    "Qentem.Props.C09.consumed_exact_real",
    "Qentem.Props.C09.consumed_exact_zero_dot",
    "Qentem.Props.C09.malformed_repeated_dot",
    "Qentem.Props.C09.malformed_empty_exponent_int",
    "Qentem.Props.C09.malformed_empty_exponent_real",
    "Qentem.Props.C09.strToNum_no_fault",
    "Qentem.Props.C09.strToNum_offset_bounds",
    "Qentem.Props.C09.bigint_steps_exact",
    "Qentem.Props.C09.overflow_reported_partial",
    "Qentem.Props.C09.real_within_one_ulp_pos",
    "Qentem.Props.C09.negScale_error_bound",
    "Qentem.Props.C09.strToNum_digits_to_end",
    "Qentem.Props.C09.real_within_one_ulp_negexp",
    "Qentem.Props.C09.real_within_one_ulp_frac_end",
    "Qentem.Props.C09.real_within_one_ulp_frac_exp",
    "Qentem.Round.nearestBits_eq",
    "Qentem.Props.C11P.parse_exact_fixed",
    "Qentem.Props.C11P.parse_exact_int",
    "Qentem.Props.C09.negexp_one_ulp_every_mantissa",
    "Qentem.Props.C09.negexp_exact_every_mantissa",
    "Qentem.Props.C09.negexp_exceptions_one_ulp_low",
    "Qentem.Props.C11P.parse_exact_small",
    "Qentem.Props.C11P.parse_exact_sci",
    "Qentem.Props.C11P.parse_exact17",
    "Qentem.Props.C11P.parsesExactly17_partial",
    "Qentem.Props.C11P.roundtrip17_of_formatter",
    "Qentem.Props.C11P.parse_close17",
    "Qentem.Props.C09.real_within_one_ulp_dotzero_end",
    "Qentem.Props.C09.real_within_one_ulp_dotzero_exp",
    "Qentem.Props.C09.zero_dot_zeros_end",
    "Qentem.Props.C09.zero_dot_zeros_exp",
    "Qentem.Props.C09.zero_exp",
    "Qentem.Props.C09.real_within_one_ulp_small_end",
    "Qentem.Props.C09.real_within_one_ulp_small_exp",
    "Qentem.Props.C09.real_within_one_ulp_int_exp",
    "Qentem.Props.C09.real_within_one_ulp_small_long_end",
    "Qentem.Props.C09.real_within_one_ulp_frac_long_end",
    "Qentem.Props.C09.real_within_one_ulp_small_long_exp",
    "Qentem.Props.C09.real_within_one_ulp_frac_long_exp",
    "Qentem.Props.C09.real_within_one_ulp_long_int",
    "Qentem.Props.C09.good_dot_short",
    "Qentem.Props.C09.good_int_long",
    "Qentem.Props.C09.good_int_short_exp",
    "Qentem.Props.C09.good_int_only",
    "Qentem.Props.C09.good_zero_lead",
    "Qentem.Props.C09.numeral_good",
    "Qentem.Props.C09.real_within_one_ulp_closed",
    "Qentem.Props.C09.overflow_reported_closed",
    # non-vacuity: every hypothesis of the two closed theorems discharged on concrete numerals (Props/C09Instances.lean)
    "Qentem.Props.C09.closed_applies",
    "Qentem.Props.C09.meets_0_1",
    "Qentem.Props.C09.meets_1em273",
    "Qentem.Props.C09.meets_min_sub",
    "Qentem.Props.C09.meets_long",
    "Qentem.Props.C09.within_0_1",
    "Qentem.Props.C09.one_ulp_attained",
    "Qentem.Props.C09.overflow_instance",
]
# Nothing is open: real_within_one_ulp_closed and overflow_reported_closed are the two general statements for EVERY
# well-formed numeral without a leading zero of at most 99 999 000 units (the documented length bound: the 32-bit
# exponent arithmetic of the real tail is not sound for texts of 10^8 units or more; the `def`s real_within_one_ulp /
# overflow_reported in Props/C09.lean keep the bound `< 2^32` of SizeT and are false beyond it).
OPEN = []

D0, D9, DOT, LE, UE, PLUS, MINUS = 48, 57, 46, 101, 69, 43, 45


def U(s):
    return [ord(c) for c in s]


def dbl_frac(bits):
    """exact value of a finite non-negative binary64 pattern as (numerator, denominator = 2^k)."""
    ex = (bits >> 52) & 0x7FF
    m = bits & ((1 << 52) - 1)
    if ex == 0:
        return m, 1074
    return m + (1 << 52), 1075 - ex     # value = n / 2^k, k may be negative


def dec_of_dyadic(n, k):
    """n / 2^k  ->  (digit string D, decimals kd) with value = int(D) / 10^kd, D without trailing zeros beyond need."""
    if k <= 0:
        return str(n << (-k)), 0
    return str(n * 5 ** k), k


def render(D, kd, rng, style=None):
    """Text of the value int(D) * 10^-kd in a random layout of the grammar (no leading zeros)."""
    D = D.lstrip("0") or "0"
    if D == "0":
        return rng.choice(["0", "0.0", "0e0", "0.000e5", "0E-3"])
    style = style or rng.choice(["fixed", "sci", "sci", "any", "zeros"])
    n = len(D)
    if style == "fixed" and -40 <= kd <= 40 + n:
        if kd <= 0:
            return D + "0" * (-kd)
        if kd < n:
            return D[:n - kd] + "." + D[n - kd:]
        return "0." + "0" * (kd - n) + D
    if style == "zeros":
        z = rng.randrange(0, 25)
        e = z + n - kd
        return "0." + "0" * z + D + exp_text(e, rng)
    p = 1 if style == "sci" else rng.randrange(1, n + 1)
    e = n - p - kd
    return D[:p] + ("." + D[p:] if p < n else "") + exp_text(e, rng)


def exp_text(e, rng):
    if e == 0 and rng.random() < 0.5:
        return ""
    c = rng.choice("eE")
    if e < 0:
        return c + "-" + str(-e)
    return c + rng.choice(["", "+", ""]) + ("0" * rng.randrange(0, 3) if rng.random() < 0.05 else "") + str(e)


def rand_digits(rng, n, first_nonzero=True):
    s = "".join(rng.choice("0123456789") for _ in range(n))
    if first_nonzero and s and s[0] == "0":
        s = rng.choice("123456789") + s[1:]
    return s


def gen_texts(ctx):
    """-> list of (text, stream-tag)."""
    rng = ctx.rng
    T = ctx.thorough
    out = []
    seen = set()

    def add(t, tag):
        if (t, tag) not in seen:
            seen.add((t, tag))
            out.append((t, tag))
    # G1 exhaustive short strings over two alphabets (index arithmetic, every branch of the scanner)
    L1 = 6 if T else 5
    for n in range(0, L1 + 1):
        for t in itertools.product("015.e-+9", repeat=n):
            add("".join(t), "exhaustive")
    for n in range(0, (5 if T else 4) + 1):
        for t in itertools.product("01xAf.E,", repeat=n):
            add("".join(t), "exhaustive")
    # G2 integers: every length 1..23, the 2^63 / 2^64 / 10^19 boundaries ± 2, signs
    for v in [0, 1, 9, 10, 99, 2 ** 53, 2 ** 53 + 1]:
        for s in ("", "-", "+"):
            add(s + str(v), "integers")
    for base in (2 ** 63, 2 ** 64, 10 ** 19, 10 ** 18, 2 ** 63 * 10, 1844674407370955161, 18446744073709551610, 10 ** 20, 2 ** 32):
        for dlt in range(-3, 4):
            for s in ("", "-", "+"):
                add(s + str(base + dlt), "integers")
                add(s + str(base + dlt) + "0", "integers")
    for n in range(1, 24):
        for _ in range(60 if T else 12):
            for s in ("", "-", "+"):
                add(s + rand_digits(rng, n), "integers")
    for _ in range(4000 if T else 500):
        v = rng.choice([2 ** 64, 2 ** 63]) + rng.randrange(-1000, 1000)
        add(rng.choice(["", "-"]) + str(v), "integers")
        v = rng.randrange(10 ** 18, 3 * 10 ** 19)
        add(rng.choice(["", "-"]) + str(v), "integers")
    # G3 grammar numerals: 1..400 digits, dot at every position, exponents -400..400
    for n in list(range(1, 45)) + [60, 100, 200, 399, 400]:
        for p in (range(0, n + 1) if n <= 44 else [0, 1, 19, 20, n // 2, n - 1, n]):
            for _ in range(3 if T else 1):
                D = rand_digits(rng, n, first_nonzero=(p != 1) or True)
                if p == 0:
                    t = "0." + D
                elif p == n:
                    t = D
                else:
                    t = D[:p] + "." + D[p:]
                add(t, "grammar")
                e = rng.choice([rng.randrange(-400, 401), rng.randrange(-30, 31), rng.choice([-324, -323, -308, -307, 307, 308, 309]) - rng.randrange(0, n + 1) + rng.randrange(0, 3)])
                add(rng.choice(["", "-", "+"]) + t + exp_text(e, rng), "grammar")
    for _ in range(120000 if T else 14000):
        r = rng.random()
        n = rng.randrange(1, 8) if r < 0.3 else rng.randrange(8, 24) if r < 0.8 else rng.randrange(24, 60) if r < 0.97 else rng.randrange(60, 401)
        D = rand_digits(rng, n, first_nonzero=False)
        r = rng.random()
        kd = rng.randrange(0, n + 1) if r < 0.5 else rng.randrange(-400, 401) if r < 0.8 else rng.choice([-308, 308, 323, 324, -309, 0, 18, 19, 20, 21, 22]) + rng.randrange(-25, 26)
        add(rng.choice(["", "", "-", "+"]) + render(D, kd, rng), "grammar")
    # G4 exact halfway points between adjacent doubles, and one digit either side
    for i in range(6000 if T else 700):
        r = rng.random()
        if r < 0.25:
            bits = rng.randrange(0, 0x7FF0000000000000 - 1)
        elif r < 0.7:
            bits = (rng.randrange(1023 - 70, 1023 + 80) << 52) | rng.randrange(0, 1 << 52)
        elif r < 0.8:
            bits = rng.randrange(0, 1 << 53)                       # subnormals and the first normals
        elif r < 0.9:
            bits = (rng.randrange(1, 2046) << 52) | rng.choice([0, 1, (1 << 52) - 1, (1 << 52) - 2])
        else:
            bits = 0x7FEFFFFFFFFFFFFF - rng.randrange(0, 3)
        n0, k0 = dbl_frac(bits)
        n1, k1 = dbl_frac(bits + 1) if bits + 1 < 0x7FF0000000000000 else (1 << 52, 1075 - 2047)
        K = max(k0, k1)
        mid = (n0 << (K - k0)) + (n1 << (K - k1))                   # (a + b) * 2^K ; the midpoint is mid / 2^(K+1)
        D, kd = dec_of_dyadic(mid, K + 1)
        if len(D) > (1100 if T else 800):
            continue
        base = render(D, kd, rng, style=rng.choice(["sci", "any", "fixed"]))
        add(base, "halfway")
        add("-" + base, "halfway")
        Dp = str(int(D) * 10 + 1)
        Dm = str(int(D) * 10 - 1)
        add(render(Dp, kd + 1, rng, style="sci"), "halfway")
        add(render(Dm, kd + 1, rng, style="sci"), "halfway")
        # the doubles themselves, 17 significant digits
        Dd, kdd = dec_of_dyadic(n0, k0)
        if len(Dd) > 17:
            cut = len(Dd) - 17
            Dd, kdd = str((int(Dd) + 5 * 10 ** (cut - 1)) // 10 ** cut), kdd - cut
        add(render(Dd, kdd, rng, style="sci"), "halfway")
    # G5 19/20/21-digit mantissas with the dot at every position, with/without exponent
    for n in (17, 18, 19, 20, 21, 22, 38, 39, 40):
        for p in range(0, n + 1):
            for _ in range(6 if T else 2):
                D = rand_digits(rng, n) if rng.random() < 0.7 else rng.choice(["1844674407370955161", "9999999999999999999", "1000000000000000000"])[:n].ljust(n, rng.choice("0569"))
                t = ("0." + D) if p == 0 else (D if p == n else D[:p] + "." + D[p:])
                add(t, "window")
                add("-" + t + rng.choice(["e5", "E-7", "e+300", "e-310", "e0"]), "window")
    # G6 overflow / underflow edges
    for m in ["1.7976931348623157", "1.7976931348623158", "1.79769313486231570814", "1.79769313486231580793", "1.797693134862315807937", "1.8", "2", "3.5", "3.6", "9.9", "17976931348623157", "1", "4.9406564584124654", "2.4703282292062327", "2.4703282292062328", "2.2250738585072014", "2.2250738585072011", "0.00001", "123456789012345678901234567890"]:
        for e in list(range(300, 312)) + list(range(-330, -300)) + [400, -400, 1000, -1000, 99999999, 100000000, 4294967296, 4294967297, -4294967296]:
            add(m + "e" + str(e), "range")
            add("-" + m + "E" + str(e), "range")
    for _ in range(6000 if T else 800):
        D = rand_digits(rng, rng.randrange(1, 25))
        add(render(D, rng.choice([-308, -307, -309, 323, 324, 325, 340]) + rng.randrange(-len(D) - 1, 3), rng, style=rng.choice(["sci", "any"])), "range")
    # G8 just below / at / just above a power of two: the rounding carry out of the 53-bit significand
    for k in list(range(-80, 90)) + ([-1074, -1073, -1022, -1021, -500, -200, 200, 500, 1000, 1023] if T else [-1022, -300, 300, 1023]):
        for extra in ((18, 20, 24, 30) if T else (20, 26)):
            if k >= 0:
                base, scale = 2 ** k * 10 ** extra, extra
            else:
                base, scale = 5 ** (-k) * 10 ** extra, extra - k
            for dlt in (-1, 0, 1, -5, 5):
                digs = str(base + dlt)
                if len(digs) <= scale:
                    digs = "0" * (scale - len(digs) + 1) + digs
                t = digs[:-scale] + "." + digs[-scale:] if scale else digs
                add(t, "pow2edge")
                if len(digs) < 60:
                    add("-" + digs + "e-" + str(scale), "pow2edge")
    # G8b the doubles adjacent to a power of two, printed with 17 significant digits (%.17g and plain
    # fixed notation): all-ones / all-zeros significands that are exactly representable, so the carry
    # test must NOT fire (seeded C11-d1: `>` became `>=` in the carry test; 1.9999999999999998 -> 3.99…)
    import struct as _st
    for k in (range(-1070, 1024, 1) if T else list(range(-64, 72)) + [-1022, -1021, -300, 300, 1023]):
        b = (k + 1023) << 52
        for bits in (b - 1, b, b + 1):
            if bits <= 0:
                continue
            x = _st.unpack("<d", _st.pack("<Q", bits))[0]
            add("%.17g" % x, "pow2adjacent")
            add("-%.17g" % x, "pow2adjacent")
            if -20 <= k <= 60:
                add(("%.25f" % x).rstrip("0").rstrip(".") if k < 53 else "%d" % int(x), "pow2adjacent")
    # G8c exponents written with leading zeros (9..14 exponent digits whose VALUE is small): the digit loop must
    # stop on the value, not on the number of digits (seeded C09-h1 / C06-h1)
    for m in ["1", "2", "5", "1.5", "0.25", "12345678901234567890", "9007199254740993"]:
        for zeros in (1, 7, 8, 9, 10, 11, 13, 20):
            for ev in ("0", "1", "2", "05", "40", "308", "400"):
                for sg in ("", "+", "-"):
                    for E in ("e", "E"):
                        add(m + E + sg + "0" * zeros + ev, "padded-exponent")
                        add("-" + m + E + sg + "0" * zeros + ev, "padded-exponent")
    # G10 integer mantissas of 18..21 digits (around the 19-digit window and the 2^64 boundary) followed by
    # every exponent spelling: e E e+ E+ e- E- with small exponents
    for D in ["999999999999999999", "1000000000000000000", "9999999999999999999", "10000000000000000000", "18446744073709551615",
              "18446744073709551616", "12345678901234567890", "99999999999999999999", "100000000000000000000", "184467440737095516150"]:
        for E in ("e", "E"):
            for sg in ("", "+", "-"):
                for x in ("0", "1", "2", "05", "19"):
                    add(D + E + sg + x, "window")
                    add("-" + D + E + sg + x, "window")
                    add(D[:-1] + "." + D[-1] + E + sg + x, "window")
    # G9 exponents at the 32-bit wrap with short and long mantissas
    for m in ["1", "9", "1.5", "12345678901234567890", "123456789012345678901234567", "0.000000000000000000000000001", "1" * 40]:
        for e in [4294967280 + i for i in range(0, 40, 3 if not T else 1)] + [2147483647, 2147483648, 429496729, 429496730, 4294967296 * 2 + 5, 99999999, 100000000, 100000001, 999999999, 1000000000]:
            add(m + "e" + str(e), "range")
            add(m + "e-" + str(e), "range")
    # G7 malformed and lenient shapes
    good = ["1", "12", "0", "1.5", "0.5", "120", "9999999999999999999999", "1e5", "1.25E-3"]
    for g in good:
        for z in ("0", "00", "000"):
            add(z + g, "malformed"); add("-" + z + g, "malformed"); add("+" + z + g, "malformed")
        for t in (g + ".", g + "..", g + ".5.", g + ".5.5", g + ".5.e1", "." + g, ".", "-.", "+.", ".e1", g + "e", g + "E", g + "e+", g + "e-", g + "e+-2", g + "e-+2", g + "e++2", g + "ee1", g + "e.", g + "e1.5",
                  g + ".e5", g + "x", "0x" + g, "0X" + g + "fF", g + ",", g + "]", g + " ", g + "e5 ", g + "a", "-" + g + "}", g + "-", g + "+", g + "-1", "--" + g, "+-" + g, "-+" + g, "++" + g, " " + g):
            add(t, "malformed")
    for _ in range(20000 if T else 2500):
        n = rng.randrange(1, 30)
        add("".join(rng.choice("0123456789012345678901234.eE+-x,") for _ in range(n)), "malformed")
    return out


def embed(text, rng, mode):
    """-> (units, offset, end). mode 0: exact; 1: non-zero start offset + suffix inside end_offset
    (a unit that cannot continue a numeral); 2: end_offset stops at the text, digits lie beyond it."""
    u = U(text)
    if mode == 0:
        return u, 0, len(u)
    pre = [rng.choice([49, 48, 46, 45, 101, 32, 44]) for _ in range(rng.randrange(1, 5))]
    if mode == 1:
        suf = [rng.choice([44, 93, 125, 32, 9, 10, 34, 58, 122])] + [rng.choice([49, 46, 101, 48]) for _ in range(rng.randrange(0, 3))]
        return pre + u + suf, len(pre), len(pre) + len(u) + len(suf)
    suf = [rng.choice([49, 48, 57, 46, 101, 43])] * rng.randrange(1, 4)
    return pre + u + suf, len(pre), len(pre) + len(u)


def run(ctx):
    ctx.gen_constants(["StrToNum"])
    ctx.prove(["Qentem.Props.C09", "Qentem.Props.C09More", "Qentem.Props.C09Long", "Qentem.Props.C09General", "Qentem.Props.C09Closed", "Qentem.Props.C09Instances", "Qentem.Props.C11Parser", "Qentem.Props.C11Float"], THEOREMS, open_statements=OPEN)
    drv = ctx.build_driver()
    exe = ctx.build_harness("strtonum_harness.cpp")
    if not (drv and exe):
        return
    rng = ctx.rng
    T = ctx.thorough
    lines, slices = [], []

    def push(w, units, off, end):
        lines.append("s2n %s %d %d %s" % (w, off, end, core.show_units(units)))
        slices.append((units[off:end], off))
    # corpus first
    cdir = os.path.join(core.VERIF, "corpus", "C09")
    ncorpus = 0
    if os.path.isdir(cdir):
        for fn in sorted(os.listdir(cdir)):
            for ln in open(os.path.join(cdir, fn)):
                ln = ln.strip()
                if ln.startswith("s2n "):
                    t = ln.split(" ")
                    u = [] if t[4] == "-" else [int(x) for x in t[4].split(",")]
                    push(t[1], u, int(t[2]), int(t[3]))
                    ncorpus += 1
    texts = gen_texts(ctx)
    tags = {}
    for k, (t, tag) in enumerate(texts):
        tags[tag] = tags.get(tag, 0) + 1
        u, o, e = embed(t, rng, 0)
        push("1", u, o, e)
        # other widths: all in the thorough tier, a slice in the quick one
        for j, w in enumerate(("2", "4", "W")):
            if T or (k + j) % 6 == 0:
                push(w, u, o, e)
        if tag != "exhaustive" or k % 4 == 0:
            m = 1 + (k % 2)
            u, o, e = embed(t, rng, m)
            push(rng.choice(["1", "2", "4", "W"]), u, o, e)
    # wide / non-ASCII units: a unit that equals a digit only after truncation must not be taken for one
    for _ in range(30000 if T else 4000):
        n = rng.randrange(1, 12)
        w = rng.choice(["1", "2", "4", "W"])
        hi = {"1": [128, 176, 255, 0xB1], "2": [0x130, 0xFF31, 0x2E + 0x100, 0xFFFF], "4": [0x10031, 0x130, 0x80000031, 0xFFFFFFFF], "W": [0x10031, 0x130, 0x80000031, 0xFFFFFFFF]}[w]
        u = [rng.choice([49, 48, 46, 101, 45, 53]) if rng.random() < 0.75 else rng.choice(hi) for _ in range(n)]
        push(w, u, 0, n)
    ctx.notes.append("texts by generator: %s; corpus lines %d" % (tags, ncorpus))

    impl, faults = core.run_lines_parallel(exe, lines, jobs=12)
    model, _ = core.run_lines_parallel(drv, lines, jobs=12)
    for i, kind, err in faults:
        ctx.fail("fault:" + kind, "sanitizer fault in Digit::StringToNumber on " + lines[i], {"line": lines[i], "stderr": err})
    ctx.correspond("strToNum(kind,bits,offset)", lines, impl, model,
                   nontrivial=lambda l: any(48 <= int(x) <= 57 for x in l.split(" ")[4].split(",") if x != "-"))
    for i, m in enumerate(model):
        if m.startswith("FAULT"):
            ctx.fail("model-oob-read", "the model reads outside [offset,end) on " + lines[i], {"line": lines[i]})
            break

    # S3: the property's own predicates (exact Rat, Lean) on what the C++ returned
    olines, idx = [], []
    for i, l in enumerate(lines):
        if impl[i].startswith("FAULT") or impl[i] == "bad-op":
            continue
        k, h, o = impl[i].split(" ")
        sl, off = slices[i]
        olines.append("s2noracle %s %s %s %d" % (core.show_units(sl), k, h, int(o) - off))
        idx.append(i)
    verdicts, _ = core.run_lines_parallel(drv, olines, jobs=14)
    stats = {}
    ulp1 = 0
    for j, v in enumerate(verdicts):
        i = idx[j]
        key = " ".join(v.split(" ")[:3]) if v.startswith("ok rejected") else " ".join(v.split(" ")[:2])
        stats[key] = stats.get(key, 0) + 1
        if v == "ok real 1":
            ulp1 += 1
        if v.startswith("FAIL"):
            fk = v.split(" ")[1]
            ctx.fail("oracle:" + fk, "C09 fails on the implementation: %s -> %s : %s" % (lines[i], impl[i], v),
                     {"line": lines[i], "impl_output": impl[i], "verdict": v})
        elif not (v.startswith("ok") or v.startswith("skip")):
            ctx.infra_errors.append("oracle answered %r for %s" % (v, olines[j]))
            break
    judged = sum(n for k, n in stats.items() if k.startswith("ok"))
    ctx.count("oracle(exact-Rat ulp distance, integer exactness, rejection, consumed length)", len(olines), judged,
              sample={"stream": "oracle", "verdict_histogram": stats})
    ctx.notes.append("oracle verdicts: %s" % stats)
    ctx.notes.append("reals not correctly rounded but within one ulp: %d" % ulp1)

    # second opinion only: strtod on a sample of plain-ASCII numerals accepted as Real
    so, so_idx = [], []
    for j, v in enumerate(verdicts):
        i = idx[j]
        if v.startswith("ok real") and lines[i].split(" ")[1] == "1" and len(so) < (200000 if T else 20000):
            sl, off = slices[i]
            so.append("s2nstrtod " + core.show_units(sl))
            so_idx.append(i)
    if so:
        sd, _ = core.run_lines_parallel(exe, so, jobs=12)
        far = 0
        for j, b in enumerate(sd):
            try:
                a = int(impl[so_idx[j]].split(" ")[1], 16) & (2 ** 63 - 1)
                d = abs(a - (int(b, 16) & (2 ** 63 - 1)))
            except ValueError:
                continue
            if d > 1:
                far += 1
        ctx.notes.append("second opinion (strtod, never a verdict): %d of %d accepted reals differ from strtod by more than one ulp" % (far, len(so)))
    # long-text probe (C++ only: a 10^8-unit list cannot be fed to the model): mantissas of >= 10^8 units whose
    # ignored digits / leading fraction zeros would cancel a saturated nine-digit exponent. The value is far outside
    # the double range, so the result must be NotANumber or an infinity, never a finite Real.
    if exe:
        Z = 100000000
        probes = [
            ("0.<%d zeros>1e+1000000000 (value 10^(9*10^8): overflow)" % (Z - 1), "s2nlong 48,46 48 %d 49,101,43,49,48,48,48,48,48,48,48,48,48" % (Z - 1), True),
            ("1<%d zeros>e-1000000000 (value 10^(-9*10^8): underflow)" % (Z - 18), "s2nlong 49 48 %d 101,45,49,48,48,48,48,48,48,48,48,48" % (Z - 18), False),
            ("1<%d zeros>e-999999999" % (Z - 18), "s2nlong 49 48 %d 101,45,57,57,57,57,57,57,57,57,57" % (Z - 18), False),
            ("0.<%d zeros>0e+1000000000 (zero mantissa: still 0)" % 1000, "s2nlong 48,46 48 1000 48,101,43,49,48,48,48,48,48,48,48,48,48", None),
        ]
        pl = [p[1] for p in probes]
        pout, pfaults = core.run_lines_parallel(exe, pl, jobs=2)
        for i, kind, err in pfaults:
            ctx.fail("fault:" + kind, "sanitizer fault in Digit::StringToNumber on the long text " + probes[i][0], {"line": pl[i], "stderr": err})
        judged_long = 0
        for (desc, line, over), out in zip(probes, pout):
            if out.startswith("FAULT") or out == "bad-op":
                continue
            k, h, o = out.split(" ")
            mag = int(h, 16) & (2 ** 63 - 1)
            judged_long += 1
            if over is None:
                if not (k == "1" and mag == 0):
                    ctx.fail("long-zero-mantissa", "a zero mantissa with a long exponent is not read as zero: %s -> %s" % (desc, out), {"line": line, "impl_output": out})
            elif k == "1" and (0 < mag < 0x7FF0000000000000 if over else mag != 0):
                ctx.fail("exponent-saturation-long-mantissa",
                         "a numeral far outside the double range is returned as the finite Real %s: %s -> %s (saturated nine-digit exponent cancelled by >= 10^8 ignored digits / leading zeros)" % (h, desc, out),
                         {"line": line, "impl_output": out})
        ctx.count("long-text probes (>= 10^8 units, C++ only)", len(probes), judged_long)
    # ---- API audit (checks/_c09_api.py): the other public text-to-number entry points of Digit.hpp ------------------
    # FastStringToNumber<unsigned N>: an unchecked primitive (every unit taken as a digit, wraps in the type);
    # HexStringToNumber<unsigned N>: stops at the first non-hex unit, keeps the low N bits. Oracle: the fold itself.
    if exe:
        al, want = [], []
        for _ in range(6000 if T else 1500):
            n = rng.randrange(0, 24)
            bits = rng.choice([8, 16, 32, 64])
            if rng.random() < 0.5:
                u = [rng.choice([48, 49, 53, 57]) if rng.random() < 0.9 else rng.choice([47, 58, 65, 120, 0, 255]) for _ in range(n)]
                v = 0
                for i, x in enumerate(u):
                    xc = x if x < 128 else x - 256          # `char` is signed on this target
                    v = (xc - 48) % 2 ** bits if i == 0 else (v * 10 + xc - 48) % 2 ** bits
                al.append("s2nfast %d %s" % (bits, core.show_units(u))); want.append(str(v))
            else:
                u = [rng.choice([48, 57, 65, 70, 97, 102, 49, 101]) if rng.random() < 0.92 else rng.choice([71, 103, 47, 58, 64, 96, 120]) for _ in range(n)]
                off = rng.randrange(0, n + 1); end = rng.randrange(off, n + 1)
                v, k = 0, off
                while k < end:
                    x = u[k]
                    d = x - 48 if 48 <= x <= 57 else x - 55 if 65 <= x <= 70 else x - 87 if 97 <= x <= 102 else None
                    if d is None:
                        break
                    v = ((v << 4) | d) % 2 ** bits; k += 1
                al.append("s2nhex %d %d %d %s" % (bits, off, end, core.show_units(u))); want.append("%d %d" % (v, k))
                if off == 0:
                    v2, k2 = 0, 0
                    while k2 < n:
                        x = u[k2]
                        d = x - 48 if 48 <= x <= 57 else x - 55 if 65 <= x <= 70 else x - 87 if 97 <= x <= 102 else None
                        if d is None:
                            break
                        v2 = ((v2 << 4) | d) % 2 ** bits; k2 += 1
                    al.append("s2nhexlen %d %s" % (bits, core.show_units(u))); want.append(str(v2))
        aout, afaults = core.run_lines_parallel(exe, al, jobs=8)
        for i, kind, err in afaults:
            ctx.fail("fault:" + kind, "sanitizer fault on " + al[i], {"line": al[i], "stderr": err})
        okc = 0
        for l, o, w in zip(al, aout, want):
            if o.startswith("FAULT"):
                continue
            okc += 1
            if o != w:
                ctx.fail("api:" + l.split(" ")[0], "%s returns %s, the fold gives %s" % (l, o, w), {"line": l, "impl_output": o, "expected": w})
        ctx.count("FastStringToNumber / HexStringToNumber (both overloads), unsigned 8/16/32/64 vs the digit fold", len(al), okc)
        try:
            from checks import _c09_api
            rows, unc = _c09_api.audit()
            ctx.notes.append("public API of Digit.hpp: %d entry points, not driven by any harness: %s" % (len(rows), unc if unc else "none"))
        except Exception as ex:                                    # the audit is a note, never a verdict
            ctx.notes.append("API audit unavailable: %r" % (ex,))
    ctx.assumptions += [
        "code units are Nat; the routine only compares units with ASCII constants, so one model serves char/char16_t/char32_t/wchar_t (all four run in the harness, including units that are digits only after truncation)",
        "SizeT is 32 bits; inputs shorter than 2^32 units (the 32-bit exponent arithmetic of the real tail cannot wrap below 2^32 - 10^8 units once nine-digit exponents are rejected)",
        "BigInt<uint64,256> is modelled as naturals truncated to 256 bits with Index()/FindLastBit() = position of the top set bit (word-level exactness is C19's theorem; the pipeline stays below 2^255)",
        "underflow: numerals below the smallest subnormal may be rejected (NotANumber) or returned as 0 / the smallest subnormal; overflow: NotANumber, infinity or a NaN pattern",
    ]


FINISH = dict(level="proof",
              rule="exhaustive strings of length ≤5 (quick) / ≤6 (thorough) over {0 1 5 9 . e - +} and ≤4/≤5 over {0 1 x A f . E ,}; integers of every length 1..23 and the 2^63/2^64/10^19 boundaries ±3 with signs; grammar numerals of 1..400 digits, dot at every position, exponents −400..400 and near ±308/±324; exact halfway points between adjacent doubles ± one digit; 17..22 and 38..40 digit mantissas with the dot at every position; overflow/underflow edges incl. 9-10 digit exponents; malformed and lenient shapes; each text alone, embedded at a non-zero offset with a following unit, and with digits beyond end_offset; widths char/char16_t/char32_t/wchar_t; non-trivial = contains a digit",
              checker_cmd="cd lean && lake build Qentem.Props.C09 && lake env lean <#print axioms of the listed theorems>")
