"""Mechanical audit of the C19 op language against the public API of BigInt / DoubleSize.

Part 1 lists every public member / operator of Include/BigInt.hpp (name + parameter list as written) and
the token(s) of harness/bigint_harness.cpp that call it.  Part 2 expands the template overloads: for each
operator that takes `N_Number_T` and each of the four word sizes, every operand type class
(unsigned/signed x narrower/equal/wider than the word, same width but distinct type) and whether the
harness dispatches it.  `audit()` returns (rows, overload_rows, uncovered); c19.py records the uncovered
list in the evidence notes on every run.   python3 -m checks._c19_api   prints the tables."""
import os
import re
from vlib import core

HEADER = "BigInt.hpp"
HARNESS = "bigint_harness.cpp"

SIG = re.compile(r"^    (?:template <[^>]*>\s*)?(?:(?:inline|static|explicit|friend|constexpr|QENTEM_CONST_EXPRESSION)\s+)*"
                 r"(?:[\w:<>,\s\*&]+?\s+[\*&]*)?(~?\w+|operator\s*[^\s(]+|operator N_Number_T)\s*\(([^)]*)\)[^;{]*\{", re.M)

# public member -> (regex that must occur in the harness, tokens of the op language that reach it)
DRIVEN = {
    ("BigInt", ""): (r"Obj<B>\s+holder", "every sequence starts from `BigInt()`"),
    ("BigInt", "BigInt &&src"): (r"new \(&x\) B\(static_cast<B &&>\(y\)\)", "mc"),
    ("BigInt", "const BigInt &src"): (r"new \(&y\) B\(x\)", "cc"),
    ("BigInt", "const N_Number_T number"): (r"new \(&x\) B\(a\)", "cn:K:x"),
    ("operator=", "const N_Number_T number"): (r"x = a;", "as:K:x"),
    ("operator=", "BigInt &&src"): (r"x = static_cast<B &&>\(y\)", "mv, sm (x = move(x))"),
    ("operator=", "const BigInt &src"): (r"y = x;", "sv, ld, sa (x = x)"),
    ("operatorN_Number_T", ""): (r"N\(x\)", "nw:K"),
    ("operator<", "const BigInt &out, const Number_T number"): (r"\(x < a\)", "lt:x"),
    ("operator<", "const Number_T number, const BigInt &out"): (r"\(a < x\)", "rlt:x"),
    ("operator<=", "const BigInt &out, const Number_T number"): (r"\(x <= a\)", "le:x"),
    ("operator<=", "const Number_T number, const BigInt &out"): (r"\(a <= x\)", "rle:x"),
    ("operator>", "const BigInt &out, const Number_T number"): (r"\(x > a\)", "gt:x"),
    ("operator>", "const Number_T number, const BigInt &out"): (r"\(a > x\)", "rgt:x"),
    ("operator>=", "const BigInt &out, const Number_T number"): (r"\(x >= a\)", "ge:x"),
    ("operator>=", "const Number_T number, const BigInt &out"): (r"\(a >= x\)", "rge:x"),
    ("operator==", "const BigInt &out, const Number_T number"): (r"\(x == a\)", "eq:x"),
    ("operator==", "const Number_T number, const BigInt &out"): (r"\(a == x\)", "req:x"),
    ("operator!=", "const BigInt &out, const Number_T number"): (r"\(x != a\)", "ne:x"),
    ("operator!=", "const Number_T number, const BigInt &out"): (r"\(a != x\)", "rne:x"),
    ("operator<<=", "const SizeT32 number"): (r"x <<= s;", "sl:k"),
    ("operator>>=", "const SizeT32 number"): (r"x >>= s;", "sr:k"),
    ("operator|=", "const N_Number_T number"): (r"x \|= a;", "or:K:x, sor"),
    ("operator&=", "const N_Number_T number"): (r"x &= a;", "an:K:x, san"),
    ("operator+=", "const N_Number_T number"): (r"x \+= a;", "ad:K:x, sad"),
    ("operator-=", "const N_Number_T number"): (r"x -= a;", "sb:K:x, ssb"),
    ("operator*=", "const Number_T number"): (r"x \*= a;", "mu:x, smu"),
    ("operator/=", "const Number_T number"): (r"x /= T\(v\)", "dq:d"),
    ("Add", "Number_T number, SizeT32 index = 0U"): (r"x\.Add\(T\(v\), idx\)", "ai:i:x"),
    ("Subtract", "Number_T number, SizeT32 index = 0U"): (r"x\.Subtract\(T\(v\), idx\)", "si:i:x"),
    ("Multiply", "Number_T multiplier"): (r"x\.Multiply\(T\(v\)\)", "mun:x"),
    ("Divide", "const Number_T divisor"): (r"x\.Divide\(a\)", "dv:d, sdv"),
    ("ShiftRight", "SizeT32 offset"): (r"x\.ShiftRight\(k2\)", "srn:k"),
    ("ShiftLeft", "SizeT32 offset"): (r"x\.ShiftLeft\(k2\)", "sln:k"),
    ("FindFirstBit", ""): (r"x\.FindFirstBit\(\)", "ff"),
    ("FindLastBit", ""): (r"x\.FindLastBit\(\)", "fl"),
    ("Number", ""): (r"x\.Number\(\)", "nu (and the operand of sad ssb sor san smu sdv)"),
    ("Clear", ""): (r"x\.Clear\(\)", "cl"),
    ("Index", ""): (r"x\.Index\(\)", "every step"),
    ("MaxIndex", ""): (r"B::MaxIndex\(\)", "mi (and every step)"),
    ("TypeWidth", ""): (r"B::TypeWidth\(\)", "tw"),
    ("TotalBits", ""): (r"B::TotalBits\(\)", "tb"),
    ("SizeOfType", ""): (r"B::SizeOfType\(\)", "so"),
    ("IsBig", ""): (r"x\.IsBig\(\)", "ib"),
    ("NotZero", ""): (r"x\.NotZero\(\)", "nz"),
    ("IsZero", ""): (r"x\.IsZero\(\)", "iz"),
    ("SetIndex", "SizeT32 index"): (r"x\.SetIndex\(", "ix:i (raw; outside the property)"),
    ("Storage", ""): (r"x\.Storage\(\)\[idx\] = |x\.Storage\(\)\[i\]", "st:i:v (non-const, raw) / every step (const)"),
    ("DoubleSize::Divide", ""): (r"DoubleSize<T, Sel>::Divide", "bighd, bighdx (hand + native)"),
    ("DoubleSize::Multiply", ""): (r"DoubleSize<T, Sel>::Multiply", "bighm, bighmx (hand + native)"),
}

EXCLUDED = {
    "~BigInt": "defaulted destructor (every object of the harness)",
}

# type classes of the template overloads relative to a word of W bits: token of the harness type table
TYPE_TOKENS = [("8", 8, False), ("16", 16, False), ("32", 32, False), ("64", 64, False), ("128", 128, False), ("L", 64, False),
               ("s8", 8, True), ("s16", 16, True), ("s32", 32, True), ("s64", 64, True), ("s128", 128, True), ("sL", 64, True)]
TEMPLATE_OPS = ["BigInt(N)", "operator=(N)", "operator+=(N)", "operator-=(N)", "operator|=(N)", "operator&=(N)", "operator N()"]
WORD_TYPES = {8: "8", 16: "16", 32: "32", 64: "64"}


def public_api():
    src = open(os.path.join(core.INCLUDE, HEADER)).read()
    cls_start = src.find("struct BigInt {")
    cut = src.find("  private:", cls_start)
    body = src[cls_start:cut]
    out = []
    for m in SIG.finditer(body):
        name, args = re.sub(r"\s+", "", m.group(1)), re.sub(r"\s+", " ", m.group(2).strip())
        if name in ("if", "while", "for", "switch", "return", "do", "QENTEM_CONST_EXPRESSION"):
            continue
        if name == "N_Number_T":
            name = "operatorN_Number_T"          # `explicit operator N_Number_T() const`
        out.append((name, args))
    if re.search(r"BigInt\(\) noexcept\s*= default;", body):
        out.insert(0, ("BigInt", ""))
    out.append(("DoubleSize::Divide", ""))
    out.append(("DoubleSize::Multiply", ""))
    return out


def harness_text():
    return open(os.path.join(core.HARNESS, HARNESS)).read()


def audit():
    text = harness_text()
    rows, uncovered = [], []
    seen = set()
    for name, args in public_api():
        key = (name, args)
        if key in seen:
            continue                      # Storage() const / non-const share one row
        seen.add(key)
        if name in EXCLUDED:
            rows.append((name, args, "excluded: " + EXCLUDED[name]))
            continue
        pat = DRIVEN.get(key)
        if pat and re.search(pat[0], text):
            rows.append((name, args, "driven: " + pat[1]))
        else:
            rows.append((name, args, "NOT DRIVEN"))
            uncovered.append("%s(%s)" % (name, args))
    # overload expansion
    orow = []
    for W in (8, 16, 32, 64):
        for tok, bits, sg in TYPE_TOKENS:
            if bits < W:
                cls = "narrower"
            elif bits > W:
                cls = "wider (chunk loop)"
            elif tok == WORD_TYPES[W]:
                cls = "the word type (non-template overload)"
            else:
                cls = "same width, distinct type (template overload)"
            present = re.search(r'ty == "%s"\) fn\(' % re.escape(tok), text) is not None
            orow.append((W, ("signed " if sg else "unsigned ") + tok, cls, "driven" if present else "NOT DRIVEN"))
            if not present:
                uncovered.append("operand type %s at %d-bit words" % (tok, W))
    return rows, orow, uncovered


if __name__ == "__main__":
    rows, orow, unc = audit()
    for r in rows:
        print("%-22s %-48s %s" % r)
    print()
    for r in orow:
        print("W=%-3d %-14s %-46s %s" % r)
    print("template operators expanded over these types:", ", ".join(TEMPLATE_OPS))
    print("uncovered:", unc)
