"""C16 for the flat containers (Array, String, StringStream, StringView): allocation-trace cases and
the comparison of the real trace with the Lean ledger model (Model/SeqLedger.lean).

Used by checks/c16.py:

    src, lines = ledger_cases(ctx)                       # harness source + program lines (seq protocol)
    exe = ctx.build_harness(src, flags=LEDGER_FLAGS, tag="san_ledger")
    out, faults = core.run_lines_parallel(exe, lines)    # every line ends with " ##L <trace> live=<n>"
    compare_traces(ctx, lines, out, drv)                 # ctx.fail / ctx.correspond as appropriate

or simply `run_seq_ledger(ctx, drv)` which does all of it.

Real trace (harness/ledger.hpp): `a<id>:<usable bytes>` / `f<id>` in program order; ids are global to the
harness process, so they are renumbered per line by order of allocation before anything is compared.
Model trace (driver op `seqled-array i|s`, `seqled-string <w>`, `seqled-stream <w> <x|s>`): same syntax,
ids from 1, sizes = requested bytes.  Compared: number and order of events, which allocation each `free`
releases; sizes only as real >= requested.  `seqled-array s` is Array<String<char>> (owning items: one
block per item with storage).  StringView allocates nothing and has no model trace; its real traces are
only replayed through the Lean `Ledger.run` (`ledcheck`), like every other line."""
import re
from vlib import core
from checks import c14

HARNESS = "seq_harness.cpp"
LEDGER_FLAGS = core.SAN_FLAGS + ["-DVERIF_LEDGER"]
ALL_ON = {"array_self_appc": True, "stream_self_shl": True, "string_stepback0": True,
          "array_alias_item": True, "stream_alias_write": True, "string_asg_own": True, "string_write_own": True}
# first line of every run: shows whether String::operator=(const Char_T*) releases before it allocates
FF_PROBE = "seq-string 1 ctoru:0:97;asgu:0:98"

# programs that stress ownership transfer: self-assignment, self-append, moved-from use, adoption
WITNESSES = [
    "seq-array i push:0:1;push:0:2;push:0:3;appc:0:0;appm:0:0;push:0:9;asgc:0:0;asgm:1:0;push:0:5",
    "seq-array i push:0:1;appm:1:0;appm:1:1;push:1:4;ctorm:2:1;ctorm:2:2;ctorc:0:2;detach:2;compress:0;resize:0:0",
    "seq-array s push:0:1;push:0:2;push:0:3;appc:0:0;asgc:0:0;asgm:1:0;push:0:5;appm:2:1;drop:2:2;clear:2",
    "seq-array s ctorn:0:4:1;push:0:7;resize:0:2;resizei:0:5;reserve:0:3:1;ctorc:1:0;appc:1:1;detach:1;compress:0",
    "seq-string 1 ctoru:0:97,98;appc:0:0;appm:0:0;asgm:1:0;plusm:2:1:1;appch:1:65;asgc:1:1;asgm:1:1;detach:1",
    "seq-string 2 ctoru:0:97,98;plus:0:0:0;plusm:0:0:0;appch:0:66;plusm:1:0:0;trim:1:1;adopt:2:99;ctorm:2:2;ctorf:2:-;ctorf:2:5,6",
    "seq-string 4 adopt:0:97;appm:1:0;appm:1:1;insertat:1:66:0;plusu:1:1:-;plus:2:1:1;reset:1;stepback:2:0;asgu:2:-",
    "seq-stream 1 x appu:0:0:97,98,99;apps:0:0;shls:0:0;getstr:0;asgm:0:0;ctorm:1:0;pushch:0:0:7;getstr:0;getstr:0",
    "seq-stream 2 x ctorn:0:4;appu:3:0:97,98;getview:0;getstr:0;reserve:1:3;asgc:0:1;asgc:1:1;asgu:0:1:97;equ:0:0:1:97;detach:1;ctorc:2:1;ctorc:2:2",
    "seq-stream 4 x pushch:0:0:65;shls:0:0;shls:0:0;insertat:0:66:0;setlen:0:9:1,2,3,4,5,6,7,8,9;buffer:0:5,6;insnull:0;expect:0:30;ctorm:0:0",
    "seq-view 1 ctorp:0:97,98,99:2;ctorz:1:97,98;ctorm:2:1;asgm:0:2;cmp:0:0:1",
]


def ledger_cases(ctx, policy="x"):
    """-> (harness source file, program lines).  `policy`: 'x' when the harness is built with the
    exact-fit hook (core.SAN_FLAGS), 's' for a build without -DQENTEM_VERIF."""
    rng = ctx.rng
    T = ctx.thorough
    # operations with the argument inside the container's own storage: only the families whose probe passes
    # (a failing family is a use after release: reported here too, under the same key; its lines would end
    # every batch)
    flags = dict(ALL_ON)
    exe = ctx.build_harness(HARNESS, tag="san_exact")
    drv = core.driver_path()
    import os
    if exe and os.path.exists(drv):
        flags.update(c14.alias_flags(ctx, exe, drv, report=True))
    lines = [FF_PROBE]
    lines += [l.replace(" x ", " %s " % policy, 1) if l.startswith("seq-stream") else l for l in WITNESSES]
    for fkey, (flag, pl) in c14.ALIAS_PROBES.items():
        if flags[flag]:
            lines += [l for l in pl if not (l.startswith("seq-stream") and l.split(" ")[2] != policy)]
    lines += [l for l in c14.corpus_lines() if l.startswith("seq-") and not (l.startswith("seq-stream") and l.split(" ")[2] != policy)]
    # exhaustive depth 2 from a non-empty prologue, over the C14 alphabets
    for kind in ("i", "s", "p"):
        ex = c14.exhaustive(c14.array_alphabet(flags), 2 if not T else 3, ["push:0:1;push:0:2;push:1:3"])
        if kind == "s":
            ex = [p for p in ex if "appm:0:0" not in p]
        lines += ["seq-array %s %s" % (kind, p) for p in ex]
        if kind == "p" and not T:
            ex = ex[::3]
        lines += ["seq-array %s %s" % (kind, c14.gen_array(rng, rng.choice([5, 12, 30]), kind, flags)) for _ in range((800 if kind != "p" else 300) if not T else 12000)]
    for w in ("1", "2", "4"):
        sa = c14.string_alphabet(flags)
        lines += ["seq-string %s %s" % (w, p) for p in c14.exhaustive(sa if w == "1" or T else sa[::2], 2, ["ctoru:0:32,97,98,32;ctoru:1:99"])]
        lines += ["seq-string %s %s" % (w, c14.gen_string(rng, rng.choice([5, 12, 30]), w, flags)) for _ in range(600 if not T else 8000)]
        ta = c14.stream_alphabet(flags)
        lines += ["seq-stream %s %s %s" % (w, policy, p) for p in c14.exhaustive(ta if w == "1" or T else ta[::2], 2, ["appu:0:0:97,98,99;pushch:0:1:100"])]
        lines += ["seq-stream %s %s %s" % (w, policy, c14.gen_stream(rng, rng.choice([5, 12, 30]), w, flags)) for _ in range(600 if not T else 8000)]
        lines += ["seq-view %s %s" % (w, c14.gen_view(rng, 8, w)) for _ in range(100)]
    return HARNESS, lines


def split_output(out_line):
    """'<payload> ##L <trace> live=<n>' -> (payload, trace string, live count) ; (out_line, None, None) without ledger."""
    m = re.match(r"^(.*) ##L (\S+) live=(\d+)$", out_line)
    if not m:
        return out_line, None, None
    return m.group(1), m.group(2), int(m.group(3))


def parse_trace(tr):
    ev = []
    if tr in ("-", "", None):
        return ev
    for t in tr.split(","):
        if t[0] == "a":
            i, s = t[1:].split(":")
            ev.append(("a", int(i), int(s)))
        elif t[0] == "f":
            ev.append(("f", int(t[1:]), 0))
    return ev


def normalise(ev):
    """Renumber ids by order of allocation inside the line; a release of something not allocated in this
    line (or id 0 = pointer unknown to the ledger) becomes f0."""
    ids, out = {}, []
    for k, i, s in ev:
        if k == "a":
            ids[i] = len(ids) + 1
            out.append(("a", ids[i], s))
        else:
            out.append(("f", ids.get(i, 0), 0))
    return out


def show(ev, sizes=True):
    if not ev:
        return "-"
    return ",".join(("a%d:%d" % (i, s) if sizes else "a%d" % i) if k == "a" else "f%d" % i for k, i, s in ev)


def model_line(line, ff=True):
    """The driver line that yields the model trace, or None when the container has no ledger model.
    `ff`: String::operator=(const Char_T*) releases its block before it allocates the new one."""
    t = line.split(" ")
    if t[0] == "seq-array" and t[1] in ("i", "s", "p"):
        return "seqled-array %s %s" % (t[1], t[2])
    if t[0] == "seq-string":
        return "seqled-string %s%s %s" % (t[1], "f" if ff else "", t[2])
    if t[0] == "seq-stream":
        return "seqled-stream %s %s %s" % (t[1], t[2], t[3])
    return None


def compare_traces(ctx, lines, impl_out, drv, stream="seq-ledger", max_fail=20):
    """impl_out[i] = harness output of lines[i] (FAULT lines are skipped: C14 reports those)."""
    real, idx, lives = [], [], []
    nfail = 0
    for i, o in enumerate(impl_out):
        if o.startswith("FAULT"):
            continue
        _, tr, live = split_output(o)
        if tr is None:
            ctx.infra_errors.append("no ledger trace on the harness line (built without -DVERIF_LEDGER?): " + o[:200])
            return
        ev = normalise(parse_trace(tr))
        real.append(ev)
        idx.append(i)
        lives.append(live)
    # 1. the Lean `Ledger.run` on the real trace (S3 oracle: Balanced evaluated on what the code did)
    chk, _ = core.run_lines_parallel(drv, ["ledcheck " + show(ev) for ev in real], jobs=12, env=None)
    for j, v in enumerate(chk):
        if not v.startswith("balanced") and nfail < max_fail:
            nfail += 1
            i = idx[j]
            ctx.fail("ledger:" + v.split(" ")[0], "allocation trace is not balanced (%s): %s" % (v, lines[i]),
                     {"line": lines[i], "trace": show(real[j]), "verdict": v})
    # `live` is cumulative inside one harness process: a leaking line is identified by its own trace
    # ("leak n" above); the counter is only a cross-check for blocks the trace itself does not show.
    if not any(v.startswith("leak") for v in chk):
        for j, lv in enumerate(lives):
            if lv != 0:
                ctx.fail("ledger:leak", "%d block(s) recorded live after the program %s although its trace is balanced" % (lv, lines[idx[j]]),
                         {"line": lines[idx[j]], "trace": show(real[j]), "live": lv})
                break
    ctx.count(stream + ":ledcheck-on-real-trace", len(real), len(set(lines[i] for i in idx)))
    # 2. model trace vs real trace
    ff = True
    for j in range(len(real)):
        if lines[idx[j]] == FF_PROBE:
            ff = show(real[j], sizes=False) != "a1,a2,f1,f2"
            break
    mi = [j for j in range(len(real)) if model_line(lines[idx[j]])]
    mlines = [model_line(lines[idx[j]], ff) for j in mi]
    mout, _ = core.run_lines_parallel(drv, mlines, jobs=12, env=None)
    impl_c, model_c = [], []
    for k, j in enumerate(mi):
        mev = parse_trace(mout[k]) if mout[k] != "bad-op" else None
        rs = show(real[j], sizes=False)
        if mev is None:
            impl_c.append(rs); model_c.append("bad-op"); continue
        ms = show(mev, sizes=False)
        if rs == ms:
            short = [(a, b) for a, b in zip(real[j], mev) if a[0] == "a" and a[2] < b[2]]
            if short:
                rs += " !block smaller than requested: real %d < model %d" % (short[0][0][2], short[0][1][2])
        impl_c.append(rs); model_c.append(ms)
    ctx.correspond(stream + ":model-trace", mlines, impl_c, model_c, nontrivial=lambda l: True)


def run_seq_ledger(ctx, drv):
    src, lines = ledger_cases(ctx)
    exe = ctx.build_harness(src, flags=LEDGER_FLAGS, tag="san_ledger")
    if not exe:
        return
    out, faults = core.run_lines_parallel(exe, lines, jobs=12)
    for i, k, err in faults:
        if not k.startswith("lsan"):
            ctx.fail("fault:" + k, "sanitizer fault (%s) in the program %s" % (k, lines[i]), {"line": lines[i], "stderr": err})
    compare_traces(ctx, lines, out, drv)


SEQ_LEDGER_THEOREMS = ["Qentem.Props.C16Seq." + n for n in [
    "trace_balanced", "array_trace_balanced", "string_trace_balanced", "stream_trace_balanced", "live_set_is_owned_set",
    "array_owning_trace_balanced", "owning_live_set_is_owned_set"]]
SEQ_LEDGER_MODULES = ["Qentem.Props.C16Seq"]
