"""C16 for the hash containers: allocation-ledger cases and the comparison of the real per-line
allocation trace with the model's (lean/Qentem/Model/HashLedger.lean, driver op `htled`).

    ledger_cases(ctx)                 -> (harness_src, lines)
    split_output(out)                 -> (payload, trace, live)      one harness output line
    normalise(trace)                  -> canonical trace (ids renumbered 1,2,... in allocation order)
    compare_with_model(ctx, drv, lines, outs) -> indexes whose real trace differs from the model's
    check(ctx, drv)                   -> everything: build, run, ledcheck, compare, ctx.fail on leaks

The harness must be built with  flags = core.SAN_FLAGS + ["-DVERIF_LEDGER"]  (harness/ledger.hpp is
its first include).  `htled <A|B|L> <ops>` runs one table lifetime through one fixed call per
operation and destroys the table before the line is emitted, so `live=0` is expected and the trace
is the library's own.  A = HArray<String,String>, L = HList<String> are compared event by event
(order, number and byte sizes: under ASan malloc_usable_size is the requested size); B =
HArray<String,Value<char>> owns several blocks per value and is only checked for balance.
"""
import itertools
import re
from vlib import core
from checks import c13

# theorems of lean/Qentem/Props/C16Hash.lean (for the C16 check's ctx.prove)
MODULES = ["Qentem.Props.C16Hash"]
THEOREMS = [
    "Qentem.Props.C16Hash.lifetime_balanced",
    "Qentem.Props.C16Hash.prefix_owned",
    "Qentem.HashLedger.step_ok",
    "Qentem.HashLedger.runOps_ok",
    "Qentem.HashLedger.merge_ok",
    "Qentem.HashLedger.mergeMoveLoop_ok",
    "Qentem.HashLedger.mergeCopyLoop_ok",
    "Qentem.HashLedger.copy_ok",
    "Qentem.HashLedger.destroy_ok",
]

LEDGER_FLAGS = core.SAN_FLAGS + ["-DVERIF_LEDGER"]
HARNESS = "hashtable_harness.cpp"


def ledger_cases(ctx):
    rng = ctx.rng
    lines = []
    # every pair / triple of operations of the small alphabet: each release path after each state shape
    for kind in ("A", "L"):
        ops = c13.exhaustive_ops(kind) + ["K", "T", "V/3", "M", "Q/98=7&99=8/98", "X/0", "L/97"]
        depth = 3 if ctx.thorough else 2
        for n in range(1, depth + 1):
            for t in itertools.product(ops, repeat=n):
                lines.append("htled %s %s" % (kind, ";".join(t)))
    coll = c13.colliding_alphabet()
    per = 250 if not ctx.thorough else 5000
    for kind in ("A", "L", "B"):
        for name, keys in (("dup", c13.ALPHA1), ("coll", coll)):
            for j in range(per):
                g = c13.Gen(rng, keys, kind, alias=False)
                n = rng.randrange(40, 100) if (name == "coll" and j % 6 == 0) else rng.randrange(1, 40)
                lines.append("htled %s %s" % (kind, g.seq(n, 0.75 if n >= 40 else 0.3)))
        for j in range(per):
            keys = [c13.random_key(rng) for _ in range(rng.choice([2, 4, 8, 24]))]
            g = c13.Gen(rng, keys, kind, alias=False)
            lines.append("htled %s %s" % (kind, g.seq(rng.randrange(1, 40), 0.4)))
    return HARNESS, lines


def tree_ledger_cases(ctx):
    """Nested tables (harness/hashtree_harness.cpp, also built with ledger.hpp first): programs of
    checks/_hashtree.py; the real trace of every program is judged by the Lean `run` (balance only)."""
    from checks import _hashtree
    lines, _ = _hashtree.cases(ctx)
    return "hashtree_harness.cpp", lines[:1200] if not ctx.thorough else lines


def split_output(out):
    m = re.match(r"^(.*) ##L (\S+) live=(\d+)$", out)
    if not m:
        return out, None, None
    return m.group(1), m.group(2), int(m.group(3))


def normalise(trace):
    """Renumber block ids in order of allocation; a release of an unknown pointer stays f0."""
    if trace in (None, "-"):
        return "-"
    ids, out = {}, []
    for t in trace.split(","):
        if t.startswith("a"):
            i, sz = t[1:].split(":")
            ids[i] = str(len(ids) + 1)
            out.append("a%s:%s" % (ids[i], sz))
        elif t.startswith("f"):
            out.append("f" + ids.get(t[1:], "0"))
        else:
            out.append(t)
    return ",".join(out)


def compare_with_model(ctx, drv, lines, outs):
    idx = [i for i, l in enumerate(lines) if l.startswith("htled A ") or l.startswith("htled L ")]
    sub = [lines[i] for i in idx]
    model, _ = core.run_lines_parallel(drv, sub, jobs=12, env=None)
    real = []
    for i in idx:
        _, tr, _ = split_output(outs[i])
        real.append(normalise(tr) if tr is not None else outs[i])
    bad = ctx.correspond("ledger:hash containers (alloc/free events, order and sizes)", sub, real, model,
                         nontrivial=lambda l: l.count(";") >= 1)
    return [idx[j] for j in bad]


def check(ctx, drv):
    """Build the ledger harness, run the cases, judge every real trace with the Lean `run`
    (driver op ledcheck) and compare A/L traces with the model's."""
    exe = ctx.build_harness(HARNESS, flags=LEDGER_FLAGS, tag="ledger")
    if not (exe and drv):
        return
    _, lines = ledger_cases(ctx)
    outs, faults = core.run_lines_parallel(exe, lines, jobs=12)
    for i, kind, err in faults:
        ctx.fail("fault:" + kind, "sanitizer fault in the hash table (ledger run) on " + lines[i][:300], {"line": lines[i], "stderr": err})
    chk, where = [], []
    for i, o in enumerate(outs):
        payload, tr, live = split_output(o)
        if tr is None:
            continue
        if payload != "ok":
            ctx.infra_errors.append("htled answered %s on %s" % (payload, lines[i][:200]))
            continue
        chk.append("ledcheck " + tr)
        where.append((i, live))
    verdicts, _ = core.run_lines_parallel(drv, chk, jobs=12, env=None)
    for (i, live), v in zip(where, verdicts):
        # `live` is cumulative over the harness process, so a leak would also show on every later line of
        # the same process; the verdict of the Lean `run` on this line's own trace is what is judged.
        if not v.startswith("balanced"):
            ctx.fail("ledger:hash:" + v.split(" ")[0], "allocation trace of a hash table lifetime is not balanced (%s, live=%d): %s" % (v, live, lines[i][:300]),
                     {"line": lines[i], "trace": outs[i][-3000:], "verdict": v})
    ctx.count("ledger:hash containers, real traces judged by Ledger.run", len(chk), len(set(chk)))
    compare_with_model(ctx, drv, lines, outs)
    # nested tables: copy / move / merge between related tables must release everything exactly once
    tsrc, tlines = tree_ledger_cases(ctx)
    texe = ctx.build_harness(tsrc, flags=LEDGER_FLAGS, tag="ledger")
    if texe:
        touts, tfaults = core.run_lines_parallel(texe, tlines, jobs=12)
        for i, kind, err in tfaults:
            ctx.fail("fault:" + kind, "sanitizer fault with nested tables (ledger run) on " + tlines[i][:300], {"line": tlines[i], "stderr": err})
        tchk, twhere = [], []
        for i, o in enumerate(touts):
            payload, tr, live = split_output(o)
            if tr is not None:
                tchk.append("ledcheck " + tr)
                twhere.append(i)
        tverd, _ = core.run_lines_parallel(drv, tchk, jobs=12, env=None)
        for i, v in zip(twhere, tverd):
            if not v.startswith("balanced"):
                ctx.fail("ledger:hash-tree:" + v.split(" ")[0], "allocation trace of a tree of nested tables is not balanced (%s): %s" % (v, tlines[i][:300]),
                         {"line": tlines[i], "trace": touts[i][-3000:], "verdict": v})
        ctx.count("ledger:nested tables, real traces judged by Ledger.run", len(tchk), len(set(tchk)))
