"""C08 — Stringify then Parse returns the same tree, and the text is valid JSON."""
import json as pyjson
import struct
from vlib import core, jsongen
from checks import _json

META = {
    "property_id": "C08",
    "technique": "Lean 4 theorems on the Stringify model (as-coded trailing-comma patch = reference serializer for every tree; Escape output is RFC well-escaped; UnEscape∘Escape = id; full round trip at 17 digits composed from C10 format_eq_spec, C11 roundtrip17, the StringToNumber relocation theorem and C06 parse_print) + correspondence with Value::Stringify + round-trip / RFC oracle on the real code",
    "level": "proof",
    "design_ref": "DESIGN.md §6 C08",
    "text": "Kernel-checked: parse(stringify_17 v) = v for EVERY value tree with finite numbers (roundtrip_linked): any nesting, Undefined and pointer members anywhere (dropped / looked through), strings over all code units, unsigned and signed 64-bit integers, every finite double incl. subnormals, both zeros and exponent texts; every character width; through the linked models of serializer, escaper, NumberToString (integer and real path), un-escaper, StringToNumber and parser. A real comes back as the number StringToNumber finds in its %.17g text: a Real with the same bits, or, when the text is an integer numeral (5.0 -> 5), the Natural/Integer of the same value (real_value_preserved: its double(.) conversion is the original double); nothing else changes (normR_is_normI_relabelled). Trees without reals: every precision (roundtrip_int_linked). Also for every tree and any number formatter: the serializer as coded - a comma after every member, then the last unit of the stream patched - produces exactly the comma-separated reference text with Undefined members omitted (strValue_eq); escaped bodies contain no unit below 0x20, no bare quote or backslash and only RFC escapes, and un-escaping gives the string back. On every run the same is exercised on the real code: generated trees built through the public API (removed members, pointer members, all code units, numeric extremes, -0) are stringified with 17 digits, parsed back and compared, stringify.parse.stringify is compared for a fixed point, and the text is given to an independent strict JSON reader when strings are well-formed Unicode.",
    "note": "Trusted: Lean kernel; axioms ⊆ {propext, Quot.sound, Classical.choice}; correspondence harness; python's json module as independent RFC 8259 reader (validation). Top-level scalars print nothing by design of Value::Stringify and are outside the quantifier (container trees).",
}

THEOREMS = [
    "Qentem.Props.JsonTables.notation_tables",
    "Qentem.Props.JsonTables.replacement_matches_escapeJson",
    "Qentem.Props.C08.stringify_eq_reference",
    "Qentem.Props.C08.escape_no_control_units",
    "Qentem.Props.C08.escape_well_escaped",
    "Qentem.Props.C08.stringify_omits_undefined",
    "Qentem.Props.C08.unescape_escape",
    "Qentem.Props.C08.roundtrip_int_linked",
    "Qentem.Json.numFmt_decimal",
    "Qentem.Json.roundtrip_int",
    "Qentem.Props.C08.roundtrip_linked",
    "Qentem.Props.C08.real_value_preserved",
    "Qentem.Props.C08.normR_is_normI_relabelled",
    "Qentem.Json.roundtrip_real",
    "Qentem.Json.linkedFmt_real17",
]
MODEL_STRINGIFY = False   # the driver's `jsstr` needs the number formatter model (C10 area)
OPEN = ["precisions other than 17 for trees with reals (fewer digits do not identify a double, so parse(stringify_p v) = v is false there by design; more digits are outside C11); non-finite doubles (Stringify writes inf/nan, which is not JSON)"]

SPECIAL_REALS = [0x0000000000000000, 0x8000000000000000, 0x3FF0000000000000, 0x0000000000000001, 0x000FFFFFFFFFFFFF, 0x0010000000000000,
                 0x7FEFFFFFFFFFFFFF, 0xFFEFFFFFFFFFFFFF, 0x3FB999999999999A, 0x4340000000000000, 0x43E0000000000000, 0x43F0000000000000,
                 0x4014000000000000, 0xC014000000000000, 0x3FE0000000000000, 0x40C5C70020C49BA6]


def gen_units(rng, wellformed, w):
    n = rng.randrange(0, 9)
    if wellformed:
        out = []
        for _ in range(n):
            r = rng.random()
            # every control character (each must come out escaped: only \b \t \n \f \r have short forms), quote, backslash
            cp = rng.choice([34, 92, 47, 0x7F] + list(range(0, 32))) if r < 0.4 else jsongen.gen_cp(rng)
            out += jsongen.encode_cp(cp, w)
        return out
    lim = {1: 256, 2: 0x10000, 4: 0x110000}[w]
    return [rng.choice([0, 1, 8, 9, 10, 11, 12, 13, 14, 0x1F, 34, 92, 47, 0x7F, 0x80, 0xFF, 0xD800 % lim, 0xDFFF % lim, rng.randrange(0, 32), rng.randrange(0, lim)]) for _ in range(n)]


def gen_tree(rng, depth, wellformed, w, top=True):
    r = rng.random()
    if top and rng.random() < 0.12:
        # the root itself is a pointer-to-value (or a chain of them): Stringify must pass the precision on
        return "*" * rng.choice([1, 1, 2]) + gen_tree(rng, depth, wellformed, w, True)
    if top or (depth > 0 and r < 0.3):
        if rng.random() < 0.5:
            return "[" + ";".join(gen_tree(rng, depth - 1, wellformed, w, False) for _ in range(rng.choice([0, 1, 2, 3, 5]))) + "]"
        ms, keys = [], set()
        for _ in range(rng.choice([0, 1, 2, 3, 4])):
            k = jsongen.dump_str(gen_units(rng, wellformed, w))
            if k in keys:
                continue
            keys.add(k)
            ms.append(k + ":" + ("X" if rng.random() < 0.12 else gen_tree(rng, depth - 1, wellformed, w, False)))
        return "{" + ";".join(ms) + "}"
    if r < 0.36:
        return "U"
    if r < 0.44:
        return "*" + gen_tree(rng, depth - 1, wellformed, w, False)
    if r < 0.52:
        return rng.choice(["N", "T", "F"])
    if r < 0.62:
        return "n%x" % rng.choice([0, 1, 9, 10, 2 ** 32, 2 ** 53 + 1, 2 ** 63, 2 ** 64 - 1, rng.randrange(0, 2 ** 64)])
    if r < 0.72:
        return "i%016x" % (rng.choice([-1, -5, -(2 ** 31), -(2 ** 63), -(2 ** 53) - 1, -rng.randrange(1, 2 ** 63)]) & (2 ** 64 - 1))
    if r < 0.86:
        x = rng.random()
        if x < 0.3:
            b = rng.choice(SPECIAL_REALS)
        elif x < 0.5:
            # the doubles adjacent to a power of two (all-ones / all-zeros significands), both signs
            b = ((rng.randrange(-70, 80) + 1023) << 52) + rng.choice([-1, 0, 1]) + (rng.choice([0, 1]) << 63)
        elif x < 0.6:
            # short decimals and integer-valued doubles (texts without a fraction, exponent texts)
            import struct as _s
            b = _s.unpack("<Q", _s.pack("<d", rng.choice([1, -1]) * rng.choice([1, 2, 3, 15, 25, 125]) * 10.0 ** rng.randrange(-30, 31)))[0]
        else:
            b = rng.randrange(0, 2 ** 64)
        if (b >> 52) & 0x7FF == 0x7FF:
            b &= ~(1 << 62)   # finite numbers only
        return "r%016x" % b
    return jsongen.dump_str(gen_units(rng, wellformed, w))


def norm_expr(e):
    """expected normalized dump of a value expression: pointers resolved, Undefined / removed
    members dropped (what Stringify is specified to emit)"""
    pos = [0]

    def val():
        c = e[pos[0]]
        if c == "*":
            pos[0] += 1
            return val()
        if c in "UNTF":
            pos[0] += 1
            return c
        if c == "X":
            pos[0] += 1
            return "U"
        if c == '"':
            j = e.index('"', pos[0] + 1)
            r = e[pos[0]:j + 1]
            pos[0] = j + 1
            return r
        if c == "[":
            pos[0] += 1
            items = []
            while e[pos[0]] != "]":
                v = val()
                if v != "U":
                    items.append(v)
                if e[pos[0]] == ";":
                    pos[0] += 1
            pos[0] += 1
            return "[" + ";".join(items) + "]"
        if c == "{":
            pos[0] += 1
            ms = []
            while e[pos[0]] != "}":
                k = val()
                pos[0] += 1  # ':'
                v = val()
                if v != "U":
                    ms.append(k + ":" + v)
                if e[pos[0]] == ";":
                    pos[0] += 1
            pos[0] += 1
            return "{" + ";".join(ms) + "}"
        j = pos[0]
        while j < len(e) and e[j] not in "[]{};:":
            j += 1
        r = e[pos[0]:j]
        pos[0] = j
        return r
    return val()


def py_to_dump(o, w):
    if o is None:
        return "N"
    if o is True:
        return "T"
    if o is False:
        return "F"
    if isinstance(o, int):
        return "n%x" % o if o >= 0 else "i%016x" % (o & (2 ** 64 - 1))
    if isinstance(o, float):
        return "r%016x" % struct.unpack("<Q", struct.pack("<d", o))[0]
    if isinstance(o, str):
        return jsongen.dump_str([u for ch in o for u in jsongen.encode_cp(ord(ch), w)])
    if isinstance(o, list):
        return "[" + ";".join(py_to_dump(x, w) for x in o) + "]"
    return "{" + ";".join(py_to_dump(k, w) + ":" + py_to_dump(v, w) for k, v in o.items()) + "}"


def decode_text(units, w):
    if w == 1:
        return bytes(units).decode("utf-8")
    if w == 2:
        return b"".join(struct.pack("<H", u) for u in units).decode("utf-16-le")
    return "".join(chr(u) for u in units)


def run(ctx):
    drv, h = _json.setup(ctx, ["Qentem.Props.C08", "Qentem.Props.JsonTables"], THEOREMS, OPEN)
    if not h:
        return
    rng = ctx.rng
    N = 20000 if not ctx.thorough else 300000
    lines, meta = [], []
    for ln in _json.corpus_lines("C08"):
        lines.append(ln); meta.append((ln.split(" ")[1], False))
    for i in range(N):
        w = rng.choice(_json.WIDTHS)
        wf = rng.random() < 0.6
        lines.append("jsrt %s 17 %s" % (w, gen_tree(rng, rng.choice([1, 2, 3, 4]), wf, _json.WNUM[w])))
        meta.append((w, wf))
    impl, faults = core.run_lines_parallel(h, lines, jobs=12)
    for i, kind, err in faults:
        ctx.fail("fault:" + kind, "sanitizer fault in Stringify/Parse on: " + lines[i][:300], {"line": lines[i], "stderr": err})
    if drv and MODEL_STRINGIFY:
        mlines = ["jsstr %s" % l[5:] for l in lines]
        model, _ = core.run_lines_parallel(drv, mlines, jobs=12, env=None)
        ctx.correspond("stringify-text", lines, [a.split(" | ")[0] for a in impl], model, nontrivial=lambda l: len(l) > 16)
    else:
        ctx.count("stringify-roundtrip", len(lines), len(set(lines)))
    rfc_checked = 0
    for l, a, (w, wf) in zip(lines, impl, meta):
        if a.startswith("FAULT") or a == "bad-expr":
            if a == "bad-expr":
                ctx.infra_errors.append("harness rejected generated expression " + l[:200])
            continue
        text, back, norm_impl, text2 = a.split(" | ")
        norm = norm_expr(l.split(" ")[3])
        if not jsongen.same_dump(back, norm, by_value=True):
            ctx.fail("roundtrip", "parse(stringify(v)) differs from v: %s : text %s parsed %s expected %s" % (l[:300], text[:200], back[:200], norm[:200]),
                     {"line": l, "text": text, "parsed": back, "expected": norm})
        elif text2 != text:
            ctx.fail("fixed-point", "stringify∘parse∘stringify is not a fixed point: %s : %s vs %s" % (l[:300], text[:200], text2[:200]), {"line": l, "text": text, "text2": text2})
        if wf and norm != "U":
            units = [int(x) for x in text.split(",")] if text != "-" else []
            try:
                obj = pyjson.loads(decode_text(units, _json.WNUM[w]))
                rfc_checked += 1
                if not jsongen.same_dump(py_to_dump(obj, _json.WNUM[w]), norm, by_value=True, real_ulp=0, negzero_is_zero=True):
                    ctx.fail("rfc-denotation", "an independent JSON reader sees a different tree: %s : %s" % (l[:300], text[:300]), {"line": l, "text": text})
            except Exception as e:
                ctx.fail("rfc-invalid", "emitted text is not RFC 8259 conformant (%s): %s : %s" % (str(e)[:80], l[:300], text[:300]), {"line": l, "text": text})
    ctx.notes.append({"rfc_reader_checked": rfc_checked})


FINISH = dict(level="proof",
              rule="random container trees built through the public Value API (depth<=4, Undefined members, pointer-to-value members incl. pointers to Undefined and pointer chains, removed members, strings over all code units or well-formed Unicode, unsigned/signed/real numbers incl. extremes, subnormals and -0), 17 digits, widths 1/2/4; non-trivial = distinct expression",
              checker_cmd="cd lean && lake build Qentem.Props.C08 && lake env lean <#print axioms>")
