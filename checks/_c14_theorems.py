"""Sequence theorems of C14 (Props/C14.lean) audited by the check."""
P = "Qentem.Props.C14."
SEQ_THEOREMS = [P + n for n in [
    "array_is_plain_sequence",
    "string_is_plain_sequence",
    "string_terminated",
    "stream_is_plain_sequence",
    "stream_policies_sound",
    "stream_is_plain_sequence_shipped",
    "stream_is_plain_sequence_exact",
    "stream_content_policy_independent",
    "view_is_plain_sequence",
    "array_appends_keep_prefix",
    "string_appends_keep_prefix",
    "stream_appends_keep_prefix",
    "array_capacity_changes_keep_content",
    "stream_capacity_changes_keep_content",
    "array_resizeInit_full",
    "stream_self_append_no_realloc",
    "isEqual_iff",
    "isLess_iff_lt",
    "isLess_orEqual_iff_le",
    "isGreater_eq_isLess_swap",
]]
