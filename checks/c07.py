"""C07 — JSON parsing is all-or-nothing: truncated or trailing input is rejected."""
from vlib import core, jsongen
from checks import _json

META = {
    "property_id": "C07",
    "technique": "Lean 4 theorem (induction over the parser's mutual recursion): result is Undefined or a complete tree followed only by whitespace; correspondence with JSON::Parse; prefix/suffix/bracket mutation oracle on the real code",
    "level": "proof",
    "design_ref": "DESIGN.md §6 C07",
    "text": "Kernel-checked for every input and every pair of sub-routines: whatever the parser model returns is either Undefined — and then the cursor is forced to the end of input, so every enclosing container fails too — or a tree that contains no Undefined member anywhere, and a tree is returned only when nothing but whitespace follows the value (parse_all_or_nothing). On every run, for generated valid container documents D the real code is run on every proper prefix of D, on D followed by non-whitespace suffixes and on D with closing brackets swapped or removed; each must be Undefined; results are also compared with the model.",
    "note": "Trusted: Lean kernel; axioms ⊆ {propext, Quot.sound, Classical.choice}; correspondence harness. 'Every proper prefix of a valid array/object document is rejected' and 'a valid document followed by a non-whitespace unit is rejected' are theorems about the model (prefix_rejected, trailing_rejected: any nesting and layout; sub-routines through the reading contracts StrSpec/NumSpec and the truncation contracts StrTrunc/NumTrunc, all four discharged for the linked UnEscape / StringToNumber models on token-sequence strings and 64-bit decimal integers: prefix_rejected_concrete, trailing_rejected_concrete). Numerals with fraction/exponent keep NumSpec/NumTrunc as hypotheses. The same statements are decided per generated document on the real code on every run.",
}

THEOREMS = [
    "Qentem.Props.JsonTables.notation_tables",
    "Qentem.Props.JsonTables.replacement_matches_escapeJson",
    "Qentem.Props.C07.parse_all_or_nothing",
    "Qentem.Props.C07.failure_forces_end_of_input",
    "Qentem.Props.C07.accepted_is_complete",
    "Qentem.Props.C07.trailing_rejected",
    "Qentem.Props.C07.trailing_rejected_container",
    "Qentem.Props.C07.prefix_rejected",
    "Qentem.Props.C07.prefix_rejected_nontoken",
    "Qentem.Props.C07.cut_value_ends_at_end",
    "Qentem.Props.C07.trunc_natural",
    "Qentem.Props.C07.trunc_negative",
    "Qentem.Props.C07.trunc_zero",
    "Qentem.Props.C07.trunc_string_body",
    "Qentem.Props.C07.concrete_wf_ts",
    "Qentem.Props.C07.prefix_rejected_concrete",
    "Qentem.Props.C07.trailing_rejected_concrete",
]

WITNESSES = ['[{"a":1,}]', '[{]]', '{"a":{"b":1,}}', '[{"a":1]]', '[[1}]', '[1,,2]', '{"a":1,}', '[1 2]', '{"a" 1}', '[tru]', '[nul]']


def run(ctx):
    drv, h = _json.setup(ctx, ["Qentem.Props.C07", "Qentem.Props.JsonTables"], THEOREMS)
    if not h:
        return
    rng = ctx.rng
    N = 500 if not ctx.thorough else 6000
    items, origin = [], []
    for s in WITNESSES:
        items.append(("1", [ord(c) for c in s])); origin.append("witness " + s)
    docs = _json.gen_docs(ctx, N, maxdepth=3)
    # strings whose body contains an escape followed by an escaped quote and then text that looks like
    # the rest of a document: a reader that ends the string early accepts a proper prefix
    for hs in (0xD83D, 0xD800, 0xDBFF, 0xDC00, 0x0041):
        for up in (False, True):
            for tail in (",1,2]", "}", "]", ':1}', ',"x":[]}'):
                body = [("u", hs, up), ("esc", '"')] + [("raw", ord(ch)) for ch in tail]
                docs.append(("arr", [("str", body), ("num", "7")]))
                docs.append(("obj", [(body, ("arr", [("null",)]))]))
    n_regular = len(docs) - 5 * 2 * 5 * 2
    for di, d in enumerate(docs):
        w = rng.choice(_json.WIDTHS)
        u = jsongen.render(d, rng, _json.WNUM[w])
        # D itself must be accepted (sanity of the generator), checked below through 'accept'; the constructed
        # documents with a lone surrogate escape are not well-formed Unicode: the reader may reject them
        items.append((w, u)); origin.append("accept" if di < n_regular else "accept-optional")
        for k in range(len(u)):
            items.append((w, u[:k])); origin.append("prefix")
        for sfx in (_json.SUFFIXES if ctx.thorough else rng.sample(_json.SUFFIXES, 8)) + _json.CONTROL_SUFFIXES + _json.wide_suffixes(rng, w, 60 if ctx.thorough else 6):
            items.append((w, u + [sfx])); origin.append("suffix")
            items.append((w, u + [32, sfx])); origin.append("suffix")
            # leading whitespace must not buy tolerance for trailing garbage
            lead = [rng.choice([32, 10, 9, 13]) for _ in range(rng.randrange(1, 6))]
            items.append((w, lead + u + [sfx])); origin.append("suffix")
            items.append((w, lead + u + [sfx] * rng.randrange(1, len(lead) + 1))); origin.append("suffix")
        # (the constructed lone-surrogate documents have no agreed reading once a bracket inside the string moves)
        closers = [i for i, x in enumerate(u) if x in (93, 125)] if di < n_regular else []
        for i in closers if ctx.thorough else closers[-6:]:
            # only brackets outside strings: rendering puts every ] } of a string body inside quotes; filter by re-checking acceptance
            v = list(u); v[i] = 93 if u[i] == 125 else 125
            items.append((w, v)); origin.append("swap")
            items.append((w, u[:i] + u[i + 1:])); origin.append("drop")
        if w != "1" and di < n_regular:
            # wide builds: a structural or whitespace unit replaced by a unit with the same low byte / low half
            # (validity of the result decided independently, as for swap/drop)
            cand = [i for i, x in enumerate(u) if x in (91, 93, 123, 125, 44, 58, 34, 32, 9, 10, 13)]
            for i in (cand if ctx.thorough else rng.sample(cand, min(4, len(cand)))):
                v = list(u); v[i] = _json.alias_unit(rng, u[i], w)
                items.append((w, v)); origin.append("swap")
    # deep documents around powers of two and the 512-level mark: D, its last prefixes, one closing bracket
    # dropped or swapped at several depths (a depth limit or a recursion guard must keep the failure protocol)
    for depth in ((2, 31, 32, 33, 255, 256, 257, 510, 511, 512, 513, 514, 515, 600) if not ctx.thorough else list(range(1, 40)) + list(range(250, 260)) + list(range(505, 521)) + [600]):
        for kind in range(3 if depth >= 2 else 2):
            if kind == 0:
                u = [91] * depth + [93] * depth
            elif kind == 1:
                u = [123, 34, 97, 34, 58] * depth + [123, 125] + [125] * depth
            else:
                u = [91] * (depth - 1) + [ord(c) for c in '[],[1,2],{}'] + [93] * (depth - 1)
            items.append(("1", u)); origin.append("accept" if depth <= 512 else "accept-optional")
            n = len(u)
            for k in (n - 1, n - 2, n - 3, n - depth, n - depth - 1):
                if 0 < k < n:
                    items.append(("1", u[:k])); origin.append("prefix")
            closers = [i for i, x in enumerate(u) if x in (93, 125)]
            for i in (closers[0], closers[len(closers) // 2], closers[-1], closers[-2] if len(closers) > 1 else closers[-1]):
                items.append(("1", u[:i] + u[i + 1:])); origin.append("drop")
                v = list(u); v[i] = 93 if u[i] == 125 else 125
                items.append(("1", v)); origin.append("swap")
            items.append(("1", u + [93])); origin.append("suffix")
            items.append(("1", u + [125])); origin.append("suffix")
    lines = _json.parse_lines(items)
    impl, model = _json.run_both(ctx, drv, h, lines, "prefix-suffix-bracket")
    import json as pyjson
    for l, a, o, (w, u) in zip(lines, impl, origin, items):
        if a.startswith("FAULT"):
            continue
        if o == "accept-optional":
            continue
        if o == "accept":
            if a == "U":
                ctx.fail("valid-rejected", "valid document rejected: " + l[:300], {"line": l})
            continue
        if o in ("swap", "drop"):
            # a bracket inside a string body is not structural: decide validity independently
            if w == "1":
                try:
                    pyjson.loads(bytes(u).decode("utf-8", "surrogatepass"))
                    continue   # still a valid document
                except Exception:
                    pass
            else:
                try:
                    txt = "".join(chr(x) for x in u) if w == "4" else bytes(b for x in u for b in (x & 255, x >> 8)).decode("utf-16-le", "surrogatepass")
                    pyjson.loads(txt)
                    continue
                except Exception:
                    pass
        if a != "U":
            key = "accepted:" + o
            if o.startswith("witness"):
                key = "accepted:witness"
            ctx.fail(key, "input that is not one complete value was accepted (%s): %s -> %s" % (o, l[:300], a[:200]), {"line": l, "impl": a, "kind": o})
    # scalar top-level documents: the general sentence of the property (outside the container quantifier)
    sc = [("1", [ord(c) for c in s]) for s in ['"abc', '"ab\\"', 'tru', 'nul', '1 2', '"a" x', 'true false', '-', '1e', '"\\u12"']]
    sl = _json.parse_lines(sc)
    si, _ = _json.run_both(ctx, drv, h, sl, "scalar-top-level")
    for l, a in zip(sl, si):
        if a != "U" and not a.startswith("FAULT"):
            key = "toplevel-unterminated-string" if l.split(" ")[2].startswith("34") else "accepted:scalar"
            ctx.fail(key, "incomplete top-level scalar accepted: %s -> %s" % (l, a), {"line": l, "impl": a})


FINISH = dict(level="proof",
              rule="for generated valid container documents D (depth<=3, all widths): every proper prefix, D + non-whitespace suffix (with and without a space; in wide builds also units whose low byte / low half is whitespace or structural), each closing bracket swapped/removed, structural units replaced by wide aliases; documents nested 2..600 deep (around 32/256/512) with last prefixes and dropped/swapped brackets; plus fixed witnesses of the repaired defect; non-trivial = distinct input",
              checker_cmd="cd lean && lake build Qentem.Props.C07 && lake env lean <#print axioms>")
