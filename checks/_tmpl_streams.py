"""Round c: generator / oracle streams added to C01, C02, C03, C04, C17 after six seeded changes that the
quick tier missed or only half-caught (seeded/C03-c2, C02-c2, C01-c1, C17-c2, C04-c1, C02-c1;
notes/design-tmpl.md, section "round c").  Every function takes the check's ctx and the built harness /
driver; the checks call them with one line each.  All random choices come from ctx.rng."""
import struct
from fractions import Fraction
from vlib import core


def U(s):
    return [ord(c) for c in s]


def dots(u):
    return ".".join(str(x) for x in u)


def txt(units):
    return "".join(chr(x) if 32 <= x < 127 else "\\u%04x" % x for x in units)


def line_text(unit_field):
    return txt([int(x) for x in unit_field.split(",")]) if unit_field not in ("-", "") else ""


SPECIALS = [0x22, 0x26, 0x27, 0x3C, 0x3E]


def wide_pool(w):
    """code units that are NOT one of the five specials but become one under some masking:
    same low byte (x + k*0x100), same low 16 bits (x + k*0x10000), high bit set (x | 0x80), low 7 bits,
    and the Unicode letters named in seeded/C02-c2 (U+0426, U+0627, U+0422, U+043C, U+043E, U+013C, U+013E)."""
    top = 0xFFFF if w == "2" else 0x7FFFFFFF if w == "W" else 0xFFFFFFFF
    pool = []
    for x in SPECIALS:
        pool += [x + 0x100, x + 0x400, x + 0x600, x + 0x2000, x + 0xFF00, x | 0x80, x + 0x80 + 0x100]
        if top > 0xFFFF:
            pool += [x + 0x10000, x + 0x100000, x + 0x10FF00, x + 0x7F000000, (x << 8), (x << 16) | 0x41]
        else:
            pool += [(x << 8) & 0xFFFF, ((x << 8) | 0x41) & 0xFFFF]
    pool += [0x3B + 0x100, 0x3B + 0x10000 if top > 0xFFFF else 0x3B + 0x300]       # ';' look-alikes
    return sorted({p for p in pool if 0x7F < p <= top and p not in SPECIALS})


ENTITIES = ["&amp;", "&lt;", "&gt;", "&quot;", "&apos;"]


def aliased_entity(rng, w):
    """an entity text (complete, or cut short) in which one or two units - a letter of the name, the '&' or the
    ';' - are replaced by a wide unit with the same low byte / low half / packed-word image (x + k*0x100,
    x + k*0x10000): not an entity, so its '&' must be escaped (seeded/C03-h1 compared a packed 3-unit word)"""
    top = 0xFFFF if w == "2" else 0x7FFFFFFF if w == "W" else 0xFFFFFFFF
    e = [ord(c) for c in rng.choice(ENTITIES)]
    if rng.random() < 0.3:
        e = e[:rng.randrange(2, len(e))]
    for _ in range(rng.choice([1, 1, 2])):
        i = rng.randrange(len(e))
        ks = [0x100, 0x300, 0x400, 0xFF00] + ([0x10000, 0x30000, 0x100000, 0x1000000] if top > 0xFFFF else [])
        v = e[i] % 0x100 + rng.choice(ks)
        if v <= top and not (0xD800 <= v <= 0xDFFF):
            e[i] = v
    return e


def wide_string(rng, w, lo=1, hi=7):
    pool = wide_pool(w)
    out = []
    for _ in range(rng.randrange(lo, hi)):
        x = rng.random()
        if x < 0.12:
            out += aliased_entity(rng, w)
        elif x < 0.55:
            out.append(rng.choice(pool))
        elif x < 0.75:
            out.append(rng.choice(SPECIALS + [0x3B]))
        elif x < 0.85:
            out += rng.choice([[38, 97, 109, 112, 59], [38, 108, 116, 59], [38, 0x126, 59], [0x126, 97, 109, 112, 59], [38, 97, 109, 112, 0x13B]])
        else:
            out.append(rng.randrange(97, 123))
    return out


# =================================================================================================
# C04 — zero divisors of every origin (seeded/C04-c1: the zero test of `/` looked at raw bits, so a Real
# -0.0 divisor divided).  Property clause: division or remainder by zero yields no value; a math tag then
# renders as its own source and a condition counts as not satisfied.

def _r(x):
    return "r%016X" % struct.unpack(">Q", struct.pack(">d", x))[0]


def c04_zero_divisors(gen):
    """stream Z: (dividend) (/|%) (a zero: literal 0, 0.0, -0, -0.0, 0e0, -0e3; a variable holding Natural 0,
    Integer 0, Real +0.0, Real -0.0, the strings "0" "-0" "0.0" "-0.0", false, null; computed 0/-5, 0*-1.5,
    0-0, -0-0, 0.0*-1, {var}/{var}, {var}*-1.5) alone and inside larger expressions.  Returns the number added."""
    from checks import c04 as C
    lit, mkvar = C.lit, C.mkvar
    zero_lits = ["0", "0.0", "-0", "-0.0", "0e0", "-0e3", "0.00", "-0.000", "0E-2", "-0E+1"]
    zero_vars = ["n0", "i0", _r(0.0), _r(-0.0), C.sspec("0"), C.sspec("-0"), C.sspec("0.0"), C.sspec("-0.0"), C.sspec("-0e2"), "f", "z"]

    def computed():
        zp, zn, m = mkvar("y", _r(0.0)), mkvar("y", "n0"), mkvar("m", "i-3")
        return [
            ("par", [lit("0"), "/", lit("-5")]), ("par", [lit("0"), "*", lit("-1.5")]), ("par", [lit("0"), "-", lit("0")]),
            ("par", [lit("-0"), "-", lit("0")]), ("par", [lit("0.0"), "*", lit("-1")]), ("par", [lit("2"), "-", lit("2")]),
            ("par", [lit("-0"), "*", lit("3")]), ("par", [lit("0"), "/", lit("3")]), ("par", [lit("-0")]), ("par", [lit("-0.0")]),
            ("par", [zp, "/", m]), ("par", [zn, "/", m]), ("par", [zp, "*", lit("-1.5")]), ("par", [zn, "*", lit("-1.5")]),
            ("par", [mkvar("y", _r(-0.0))]), ("par", [lit("0"), "*", mkvar("m", _r(-2.5))]), ("par", [lit("-2.5"), "*", lit("0")]),
            ("par", [lit("0"), "/", ("par", [lit("0"), "-", lit("4")])]),
        ]
    dividends = [lambda: lit("1"), lambda: lit("7"), lambda: lit("-3"), lambda: lit("2.5"), lambda: lit("0"), lambda: lit("-0"),
                 lambda: mkvar("a", "n12"), lambda: mkvar("a", "i-8"), lambda: mkvar("a", _r(2.5)), lambda: mkvar("a", C.sspec("12")),
                 lambda: mkvar("a", "t")]
    contexts = [
        lambda d: d,
        lambda d: [lit("1"), "+"] + d,
        lambda d: d + ["*", lit("2")],
        lambda d: d + ["<", lit("5")],
        lambda d: [("par", d), "<", lit("5")],
        lambda d: d + ["==", lit("0")],
        lambda d: d + ["||", lit("1")],
        lambda d: [lit("1"), "&&"] + d,
        lambda d: d + ["/", lit("2")],
        lambda d: [lit("8"), "-", ("par", d)],
        lambda d: [lit("2"), "^", ("par", d)],
        lambda d: [lit("3"), "*", lit("2"), "+"] + d + ["-", lit("1")],
    ]
    n0 = len(gen.exprs)
    zeros = [lambda t=t: lit(t) for t in zero_lits] + [lambda s=s: mkvar("z", s) for s in zero_vars] + \
            [lambda k=k: computed()[k] for k in range(len(computed()))]
    for zi, z in enumerate(zeros):
        for di, dv in enumerate(dividends):
            for op in ("/", "%"):
                for ci, cx in enumerate(contexts):
                    # all contexts for `/` with the first dividends; a rotating third of them elsewhere
                    if not (op == "/" and di < 3) and (zi + di + ci) % 3:
                        continue
                    gen.add_seq("Z", cx([dv(), op, z()]), check=False, plain=(ci % 2 == 0))
    return len(gen.exprs) - n0


def c04_zero_divisor_oracle(ctx, exprs, meta, lines, impl, model, units_of, split_model):
    """S3 for stream Z, on the implementation output of all three entry points.  By construction a divisor is
    zero; the Lean model (driver, same line) must agree that the expression has no value; then the real code
    must answer: ParseExpressions+Evaluate -> no value; {math:} -> its own source; <if case> -> the else part."""
    n, model_has_value, bad = 0, [], 0
    for i, (k, mode) in enumerate(meta):
        e = exprs[k]
        if e["stream"] != "Z" or impl[i].startswith("FAULT"):
            continue
        desc, truth, flags = split_model(model[i])
        if desc != "NE":
            model_has_value.append((lines[i], model[i]))
            continue
        n += 1
        if mode == "p":
            want = "NE 0"
        elif mode == "m":
            want = "M " + units_of("{math:" + e["text"] + "}")
        else:
            want = "I 70"
        if impl[i] != want:
            bad += 1
            got = impl[i] if mode == "p" else repr(line_text(impl[i][2:]))
            ctx.fail("oracle:zero-divisor-has-value",
                     "division / remainder by a zero must yield no value (%s): %r (vars %s) -> %s" % (
                         {"p": "Evaluate must fail", "m": "{math:} must render as its own source", "i": "<if case> must take the else part"}[mode],
                         e["text"], e["vars"], got),
                     {"line": lines[i], "text": e["text"], "vars": e["vars"], "mode": mode, "impl_output": impl[i],
                      "expected": want, "lean_model": model[i]})
    ctx.count("S3-zero-divisor-no-value (Z stream, 3 entry points)", n, n,
              sample={"stream": "S3-zero-divisor", "cases": n, "failures": bad})
    if model_has_value:
        ctx.corr_broken.append({"stream": "Z: the Lean model gives a value although a divisor is zero by construction", "count": len(model_has_value),
                                "examples": [{"input": l, "impl": "", "model": m} for l, m in model_has_value[:5]]})


# =================================================================================================
# C01 — unresolved {var:…} whose name holds '&' / partial entities, as the LAST thing of an exact-size
# template buffer (seeded/C01-c1: the escaper's entity look-ahead bound `>` became `>=`).

AMP_NAMES = ["n&ame", "n&me", "n&e", "n&", "&", "&a", "&am", "&amp", "&amp;", "&lt", "&lt;", "&gt", "&g", "&l", "&quo", "&quot", "&quot;", "&apo", "&apos",
             "&apos;", "&&", "&&&", "&&&&", "&&&&&", "&&&&&&", "a&b", "ab&", "a&bc", "a&bcd", "a&bcde", "a&bcdef", "&;", "&a;", "&ab;", "&abc;", "&abcd;",
             "&abcde;", "&lt&", "&lt;&", "&amp&", "&amp;&", "&am&", "<", ">", "\"", "'", "<&", "&<", "a<b&c", "x&y;z", "&#38;", "&#x26;", "&a&m&p",
             "&amp;amp", "&quot&apos", "q&quo", "q&quot", "q&apos", "zz&lt", "zz&gt", "zz&am", "zz&a", "zz&amp"]


def c01_tail_echo(ctx):
    """[(w, doc code, units)]: templates whose last tag is an unresolved {var:NAME} ending exactly at the end of
    the buffer; NAME from AMP_NAMES and random strings over & ; a m p l t g q u o s # < > " ' ; alone, after
    text, after other tags, inside the last position of a loop / if / inline-if / svar; all four widths; docs
    in which NAME is missing or is not printable (array / object: no loop key)."""
    from checks import c01 as C
    rng = ctx.rng
    names = [U(n) for n in AMP_NAMES]
    alpha = U("&&&;amplgtquos#<>\"'x")
    for _ in range(150 if not ctx.thorough else 1500):
        names.append([rng.choice(alpha) for _ in range(rng.randrange(1, 9))])
    docs = [("o", []), ("o", [(U("a"), ("n", 5)), (U("l"), ("a", [("n", 1), ("n", 2)])), (U("ph"), ("s", U("{0}")))]), ("a", [("n", 1)]), ("n", 3)]
    prefixes = ["", "x", "text &amp; ", "{var:a}", "{raw:zz}", "{math:1+1}", "<if case=\"1\">y</if>", "<loop set=\"l\" value=\"v\">{var:v}</loop>", "&", "&am"]
    wrappers = [("", ""), ("<if case=\"1\">", ""), ("<loop set=\"l\" value=\"v\">", ""), ("<if case=\"0\">n<else />", ""),
                ("<loop set=\"l\" value=\"v\"><if case=\"1\">", "")]
    closed = [("<if case=\"1\">", "</if>"), ("<loop set=\"l\" value=\"v\">", "</loop>"), ("{if case=\"1\" true=\"", "\"}"), ("{svar:ph, ", "}"),
              ("{if case=\"0\" true=\"t\" false=\"", "\"}")]
    out = []
    for k, nm in enumerate(names):
        if any(x in (123, 125) for x in nm):
            continue
        tag = U("{var:") + nm + [125]
        for j, w in enumerate(("1", "2", "4", "W")):
            d = docs[(k + j) % len(docs)]
            # NAME bound to an unprintable value as well (echo through the same fallback)
            d2 = ("o", [(nm, ("a", [("n", 1)]))]) if not any(x in (91, 93) for x in nm) else d
            pre = prefixes[(k + 3 * j) % len(prefixes)]
            wr = wrappers[(k + j) % len(wrappers)]
            out.append((w, C.enc(d), tag))
            out.append((w, C.enc(d2), U(pre) + tag))
            out.append((w, C.enc(d), U(pre + wr[0]) + tag))
            cl = closed[(k + j) % len(closed)]
            if not (34 in nm and cl[0].startswith("{if")):
                out.append((w, C.enc(docs[1]), U(pre + cl[0]) + tag + U(cl[1])))     # the tag is last inside a closed container
            # the same name, not at the end (control) and as {raw:} at the end
            if k % 4 == j:
                out.append((w, C.enc(d), tag + U("z")))
                out.append((w, C.enc(d), U("{raw:") + nm + [125]))
    # wide look-alikes of '&' and ';' in the name (widths 2/4/W)
    for _ in range(200 if not ctx.thorough else 2000):
        w = rng.choice("24W")
        nm = [x for x in wide_string(rng, w, 1, 8) if x not in (123, 125, 91, 93, 0)]
        if nm:
            out.append((w, C.enc(docs[0]), U(rng.choice(prefixes)) + U("{var:") + nm + [125]))
    return out


# =================================================================================================
# C03 — print paths through COPIES of the parsed tag array (seeded/C03-c2: the TagBit copy constructor turned
# RawVariable into Variable), nested raw/var positions, and non-Latin-1 units on every path (seeded/C02-c2).

C03_MODES = ["var", "ptr", "ptr2", "ptr3", "rawptr2", "loopptr2", "svarptr2", "iifptr2", "arr", "loopval", "loopkey", "echo", "raw", "rawptr", "svar", "svarb",
             "rawloop", "rawif", "rawelse", "rawiif", "rawiiff", "rawsvar", "varif", "variif"]
C03_OLD = {"var", "ptr", "arr", "loopval", "loopkey", "echo", "raw", "rawptr", "svar", "svarb"}
C03_RAW = {"raw", "rawptr", "rawptr2", "rawloop", "rawif", "rawelse", "rawiif", "rawiiff", "rawsvar"}


def _c03_expect(mode, u):
    if mode == "echo":
        return ("esc", [[123, 118, 97, 114, 58] + u + [125]])
    if mode in C03_RAW:
        return ("id", [u])
    if mode == "svar":
        return ("esc", [u, u])
    if mode == "svarb":
        return ("esc", [[123] + u + [125], u])
    return ("esc", [u])


def _c03_mode_ok(mode, u):
    if mode == "loopkey" and not u:
        return False
    if mode == "echo" and any(x in (123, 125, 91, 93, 0) for x in u):
        return False
    if mode == "svarb" and (any(x in (123, 125) for x in u) or (len(u) == 1 and 48 <= u[0] <= 57)):
        return False
    return True


def c03_round_c(ctx, drv, h_on, h_off, inputs):
    """`tplc` (copy-constructed + copy-assigned tag array) for every mode, `tpl` for the nested modes, and wide
    strings (widths 2/4/W) through `tpl` and `tplc` for every mode; expected text from the Lean escaper model."""
    rng = ctx.rng
    pool = [u for u in inputs if len(u) <= 10]
    base = rng.sample(pool, min(len(pool), 500 if not ctx.thorough else 8000))
    base += [[38], [60], [62], [34], [39], [60, 98, 62, 38, 39, 34], [38, 97, 109, 112, 59], [38, 97, 109, 112], [60, 38], []]
    for auto, exe in ((1, h_on), (0, h_off)):
        lines, exp_src = [], []
        src = base if auto == 1 else base[::4]
        for k, u in enumerate(src):
            w = ("1", "2", "4", "W")[k % 4]
            for m in C03_MODES:
                if not _c03_mode_ok(m, u):
                    continue
                ops = ["tplc"] if m in C03_OLD else ["tpl", "tplc"]
                for op in ops:
                    lines.append("%s %d %s %s %s" % (op, auto, w, m, core.show_units(u)))
                    exp_src.append(_c03_expect(m, u))
        nwide = (1200 if not ctx.thorough else 12000) // (1 if auto == 1 else 4)
        for k in range(nwide):
            w = ("2", "4", "W")[k % 3]
            u = wide_string(rng, w, 1, 8)
            for m in C03_MODES:
                if not _c03_mode_ok(m, u):
                    continue
                op = "tplc" if (k + len(m)) % 3 == 0 else "tpl"
                lines.append("%s %d %s %s %s" % (op, auto, w, m, core.show_units(u)))
                exp_src.append(_c03_expect(m, u))
        impl, faults = core.run_lines_parallel(exe, lines, jobs=12)
        for i, kind, err in faults:
            ctx.fail("fault:" + kind, "sanitizer fault while rendering " + lines[i], {"line": lines[i], "stderr": err})
        mlines, owner = [], []
        for i, (kind, parts) in enumerate(exp_src):
            for pt in parts:
                mlines.append("esc %d 1 %s" % (auto if kind == "esc" else 0, core.show_units(pt)))
                owner.append(i)
        mout, _ = core.run_lines_parallel(drv, mlines, jobs=12, env=None)
        pieces = [[] for _ in lines]
        for o, out in zip(owner, mout):
            pieces[o] += [] if out == "-" else out.split(",")
        model = [",".join(p) if p else "-" for p in pieces]
        bad = ctx.correspond("template-print-paths: copied tag arrays, nested positions, wide units (auto=%d)" % auto, lines, impl, model,
                             nontrivial=lambda l: True)
        olines, idx = [], []
        for i in bad:
            if impl[i].startswith("FAULT"):
                continue
            kind, parts = exp_src[i]
            copied = lines[i].startswith("tplc")
            if kind == "id" or auto == 0:
                ctx.fail("not-verbatim", "text that must be emitted unchanged was altered%s: %s -> %s" % (
                    " (render through a COPY of the parsed tag array)" if copied else "", lines[i], impl[i]), {"line": lines[i], "impl_output": impl[i], "expected": model[i]})
            elif len(parts) == 1:
                olines.append("escoracle 1 1 %s %s" % (core.show_units(parts[0]), impl[i]))
                idx.append(i)
            else:
                ctx.fail("oracle:svar", "super-variable output differs from the escaped phrase and value: %s -> %s" % (lines[i], impl[i]), {"line": lines[i], "impl_output": impl[i], "expected": model[i]})
        if olines:
            verdicts, _ = core.run_lines_parallel(drv, olines, jobs=4, env=None)
            for j, v in enumerate(verdicts):
                i = idx[j]
                if v != "ok":
                    ctx.fail("oracle:" + v, "C03 predicate '%s' fails on rendered output: %s -> %s" % (v, lines[i], impl[i]), {"line": lines[i], "impl_output": impl[i], "predicate": v})


# =================================================================================================
# C02

def c02_wide_escape_case(rng, w, enc):
    """(doc, tokens of the tplspec code): non-Latin-1 units that become a special under a mask, on every escaped
    path: value of {var:}, loop key (item not printable), unresolved {var:<wide name>} echoed verbatim, svar
    phrase text and svar sub-variable, next to {raw:} of the same strings."""
    def clean(u, extra=()):
        return [x for x in u if x not in (123, 125, 91, 93, 0, 44, 34, 61) and x not in extra] or [0x126]
    s1, s2, s3 = wide_string(rng, w, 1, 7), wide_string(rng, w, 1, 6), wide_string(rng, w, 1, 6)
    key1, key2 = clean(wide_string(rng, w, 1, 5)), clean(wide_string(rng, w, 1, 5))
    if key1 == key2:
        key2 = key2 + [0x13C]
    missing = clean(wide_string(rng, w, 1, 6))
    phrase = [x for x in wide_string(rng, w, 1, 5) if x not in (123, 125)] + U("{0}") + [x for x in wide_string(rng, w, 0, 4) if x not in (123, 125)] + U("{1}")
    doc = ("o", [(U("a"), ("s", s1)), (U("b"), ("s", s2)), (U("ph"), ("s", phrase)),
                 (U("o"), ("o", [(key1, ("a", [("n", 1)])), (key2, ("s", s3))])),
                 (U("l"), ("a", [("s", s2), ("s", s3)]))])
    toks = []
    pieces = [
        ["v" + dots(U("a"))], ["r" + dots(U("a"))], ["v" + dots(U("b"))],
        ["v" + dots(missing)],                                              # unresolved: reproduced verbatim
        ["r" + dots(missing)],
        ["l%s:%s:2" % (dots(U("o")), dots(U("X1"))), "v" + dots(U("X1")), "x" + dots(U(";"))],    # loop key of an unprintable item / value
        ["l%s:%s:2" % (dots(U("l")), dots(U("X1"))), "v" + dots(U("X1")), "r" + dots(U("X1"))],
        ["s%s:2" % dots(U("ph")), "v" + dots(U("a")), "r" + dots(U("b"))],
        ["s%s:2" % dots(U("ph")), "v" + dots(missing), "v" + dots(U("b"))],
        ["q%s:1:1" % dots(U("1")), "v" + dots(U("b")), "x" + dots(U("n"))],
        ["i1", "c" + dots(U("1")), "b1", "v" + dots(U("a"))],
    ]
    for p in rng.sample(pieces, rng.randrange(2, 6)):
        toks += p
        if rng.random() < 0.5:
            toks.append("x" + dots(U(rng.choice(["|", " ", "-"]))))
    return doc, toks


def c02_copies(ctx, exe, lines, expected, every=9):
    """the documented expansion must also come out when the render goes through a copy-constructed /
    copy-assigned copy of the parsed tag array (harness op tplrendercopy)."""
    sel = [i for i in range(len(lines)) if i % every == 0]
    cl = [lines[i].replace("tplrender", "tplrendercopy", 1) for i in sel]
    impl, faults = core.run_lines_parallel(exe, cl, jobs=12)
    for i, kind, err in faults:
        ctx.fail("fault:" + kind, "sanitizer fault rendering through a copy of the parsed tags: " + cl[i][:300], {"line": cl[i], "stderr": err})
    n = 0
    for j, i in enumerate(sel):
        if impl[j] != expected[i] and not impl[j].startswith("FAULT"):
            n += 1
            if n <= 200:
                t = cl[j].split(" ")
                ctx.fail("expansion-differs-through-copied-tags", "render through a copy of the parsed tag array != documented expansion: template %r value %s: real %r expected %r" % (
                    line_text(t[3]), t[2][:200], line_text(impl[j][2:]), line_text(expected[i][2:])), {"line": cl[j], "impl": impl[j], "expected": expected[i]})
    ctx.count("documented-expansion-through-copied-tags", len(cl), len(set(cl)))


GROUP_KEYS = ["k", "year", "g"]
MEMBER_KEYS = ["p", "q", "m", "id", "n"]


def _group_case(rng, enc):
    """value: {"d": [objects with the grouping member at different positions / extra members in front]} ;
    template tokens with the placeholder set G9 (rewritten to set="d" group="<key>" in the printed text)."""
    gk = rng.choice(GROUP_KEYS)
    gvals = rng.choice([
        [("n", 2019), ("n", 2020), ("n", 7)], [("s", U("x")), ("s", U("y")), ("s", U("<z>"))],
        [("i", -1), ("n", 1), ("s", U("1"))], [("t",), ("f",), ("z",)], [("s", U("a b")), ("s", U("&")), ("n", 0)]])
    others = rng.sample(MEMBER_KEYS, rng.randrange(1, 4))
    items = []
    n = rng.randrange(2, 7)
    for i in range(n):
        ms = [(U(o), rng.choice([("n", rng.randrange(0, 30)), ("s", U(rng.choice(["u", "v&", "w"]))), ("i", -rng.randrange(1, 9))])) for o in others if rng.random() < 0.85]
        if rng.random() < 0.3:
            ms.append((U(rng.choice(["zz", "e1", "e2"])), ("n", rng.randrange(0, 9))))
        # (no undefined members here: the doc code's `u` member is a LIVE member without a value, for which GroupBy
        # answers false by design - pinned by Tests/ValueTest.hpp, modelled in Model/Group.lean - not a removed one)
        rng.shuffle(ms)
        pos = rng.randrange(0, len(ms) + 1)       # the grouping member at ANY position
        ms.insert(pos, (U(gk), rng.choice(gvals)))
        items.append(("o", ms))
    extra = [(U("a"), ("n", rng.randrange(0, 9))), (U("b"), ("s", U(rng.choice(["B", "<b>", ""]))))]
    doc_members = [(U("d"), ("a", items))] + extra
    rng.shuffle(doc_members)
    # body: the group name (loop key rule), then the items of the group
    def member_ref(var):
        o = rng.choice(others + ["zz", gk])
        return rng.choice(["v", "v", "r"]) + dots(U("%s[%s]" % (var, o)))
    inner_body = [member_ref("X2") for _ in range(rng.randrange(1, 4))]
    if rng.random() < 0.3:
        inner_body.append("v" + dots(U("a")))
    inner_body.insert(0, "x" + dots(U("[")))
    inner_body.append("x" + dots(U("]")))
    inner = ["l%s:%s:%d" % (dots(U("X1")), dots(U("X2")), len(inner_body))] + inner_body
    outer_body = ["v" + dots(U("X1")), "x" + dots(U("="))] + inner + ["x" + dots(U(";"))]
    cnt = 4
    if rng.random() < 0.3:
        outer_body.append("v" + dots(U("X1[0][%s]" % rng.choice(others))))
        cnt += 1
    if rng.random() < 0.2:
        outer_body.append("r" + dots(U("X1[1][%s]" % gk)))   # the grouping member was dropped: unresolved
        cnt += 1
    toks = ["l%s:%s:%d" % (dots(U("G9")), dots(U("X1")), cnt)] + outer_body
    if rng.random() < 0.5:
        toks = ["v" + dots(U("a"))] + toks + ["x" + dots(U("|")), "v" + dots(U("b"))]
    return ("o", doc_members), ("a", items), gk, toks


def _subst(units, old, new):
    out, i, n = [], 0, len(old)
    hit = 0
    while i < len(units):
        if units[i:i + n] == old:
            out += new
            i += n
            hit += 1
        else:
            out.append(units[i])
            i += 1
    return out, hit


def c02_group(ctx, drv, exe, enc):
    """<loop set="d" group="k" value="X1"> on arrays of objects whose members are in different orders / have extra
    members before the grouping key (seeded/C02-c1: GroupBy by position).  Reference: the Lean grouping
    specification (driver op tplgroup = groupDocSpec, by member name) + the reference expansion (tplspec) of the
    same template looping over the grouped value."""
    rng = ctx.rng
    N = 1500 if not ctx.thorough else 15000
    cases = [_group_case(rng, enc) for _ in range(N)]
    glines = ["tplgroup 1 %s %s" % (enc(items), core.show_units(U(gk))) for (_, items, gk, _) in cases]
    gout, _ = core.run_lines_parallel(drv, glines, jobs=12, env=None)
    spec_lines, keep = [], []
    for (doc, items, gk, toks), g in zip(cases, gout):
        if not g.startswith("G ") or g == "G none":
            continue
        d2 = enc(doc) .split(",")
        # D' = D + {G9: grouped}: bump the member count of the root object
        assert d2[0].startswith("o")
        d2[0] = "o%d" % (int(d2[0][1:]) + 1)
        spec_lines.append("tplspec 1 %s,k%s,%s %s" % (",".join(d2), dots(U("G9")), g[2:], ",".join(toks)))
        keep.append((doc, gk))
    sout, _ = core.run_lines_parallel(drv, spec_lines, jobs=12, env=None)
    lines, expected = [], []
    skipped = 0
    for (doc, gk), sl, o in zip(keep, spec_lines, sout):
        t = o.split(" ")
        if len(t) != 4 or t[0] != "P" or t[2] != "E":
            skipped += 1
            continue
        units = [int(x) for x in t[1].split(",")]
        q = rng.choice(['"', "'"])
        atts = ['set=%s%s%s' % (q, "d", q), 'group=%s%s%s' % (q, gk, q)]
        rng.shuffle(atts)
        val = 'value="X1"'
        order = rng.randrange(3)
        new = " ".join([val] + atts if order == 0 else atts + [val] if order == 1 else [atts[0], val, atts[1]])
        units, hit = _subst(units, U('set="G9" value="X1"'), U(new))
        if hit != 1:
            skipped += 1
            continue
        w = rng.choice("1111124W")
        lines.append("tplrender %s %s %s" % (w, enc(doc), core.show_units(units)))
        expected.append("R " + t[3])
    if skipped or len(lines) < N // 2:
        ctx.infra_errors.append("group stream: %d of %d cases could not be prepared (driver tplgroup/tplspec protocol)" % (N - len(lines), N))
    impl, faults = core.run_lines_parallel(exe, lines, jobs=12)
    for i, kind, err in faults:
        ctx.fail("fault:" + kind, "sanitizer fault rendering a grouped loop: " + lines[i][:300], {"line": lines[i], "stderr": err})
    nbad = 0
    for i in range(len(lines)):
        if impl[i] != expected[i] and not impl[i].startswith("FAULT"):
            nbad += 1
            if nbad <= 100:
                t = lines[i].split(" ")
                ctx.fail("group-expansion-differs", "render of <loop group=> != documented expansion (grouping by member NAME): template %r value %s: real %r expected %r" % (
                    line_text(t[3]), t[2][:300], line_text(impl[i][2:]), line_text(expected[i][2:])), {"line": lines[i], "impl": impl[i], "expected": expected[i]})
    ctx.count("documented-expansion-of-group-loops", len(lines), len(set(lines)),
              sample={"stream": "group", "input": lines[0][:300] if lines else "", "impl": impl[0][:200] if lines else "", "expected": expected[0][:200] if lines else ""})
    ctx.notes.append("group loops: %d cases, %d mismatches" % (len(lines), nbad))


# =================================================================================================
# C17

def carry_reals(rng, precision):
    """doubles whose rounding at `precision` fraction digits carries out of the top digit (0.007 -> 0.01, 0.0096,
    9.996 -> 10, 99.999 -> 100), neighbours that do not, both signs"""
    out = []
    p = precision
    for k in range(-(p + 1), 5):                     # decade of the result 10^k
        top = Fraction(10) ** k
        ulp = Fraction(10) ** (-p)
        for eps in (Fraction(1, 10), Fraction(4, 10), Fraction(1, 2), Fraction(3, 10), Fraction(49, 100), Fraction(6, 10), Fraction(1)):
            out.append(float(top - ulp * eps))       # just below 10^k: rounds up into the next decade when eps <= 1/2
        out.append(float(top))
    out += [0.007, 0.0096, 0.005, 0.0051, 0.00999, 0.0099, 0.0049, 0.004, 9.996, 9.995, 9.9951, 99.999, 99.995, 999.996, 0.996, 0.995,
            0.9951, 0.95, 0.096, 0.5, 1.5, 12.125, 0.25, 3.0, 1e-7, 5e-324, 0.1, 0.01, 0.001, 1e15 - 0.004, 123456.995, 0.0, 65535.996]
    for _ in range(40):
        e = rng.randrange(-p - 2, 6)
        nines = rng.randrange(p + 2, p + 6)
        out.append(float(Fraction(10) ** e - Fraction(rng.randrange(1, 60), 10 ** nines)))
    out += [-x for x in out if x != 0.0][::2]
    return out


def template_precision():
    import os
    import re
    try:
        src = open(os.path.join(core.LEAN_DIR, "Qentem", "Generated", "Tmpl.lean")).read()
        m = re.search(r"def templatePrecision : Nat := (\d+)", src)
        return int(m.group(1)) if m else 2
    except OSError:
        return 2


def c17_round_c(ctx, exe, cache_lines):
    """(1) tplcopy: render through copy-constructed / copy-assigned / appended copies of the parsed tag array
    (the original destroyed) = fresh render, tag dumps equal; on the C17 cases and on raw-heavy templates.
    (2) tplappend: one cache, several values in turn, many consecutive renders appended to ONE stream, for every
    pre-existing stream length 0..64; values include reals whose rounding carries out of the top digit."""
    rng = ctx.rng
    from checks import c02 as G
    # ---- (1) ----
    copy_lines = [l.replace("tplcache", "tplcopy", 1) for l in cache_lines[::3]]
    raw_docs = [("o", [(U("x"), ("s", U(s))), (U("l"), ("a", [("s", U(s)), ("s", U("&amp;<"))])), (U("p"), ("s", U("{0}|{1}"))),
                       (U("o"), ("o", [(U("<k>"), ("a", [("n", 1)])), (U("q"), ("s", U(s)))]))])
                for s in ["<b>\"Tom\" & 'Jerry'</b>", "&", "<", "a>b", "'", "\"", "plain", "&amp;", ""]]
    raw_tmpls = ["{raw:x}", "{var:x}{raw:x}", "<loop set=\"l\" value=\"v\">{raw:v}|{var:v}</loop>", "<if case=\"1\">{raw:x}<else />{var:x}</if>",
                 "<if case=\"0\">{var:x}<elseif case=\"1\" />{raw:x}</if>", "{if case=\"1\" true=\"{raw:x}\" false=\"{var:x}\"}",
                 "{if case=\"0\" true=\"{var:x}\" false=\"{raw:x}\"}", "{svar:p, {raw:x}, {var:x}}", "{svar:p, {var:x}, {raw:x}}",
                 "<loop set=\"o\" value=\"v\">{raw:v}{var:v}</loop>", "<loop set=\"l\" value=\"v\"><if case=\"1\">{if case=\"1\" true=\"{raw:v}\"}{svar:p, {raw:v}, {raw:x}}</if></loop>",
                 "{raw:zz}{raw:x[0]}{math:1+1}{raw:l[1]}"]
    for d in raw_docs:
        for t in raw_tmpls:
            for w in ("1", "2") if len(copy_lines) % 3 == 0 else ("1",):
                copy_lines.append("tplcopy %s %s %s" % (w, G.enc(d), core.show_units(U(t))))
            copy_lines.append("tplcopy 4 %s %s" % (G.enc(d), core.show_units(U(t))))
    # ---- (2) ----
    prec = template_precision()
    reals = carry_reals(rng, prec)

    def rdoc(x):
        return ("r", x)

    def enc(doc):
        if doc[0] == "r":
            return _r(doc[1])
        if doc[0] == "a":
            return ",".join(["a%d" % len(doc[1])] + [enc(d) for d in doc[1]])
        if doc[0] == "o":
            return ",".join(["o%d" % len(doc[1])] + ["k" + dots(key) + "," + enc(d) for key, d in doc[1]])
        return G.enc(doc)
    app_tmpls = ["{var:n}", "<i>{var:n}</i>", "{raw:n}", "{math:{var:n}*1}", "{math:{var:n}+0.0}", "{var:n}{var:m}", "{var:s}{var:n}",
                 "<loop set=\"l\" value=\"v\">{var:v},</loop>", "{svar:p, {var:n}, {raw:m}}", "{if case=\"1\" true=\"{var:n}\" false=\"x\"}",
                 "<if case=\"{var:n} < 100000\">{var:n}<else />{raw:m}</if>", "{math:{var:n}/1}", "{var:l[0]}{var:l[1]}", "x{var:n}y", "{var:n} {math: 2 * {var:m}}"]
    app_lines = []
    n_app = 260 if not ctx.thorough else 2600
    for k in range(n_app):
        nv = rng.choice([1, 2, 3, 6])
        vals = []
        for _ in range(nv):
            vals.append(("o", [(U("n"), rdoc(rng.choice(reals))), (U("m"), rdoc(rng.choice(reals))),
                               (U("s"), ("s", U(rng.choice(["", "a", "abc", "<&>", "0123456789abcdef"])))), (U("p"), ("s", U("{0}/{1}"))),
                               (U("l"), ("a", [rdoc(rng.choice(reals)) for _ in range(rng.randrange(1, 4))]))]))
        t = app_tmpls[k % len(app_tmpls)]
        w = "1" if k % 5 else rng.choice("24W")
        app_lines.append("tplappend %s %s %s" % (w, enc(("a", vals)), core.show_units(U(t))))
    # every carry-class real once on its own, simplest template
    for x in reals:
        app_lines.append("tplappend 1 %s %s" % (enc(("o", [(U("n"), rdoc(x))])), core.show_units(U("{var:n}"))))
    # and the generated C17 cases (no reals) into pre-filled streams
    app_lines += [l.replace("tplcache", "tplappend", 1) for l in cache_lines[::40]]
    allx = copy_lines + app_lines
    impl, faults = core.run_lines_parallel(exe, allx, jobs=12)
    for i, kind, err in faults:
        what = "render through copies of the parsed tag array" if allx[i].startswith("tplcopy") else \
            "consecutive renders appended to one stream with pre-existing content (0..64 units)"
        ctx.fail("fault:" + kind, "sanitizer fault in %s: %s" % (what, allx[i][:300]), {"line": allx[i], "stderr": err})
    for l, o in zip(allx, impl):
        if o.startswith("FAULT") or o in ("K same", "A same"):
            continue
        if o.startswith("K"):
            key = "copied-tags-render-differs" if o.startswith("K diff") else "copied-tags-differ"
            ctx.fail(key, "a copy of the parsed tag array does not render / dump like the original: %s -> %s" % (l[:300], o[:400]), {"line": l, "impl": o})
        elif o.startswith("A"):
            key = "value-changed" if "value-changed" in o else "tags-changed" if "tags-changed" in o else "appended-render-differs"
            ctx.fail(key, "renders appended to one stream != <old content> + <fresh renders>: %s -> %s" % (l[:300], o[:300]), {"line": l, "impl": o})
        else:
            ctx.fail("harness-protocol", "unexpected answer %s to %s" % (o[:100], l[:200]), {"line": l, "impl": o})
    ctx.count("copies-of-the-parsed-tag-array (constructed, assigned, appended)", len(copy_lines), len(set(copy_lines)))
    ctx.count("appended-renders (pre-existing length 0..64, several values through one cache, carry-out reals)", len(app_lines), len(set(app_lines)),
              sample={"stream": "append", "input": app_lines[0][:300], "impl": impl[len(copy_lines)] if app_lines else ""})


# =================================================================================================
# C04, round e — comparisons of whole numbers above 2^53 across number kinds (seeded/C04-e2: the comparison
# operators converted Natural-vs-Integer operands to double, so two whole numbers closer than one double ulp
# compared equal).  Deterministic stream H + exact oracle on all entry points.

P53, P62, P63, P64 = 1 << 53, 1 << 62, 1 << 63, 1 << 64
CMP_OPS = ["==", "!=", "<", "<=", ">", ">="]


def _cmp(op, a, b):
    return {"==": a == b, "!=": a != b, "<": a < b, "<=": a <= b, ">": a > b, ">=": a >= b}[op]


def _producers(v, side):
    """ways to obtain the whole number v as an operand: {kind: [(text, vars)]}; kind n = Natural (unsigned),
    i = Integer (signed; only for v < 2^63), r = Real (only when v is exactly a double).  `side` names the variable."""
    a = side
    out = {"n": [], "i": [], "r": []}
    out["n"].append((str(v), {}))                                            # unsigned literal
    out["n"].append(("{var:%s}" % a, {a: "n%d" % v}))                        # unsigned variable
    if v + 1 < P64:
        out["n"].append(("(%d - 1)" % (v + 1), {}))                          # Natural - Natural (no borrow) stays Natural
    if v >= 1:
        out["n"].append(("({var:%s} + 1)" % a, {a: "n%d" % (v - 1)}))
    if v < P63:
        out["i"].append(("{var:%s}" % a, {a: "i%d" % v}))                    # signed variable (IntLong)
        out["i"].append(("(-1 + %d)" % (v + 1), {}))                         # a negative literal took part
        out["i"].append(("(0 - -%d)" % v, {}))                               # minus a negative literal
        out["i"].append(("(1 - 2 + %d)" % (v + 1), {}))                      # a natural difference below zero took part
        if v >= 1:
            out["i"].append(("({var:%s} + 1)" % a, {a: "i%d" % (v - 1)}))
        if v >= 1:
            out["i"].append(("({var:%s} - -1)" % a, {a: "n%d" % (v - 1)}))
    if float(v) == v and int(float(v)) == v:
        out["r"].append(("{var:%s}" % a, {a: _r(float(v))}))                 # a double variable holding exactly v
        out["r"].append(("({var:%s} * 1.0)" % a, {a: "n%d" % v}))            # Natural promoted to Real by the operation
        if v < P63:
            out["r"].append(("({var:%s} + 0.0)" % a, {a: "i%d" % v}))
    return out


def _vars(*ds):
    d = {}
    for x in ds:
        d.update(x)
    return ";".join("%s=%s" % kv for kv in sorted(d.items())) if d else "-"


# The unchanged code reads a Natural operand through the SIGNED member of the number union whenever it stands next
# to an integral operand, and also when it is the RIGHT operand of a Real (QExpression.hpp, the six comparison
# operators; notes/design-expr.md "Natural operands >= 2^63").  Such results are recorded, not judged, until the
# repair proposed in notes/fix-expr-natural-above-int63-compare.diff is in the tree; then make this True
# (C04_NAT63_JUDGED=1 in the environment turns it on for a trial run against a patched copy).
import os as _os
NAT63_JUDGED = _os.environ.get("C04_NAT63_JUDGED", "1") == "1"   # judged; failures of this class carry their own key (recorded finding)


def _expect(ka, a, kb, b, op):
    """(truth or None, class) of `a op b`, a the LEFT operand: the documented arithmetic.  Two integral operands:
    exact comparison of the whole numbers (= unsigned -> signed promotion without loss whenever every Natural is
    below 2^63).  With a Real operand the other side is promoted to Real (nearest double) and two doubles are
    compared.  Class nat63 (see NAT63_JUDGED): a Natural >= 2^63 next to an integral operand or right of a Real."""
    if ka == "r" or kb == "r":
        truth = _cmp(op, float(a), float(b))
        if ka == "r" and kb == "n" and b >= P63:
            return (truth if NAT63_JUDGED else None), "nat63"
        return truth, "real"
    truth = _cmp(op, a, b)
    if (ka == "n" and a >= P63) or (kb == "n" and b >= P63):
        return (truth if NAT63_JUDGED else None), "nat63"
    return truth, "int"


def c04_huge_compare(gen):
    """stream H.  Fills gen.huge: (text, vars) -> (truth 0/1 or None, class, exact truth).  Returns the count."""
    rng = gen.rng
    base = [P53 - 1, P53, P53 + 1, P53 + 2, P62, P63 - 1, P63, P63 + 1, P64 - 1]
    rnd = [rng.randrange(P53, P62) for _ in range(5)] + [rng.randrange(P62, P63 - 4) for _ in range(4)] + [rng.randrange(P63, P64 - 4) for _ in range(3)]
    pairs = []
    for x in base:
        for y in base:
            pairs.append((x, y))
    for x in base + rnd:
        for d in (-3, -2, -1, 0, 1, 2, 3):
            if 0 <= x + d < P64:
                pairs.append((x, x + d))
                pairs.append((x + d, x))
    pairs = list(dict.fromkeys(pairs))
    gen.huge = {}
    n0 = len(gen.exprs)
    rot = 0

    def one(x, y, ka, kb, op, k):
        pa, pb = _producers(x, "a")[ka], _producers(y, "b")[kb]
        if not pa or not pb:
            return
        ta, va = pa[k % len(pa)]
        tb, vb = pb[(k // 3 + k) % len(pb)]
        truth, cls = _expect(ka, x, kb, y, op)
        text = ("%s OP %s" % (ta, tb)).replace("OP", op)
        sp = "" if k % 3 == 0 else " "
        text = text.replace(" %s " % op, sp + op + sp) if not (sp == "" and tb.startswith("-")) else text
        gen.add_raw("H", text, _vars(va, vb))
        exact = _cmp(op, float(x), float(y)) if "r" in (ka, kb) else _cmp(op, x, y)
        gen.huge[(text, _vars(va, vb))] = (None if truth is None else int(truth), cls, int(exact))
    for (x, y) in pairs:
        for ka in "nir":
            for kb in "nir":
                mixed_int = {ka, kb} == {"n", "i"}
                for oi, op in enumerate(CMP_OPS):
                    rot += 1
                    if mixed_int or (oi + rot) % 3 == 0:
                        one(x, y, ka, kb, op, rot)
    # every producer of each kind at least once against the neighbour above / below, all operators
    for x in (P53, P53 + 1, P62 + 1, P63 - 2):
        for ka in "nir":
            for k in range(6):
                for kb in "nir":
                    for op in CMP_OPS:
                        rot += 1
                        if (rot + k) % 2:
                            one(x, x + 1, ka, kb, op, k)
                            one(x + 1, x, kb, ka, op, k + rot)
    # a Natural >= 2^63 against a Real (small, and around 2^53 / 2^62 / 2^63), every operator, both orders, several
    # producers: the unsigned -> real promotion of each comparison operator on its own (seeded C04-k2: `<=` alone
    # read the Natural as signed; the rotation above samples only a third of the operators for such pairs)
    for x in [P63, P63 + 1, P64 - 1] + [v for v in rnd if v >= P63][:2]:
        for y in (0, 1, 2, 1024, P53, P62, P63):
            for op in CMP_OPS:
                for k in range(3):
                    rot += 1
                    one(x, y, "n", "r", op, k + rot)
                    one(y, x, "r", "n", op, k)
    # && / || over two comparisons (comparisons bind tighter), with and without parentheses
    for j, (x, y) in enumerate(pairs[::3]):
        if x >= P63 or y >= P63:
            continue
        op1, op2 = CMP_OPS[j % 6], CMP_OPS[(j // 6 + 1) % 6]
        ka, kb = ("n", "i") if j % 2 else ("i", "n")
        pa, pb = _producers(x, "a")[ka], _producers(y, "b")[kb]
        pc, pd = _producers(y, "c")[ka], _producers(x, "d")[kb]
        (ta, va), (tb, vb), (tc, vc), (td, vd) = pa[j % len(pa)], pb[j % len(pb)], pc[(j + 1) % len(pc)], pd[(j + 2) % len(pd)]
        t1, t2 = _cmp(op1, x, y), _cmp(op2, y, x)
        for lg in ("&&", "||"):
            truth = int((t1 and t2) if lg == "&&" else (t1 or t2))
            text = "%s %s %s %s %s %s %s" % (ta, op1, tb, lg, tc, op2, td) if j % 4 else "(%s %s %s) %s (%s %s %s)" % (ta, op1, tb, lg, tc, op2, td)
            vs = _vars(va, vb, vc, vd)
            gen.add_raw("H", text, vs)
            gen.huge[(text, vs)] = (truth, "logic", truth)
    # Reals that are NOT whole numbers next to huge whole numbers (they exist only below 2^53), and the doubles
    # adjacent to a huge whole number; same-kind and mixed
    for x in (1 << 52, (1 << 52) + 1, P53 - 2, P53 - 1, P53):
        for fr in (x - 0.5, x + 0.5, x - 1.5, float(x)):
            if fr != int(fr) or fr == float(x):
                for ka in "nir":
                    for op in CMP_OPS:
                        rot += 1
                        pa = _producers(x, "a")[ka]
                        if not pa:
                            continue
                        ta, va = pa[rot % len(pa)]
                        for flip in (0, 1):
                            text = "%s %s {var:b}" % (ta, op) if not flip else "{var:b} %s %s" % (op, ta)
                            vs = _vars(va, {"b": _r(fr)})
                            truth, cls = _expect(ka, x, "r", fr, op) if not flip else _expect("r", fr, ka, x, op)
                            exact = _cmp(op, float(x), fr) if not flip else _cmp(op, fr, float(x))
                            gen.add_raw("H", text, vs)
                            gen.huge[(text, vs)] = (None if truth is None else int(truth), "real-fraction" if cls == "real" else cls, int(exact))
    import math
    for x in base + rnd[:6]:
        fx = float(x)
        for fr in (math.nextafter(fx, 0.0), fx, math.nextafter(fx, math.inf)):
            if fr >= 1.8e19:
                continue
            for ka in "ni":
                pa = _producers(x, "a")[ka]
                for op in CMP_OPS:
                    rot += 1
                    if not pa or rot % 2:
                        continue
                    ta, va = pa[rot % len(pa)]
                    text = "%s %s {var:b}" % (ta, op) if rot % 4 else "{var:b} %s %s" % (op, ta)
                    vs = _vars(va, {"b": _r(fr)})
                    truth, cls = _expect(ka, x, "r", fr, op) if rot % 4 else _expect("r", fr, ka, x, op)
                    exact = _cmp(op, fx, fr) if rot % 4 else _cmp(op, fr, fx)
                    gen.add_raw("H", text, vs)
                    gen.huge[(text, vs)] = (None if truth is None else int(truth), "real-adjacent" if cls == "real" else cls, int(exact))
    # == / != of a huge unsigned and a negative signed number (wrap candidates: the same 64-bit pattern)
    for u, s in ((P64 - 1, -1), (P64 - 2, -2), (P63, -P63 + 1), (P63 + 5, 5 - P63), (P64 - P53, -P53), (P63 - 1, -1), (P62, -P62), (P53 + 1, -(P53 + 1))):
        for tu, vu in _producers(u, "a")["n"][:2]:
            for ts, vsd in (("{var:b}", {"b": "i%d" % s}), ("%d" % s, {}), ("(0 - %d)" % (-s), {})):
                for op in CMP_OPS:
                    for flip in (0, 1):
                        text = "%s %s %s" % ((tu, op, ts) if not flip else (ts, op, tu))
                        vs = _vars(vu, vsd)
                        exact = int(_cmp(op, u, s) if not flip else _cmp(op, s, u))
                        truth, cls = _expect("n", u, "i", s, op) if not flip else _expect("i", s, "n", u, op)
                        gen.add_raw("H", text, vs)
                        gen.huge[(text, vs)] = (None if truth is None else int(truth), cls, exact)
    return len(gen.exprs) - n0


def c04_huge_compare_oracle(ctx, exe, gen, exprs, meta, lines, impl, units_of):
    """exact oracle on what the real code returned for stream H in the entry points {math:}, <if case>,
    ParseExpressions+Evaluate (already run) and the inline if (mode q, run here)."""
    huge = getattr(gen, "huge", {})
    idx = [k for k, e in enumerate(exprs) if e["stream"] == "H" and (e["text"], e["vars"]) in huge]
    qlines = ["expeval q %s %s" % (exprs[k]["vars"], units_of(exprs[k]["text"])) for k in idx]
    qout, qfaults = core.run_lines_parallel(exe, qlines, jobs=12)
    for i, kind, err in qfaults:
        ctx.fail("fault:" + kind, "sanitizer fault in an inline if over huge operands: " + qlines[i], {"line": qlines[i], "stderr": err})
    results = [(lines[i], impl[i], exprs[k], mode) for i, (k, mode) in enumerate(meta) if exprs[k]["stream"] == "H"]
    results += [(qlines[j], qout[j], exprs[k], "q") for j, k in enumerate(idx)]
    n, nbad, obs, obs_wrong, per_cls = 0, 0, 0, [], {}
    bad_cls = {}
    for line, out, e, mode in results:
        info = huge.get((e["text"], e["vars"]))
        if info is None or out.startswith("FAULT"):
            continue
        truth, cls, exact = info
        judge = exact if truth is None else truth
        want = {"p": "V n %d %d" % (judge, judge), "m": "M %d" % (48 + judge), "i": "I %d" % (70 if judge == 0 else 84), "q": "Q %d" % (70 if judge == 0 else 84)}[mode]
        if truth is None:
            obs += 1
            if out != want and len(obs_wrong) < 6 and mode == "p":
                obs_wrong.append("%s [%s] -> %s (exact: %d)" % (e["text"], e["vars"], out, exact))
            continue
        n += 1
        per_cls[cls] = per_cls.get(cls, 0) + 1
        if out != want:
            nbad += 1
            bad_cls[cls] = bad_cls.get(cls, 0) + 1      # the cap is per class: the recorded nat63 finding must not use up the reports of the others
            if bad_cls[cls] <= 300:
                ctx.fail("natural-above-int63-compare" if cls == "nat63" else "oracle:huge-compare", "comparison of whole numbers above 2^53 / across number kinds differs from exact arithmetic (%s, class %s): %r (vars %s) -> %s, expected %s" % (
                    {"p": "Evaluate", "m": "{math:}", "i": "<if case>", "q": "inline if"}[mode], cls, e["text"], e["vars"], out, want),
                    {"line": line, "text": e["text"], "vars": e["vars"], "mode": mode, "impl_output": out, "expected": want, "class": cls})
    ctx.count("S3-huge-compare (H stream: kinds N/I/R x six comparisons, && ||, four entry points)", n, n,
              sample={"stream": "S3-huge-compare", "cases": n, "failures": nbad, "per class": per_cls})
    ctx.notes.append("stream H: %d judged results (%s), %d failures; %d results with a Natural operand >= 2^63 next to an integral operand are observed only "
                     "(the unchanged code promotes through the signed member, notes/design-expr.md); examples where the code differs from exact arithmetic: %s" % (
                         n, ", ".join("%s:%d" % kv for kv in sorted(per_cls.items())), nbad, obs, "; ".join(obs_wrong) or "none"))


# =================================================================================================
# Narrow-field boundaries (round g).  Every 8- / 16-bit field of the tag records and every SizeT8(...) / SizeT16(...)
# cast of Template.hpp is driven to limit-1, limit, limit+1 by the template quantity behind it, in every tag kind and
# position where it occurs, alone and nested once.  The inventory (field, cast site, driving quantity) is NARROW_FIELDS;
# `narrow_inventory_check` re-derives it mechanically from the headers on every run.
#
#   C02: reference expansion (tplspec / tplgroup) as oracle.  A case is JUDGED when every driven quantity is below the
#        limit of its field; beyond the limit of a field that is narrow in the unchanged tree the deviation is the recorded
#        finding `name-of-256-units-or-more` (the same rule as narrow_field_probe in checks/c02.py).
#   C01: the same templates (+ attribute-order / truncated variants) against the Lean parse/render model, which truncates
#        exactly as the code does (tag dumps compared too); templates of >= 20k units only for faults in the quick tier.

# name -> (limit or None when the field is as wide as SizeT, record.field / cast site, driving template quantity)
NARROW_FIELDS = {
    "varLen": (256, "VariableTag::Length (SizeT16) written through `& 0xFF`: Template.hpp parse, case VariableID / RawVariableID", "units of NAME in {var:NAME} / {raw:NAME} (whole path incl. [keys])"),
    "svarLen": (256, "SuperVariableTag::Variable.Length = SizeT16((offset - svar_id_offset) & 0xFF): case SuperVariableID", "units of the phrase path in {svar:PATH, ...}"),
    "exprVarLen": (65536, "QExpression Variable.Length = SizeT16(end_offset - offset): parseValue, case BracketStart", "units of NAME in a {var:NAME} operand of {math:} / case="),
    "setLen": (65536, "LoopTag::Set.Length = SizeT16(offset - att_offset): parseLoopAttributes, case Set", "units of the set=\"...\" text"),
    "valueOff": (256, "LoopTag::ValueOffset = SizeT8(att_offset - tag.Offset)", "distance from `<loop` to the value=\"...\" text (earlier attributes, padding)"),
    "valueLen": (256, "LoopTag::ValueLength = SizeT8(offset - att_offset); VariableTag::IDLength (SizeT8) = ValueLength (checkLoopVariable)", "units of the loop value name"),
    "groupOff": (256, "LoopTag::GroupOffset = SizeT8(att_offset - tag.Offset)", "distance from `<loop` to the group=\"...\" text"),
    "groupLen": (256, "LoopTag::GroupLength = SizeT8(offset - att_offset)", "units of the group key"),
    "contentOff": (65536, "LoopTag::ContentOffset = SizeT16(offset - loop_offset): case LoopID", "units of the whole `<loop ...>` head"),
    "iifLen": (65536, "InLineIfTag::Length = SizeT16(end_offset - tag.Offset): case LineEndID / InLineIf", "units of the whole {if ...} tag"),
    "trueOff": (65536, "InLineIfTag::TrueOffset = SizeT16(att_offset - tag.Offset), and the provisional SizeT16(offset - iif_offset) of case InLineIfID", "distance from `{if` to the true=\"...\" text (length of the case text / of an earlier false=)"),
    "trueLen": (65536, "InLineIfTag::TrueLength = SizeT16(offset - att_offset)", "units of the true=\"...\" text"),
    "falseOff": (65536, "InLineIfTag::FalseOffset = SizeT16(att_offset - tag.Offset)", "distance from `{if` to the false=\"...\" text (length of the true text)"),
    "falseLen": (65536, "InLineIfTag::FalseLength = SizeT16(offset - att_offset)", "units of the false=\"...\" text"),
    "options": (None, "LoopTag::Options (SizeT8) |= SortAscend / SortDescend", "not a count: bits 2 and 4 only (repeated sort= attributes)"),
    "level": (None, "LoopTag::Level / VariableTag::Level (SizeT since 5caf42b; SizeT8 before)", "number of enclosing block tags of a loop"),
    "startId": (None, "InLineIfTag::TrueTagsStartID / FalseTagsStartID (SizeT32 since 0a7719b; SizeT8 before)", "number of sub tags in the value that comes first"),
    "svarArgs": (None, "SuperVariableTag::SubTags.Size() / placeholder id (SizeT since the C02-a2 repair)", "number of sub-variables of a {svar:}"),
    "tagOffset": (None, "VariableTag::Offset, MathTag/SuperVariableTag/InLineIfTag/LoopTag/IfTag/IfTagCase ::Offset / EndOffset (SizeT)", "position of the tag in the template"),
}
KNOWN_NARROW_KEY = "name-of-256-units-or-more"


def narrow_inventory_check(ctx):
    """mechanical part of the inventory: every SizeT8 / SizeT16 member of the tag records and every SizeT8( / SizeT16( /
    `& 0xFF` cast in Template.hpp must be one this module knows; a new one makes the run say so (infrastructure note ->
    no-failing-input-found), so the table cannot silently go stale."""
    import os
    import re
    known_members = {"VariableTag.Length", "VariableTag.IDLength", "InLineIfTag.Length", "InLineIfTag.TrueOffset", "InLineIfTag.TrueLength",
                     "InLineIfTag.FalseOffset", "InLineIfTag.FalseLength", "LoopTag.ContentOffset", "LoopTag.ValueOffset", "LoopTag.ValueLength",
                     "LoopTag.GroupOffset", "LoopTag.GroupLength", "LoopTag.Options"}
    known_casts = {"tag.Length = SizeT16(end_offset - tag.Offset)", "tag.TrueOffset = SizeT16(att_offset - tag.Offset)", "tag.TrueLength = SizeT16(offset - att_offset)",
                   "tag.FalseOffset = SizeT16(att_offset - tag.Offset)", "tag.FalseLength = SizeT16(offset - att_offset)", "tag.TrueOffset = SizeT16(true_offset)",
                   "tag->Length = SizeT16(var_length)", "const SizeT16 var_length = SizeT16((offset - svar_id_offset)", "SizeT16(offset - iif_offset)",
                   "tag->ContentOffset = SizeT16(offset - loop_offset)", "tag.Set.Length = SizeT16(offset - att_offset)", "tag.ValueOffset = SizeT8(att_offset - tag.Offset)",
                   "tag.ValueLength = SizeT8(offset - att_offset)", "tag.GroupOffset = SizeT8(att_offset - tag.Offset)", "tag.GroupLength = SizeT8(offset - att_offset)",
                   "expr.Variable.Length = SizeT16(end_offset - offset)", "& SizeT{0xFF})", "& SizeT(0xFF))"}
    found_members, found_casts, unknown = set(), [], []
    try:
        for fn in ("Tags.hpp", "VariableTag.hpp"):
            src = open(os.path.join(core.INCLUDE, fn)).read()
            for m in re.finditer(r"struct (\w+) \{(.*?)\n\};", src, re.S):
                for f in re.finditer(r"^\s*SizeT(8|16)\s+(\w+)\{", m.group(2), re.M):
                    found_members.add("%s.%s" % (m.group(1), f.group(2)))
        tsrc = open(os.path.join(core.INCLUDE, "Template.hpp")).read()
        for ln in tsrc.split("\n"):
            code = ln.split("//")[0].strip()
            if re.search(r"SizeT(8|16)\(|0xFF", code):
                norm = re.sub(r"\s+", " ", code).rstrip(";")
                found_casts.append(norm)
                if not any(k.replace(" ", "") in norm.replace(" ", "") for k in known_casts):
                    unknown.append(norm)
    except OSError as e:
        ctx.infra_errors.append("narrow-field inventory: cannot read the headers: %r" % (e,))
        return
    new_members = sorted(found_members - known_members - {"LoopTagOptions.None", "LoopTagOptions.SortAscend", "LoopTagOptions.SortDescend"})
    if new_members or unknown:
        ctx.infra_errors.append("narrow-field inventory is stale: members %s, casts %s are not covered by checks/_tmpl_streams.py NARROW_FIELDS" % (new_members, unknown[:6]))
    widened = sorted(known_members - found_members)
    ctx.notes.append("narrow-field inventory: %d 8/16-bit members of the tag records, %d narrowing casts in Template.hpp, all known%s" % (
        len(found_members & known_members), len(found_casts), ("; no longer narrow in this tree: %s" % widened) if widened else ""))


def _par(exe, lines, jobs=12, **kw):
    """core.run_lines_parallel only splits inputs of >= 2000 lines; these streams have few, expensive lines"""
    from concurrent.futures import ThreadPoolExecutor
    if len(lines) < 2 * jobs:
        return core.run_lines(exe, lines, **kw)
    chunks = [(i, lines[i::jobs]) for i in range(jobs)]
    with ThreadPoolExecutor(max_workers=jobs) as ex:
        res = list(ex.map(lambda c: core.run_lines(exe, c[1], **kw), chunks))
    out, faults = [None] * len(lines), []
    for (i, _), (o, f) in zip(chunks, res):
        for k, x in enumerate(o):
            out[i + k * jobs] = x
        faults.extend((i + k * jobs, kind, err) for (k, kind, err) in f)
    return out, faults


def _nm(n, c="k"):
    return c + "a" * (n - 1) if n >= 1 else ""


def _tok(kind, s):
    return kind + dots(U(s))


def _count(toks):
    from checks import c02 as G
    return G.count_nodes(toks)


def _wrap(toks, how):
    if how == "alone":
        return list(toks)
    if how == "in-loop":
        return ["l%s:%s:%d" % (dots(U("l")), dots(U("W")), _count(toks))] + list(toks)
    return ["i1", _tok("c", "1"), "b%d" % _count(toks)] + list(toks)


WRAPS = ("alone", "in-loop", "in-if")
N8 = (255, 256, 257)
N16 = (65535, 65536, 65537)


def narrow_cases(thorough=False):
    """list of dicts: field, q, where, doc (python tree), toks, rewrites [(old text, new text)], quant {field: value},
    probe (regex on the tag dump whose group must show the driven quantity, or None), group (items doc, key) or None"""
    cases = []
    base = [(U("a"), ("n", 5)), (U("b"), ("s", U("<b>"))), (U("l"), ("a", [("n", 1), ("n", 2)])), (U("o"), ("o", [(U("p"), ("n", 7))])),
            (U("ph"), ("s", U("{0}-{1}")))]

    def add(field, q, where, toks, quant, members=(), rewrites=(), probe=None, group=None, wraps=WRAPS):
        for how in wraps:
            cases.append({"field": field, "q": q, "where": "%s, %s" % (where, how), "doc": ("o", list(base) + list(members)), "toks": _wrap(toks, how),
                          "rewrites": list(rewrites), "quant": dict(quant), "probe": probe, "group": group})

    # ---- F1 varLen: {var:NAME} / {raw:NAME} everywhere a variable tag can stand
    for q in N8:
        nm = _nm(q)
        mem = [(U(nm), ("s", U("V&")))]
        pv = r"(?:var|raw)\(\d+,(\d+),"
        add("varLen", q, "{var:NAME}", [_tok("v", nm)], {"varLen": q}, mem, probe=pv)
        add("varLen", q, "{raw:NAME}", [_tok("r", nm)], {"varLen": q}, mem, probe=pv)
        add("varLen", q, "{var:NAME} between text and tags", [_tok("x", "["), _tok("v", "a"), _tok("v", nm), _tok("x", "]"), _tok("v", "b")], {"varLen": q}, mem, probe=pv)
        add("varLen", q, "svar sub-variable", ["s%s:2" % dots(U("ph")), _tok("v", nm), _tok("r", nm)], {"varLen": q}, mem, probe=pv)
        add("varLen", q, "inline-if true / false value", ["q%s:1:1" % dots(U("1")), _tok("v", nm), _tok("r", nm)], {"varLen": q}, mem, probe=pv)
        add("varLen", q, "else branch", ["i2", _tok("c", "0"), "b1", _tok("x", "n"), "e", "b1", _tok("v", nm)], {"varLen": q}, mem, probe=pv)
        # the path NAME[p] / NAME[0] has q units in all
        nm2 = _nm(q - 3, "j")
        add("varLen", q, "{var:NAME[p]} (whole path q units)", [_tok("v", nm2 + "[p]"), _tok("r", nm2 + "[p]")], {"varLen": q},
            [(U(nm2), ("o", [(U("p"), ("s", U("P")))]))], probe=pv)
        # a loop variable path W[KEY] of q units (loop over an array of objects)
        key = _nm(q - 3, "m")
        cases.append({"field": "varLen", "q": q, "where": "{var:W[KEY]} below a loop variable, alone", "doc": ("o", list(base) + [(U("d"), ("a", [("o", [(U(key), ("n", 3))])]))]),
                      "toks": ["l%s:%s:1" % (dots(U("d")), dots(U("W"))), _tok("v", "W[" + key + "]")], "rewrites": [], "quant": {"varLen": q}, "probe": pv, "group": None})
    # ---- F2 svarLen
    for q in N8:
        nm = _nm(q, "s")
        add("svarLen", q, "{svar:NAME, ...}", ["s%s:2" % dots(U(nm)), _tok("v", "a"), _tok("r", "b")], {"svarLen": q}, [(U(nm), ("s", U("{1}<{0}>")))],
            probe=r"svar\(\d+,\d+,\d+,(\d+)\)")
    # ---- F3 exprVarLen (16 bit): 8-bit values must simply work
    for q in N8 + (N16 if thorough else (65535, 65536)):
        nm = _nm(q, "e")
        mem = [(U(nm), ("n", 4))]
        ws = WRAPS if q < 1000 else ("alone",)
        add("exprVarLen", q, "{math:{var:NAME}+1}", [_tok("m", "{var:%s}+1" % nm)], {"exprVarLen": q}, mem, wraps=ws)
        if q < 1000 or thorough:
            add("exprVarLen", q, "<if case=\"{var:NAME} == 4\">", ["i2", _tok("c", "{var:%s} == 4" % nm), "b1", _tok("x", "T"), "e", "b1", _tok("x", "F")], {"exprVarLen": q}, mem, wraps=ws)
            add("exprVarLen", q, "{if case=\"{var:NAME}\" ...}", ["q%s:1:1" % dots(U("{var:%s}" % nm)), _tok("x", "T"), _tok("x", "F")], {"exprVarLen": q, "trueOff": q + 24, "iifLen": q + 44}, mem, wraps=ws)
    # ---- F4 setLen (value= first, so that ValueOffset stays small) and the same with set= first (ValueOffset = q + 20)
    for q in N8 + ((65535, 65536) if not thorough else N16):
        nm = _nm(q, "t")
        mem = [(U(nm), ("a", [("s", U("x<")), ("n", 2)]))]
        body = [_tok("v", "X1"), _tok("x", ",")]
        ws = WRAPS if q < 1000 else ("alone",)
        add("setLen", q, "<loop value=\"X1\" set=\"NAME\">", ["l%s:%s:2" % (dots(U(nm)), dots(U("X1")))] + body, {"setLen": q, "valueOff": 13, "contentOff": q + 26}, mem,
            rewrites=[('set="%s" value="X1"' % nm, 'value="X1" set="%s"' % nm)], probe=r"loop\(\d+,\d+,\d+,\d+,(\d+),", wraps=ws)
        if q < 1000:
            add("valueOff", q + 20, "<loop set=\"NAME\" value=\"X1\"> (value text after a long set)", ["l%s:%s:2" % (dots(U(nm)), dots(U("X1")))] + body,
                {"setLen": q, "valueOff": q + 20}, mem, probe=None, wraps=("alone", "in-if"))
    # ---- F5 valueOff by padding / F7 groupOff by padding
    for q in N8:
        body = [_tok("v", "X1"), _tok("x", ",")]
        pad = " " * (q - 13)
        add("valueOff", q, "<loop PAD value=\"X1\" set=\"l\">", ["l%s:%s:2" % (dots(U("l")), dots(U("X1")))] + body, {"valueOff": q}, (),
            rewrites=[('<loop set="l" value="X1">', '<loop%s value="X1" set="l">' % pad)], probe=r"loop\((?:\d+,){7}(\d+),")
        pad2 = " " * (q - 21)
        add("valueOff", q, "<loop set=\"l\" PAD value=\"X1\">", ["l%s:%s:2" % (dots(U("l")), dots(U("X1")))] + body, {"valueOff": q}, (),
            rewrites=[('<loop set="l" value="X1">', '<loop set="l"%s value="X1">' % pad2)], probe=r"loop\((?:\d+,){7}(\d+),")
    # ---- F6 valueLen / IDLength
    for q in N8:
        nm = _nm(q, "v")
        add("valueLen", q, "<loop set=\"l\" value=\"NAME\">{var:NAME}", ["l%s:%s:2" % (dots(U("l")), dots(U(nm))), _tok("v", nm), _tok("x", ",")], {"valueLen": q, "varLen": q}, (),
            probe=r"loop\((?:\d+,){8}(\d+),")
        add("valueLen", q, "{math:{var:NAME}+1} in the loop", ["l%s:%s:1" % (dots(U("l")), dots(U(nm))), _tok("m", "{var:%s}+1" % nm)], {"valueLen": q, "exprVarLen": q}, (),
            probe=r"loop\((?:\d+,){8}(\d+),")
        add("valueLen", q, "<loop value=\"X2\" set=\"NAME\"> of an inner loop, NAME the outer loop's value", ["l%s:%s:1" % (dots(U("ll")), dots(U(nm))), "l%s:%s:1" % (dots(U(nm)), dots(U("X2"))), _tok("v", "X2")],
            {"valueLen": q, "setLen": q}, [(U("ll"), ("a", [("a", [("n", 8), ("n", 9)])]))], rewrites=[('set="%s" value="X2"' % nm, 'value="X2" set="%s"' % nm)],
            probe=r"loop\((?:\d+,){8}(\d+),", wraps=("alone", "in-if"))
    # ---- F7 groupOff / groupLen (reference: tplgroup)
    for q in N8:
        items = ("a", [("o", [(U("p"), ("n", 1)), (U("g"), ("s", U("x")))]), ("o", [(U("g"), ("s", U("y"))), (U("p"), ("n", 2))]), ("o", [(U("p"), ("n", 3)), (U("g"), ("s", U("x")))])])
        body = [_tok("v", "X1"), _tok("x", "="), "l%s:%s:1" % (dots(U("X1")), dots(U("X2"))), _tok("v", "X2[p]"), _tok("x", ";")]
        pad = " " * (q - 13)
        add("groupOff", q, "<loop PAD group=\"g\" set=\"d\" value=\"X1\">", ["l%s:%s:4" % (dots(U("G9")), dots(U("X1")))] + body, {"groupOff": q, "valueOff": q + 17}, [(U("d"), items)],
            rewrites=[('set="G9" value="X1"', '%s group="g" set="d" value="X1"' % pad[:-1])], probe=r"loop\((?:\d+,){9}(\d+),", group=(items, "g"))
        add("groupOff", q, "<loop value=\"X1\" set=\"d\" PAD group=\"g\">", ["l%s:%s:4" % (dots(U("G9")), dots(U("X1")))] + body, {"groupOff": q, "valueOff": 13}, [(U("d"), items)],
            rewrites=[('set="G9" value="X1"', 'value="X1" set="d"%s group="g"' % (" " * (q - 32)))], probe=r"loop\((?:\d+,){9}(\d+),", group=(items, "g"))
        gk = _nm(q, "g")
        items2 = ("a", [("o", [(U("p"), ("n", 1)), (U(gk), ("s", U("x")))]), ("o", [(U(gk), ("n", 7)), (U("p"), ("n", 2))]), ("o", [(U("p"), ("n", 3)), (U(gk), ("s", U("x")))])])
        add("groupLen", q, "<loop value=\"X1\" set=\"d\" group=\"KEY\">", ["l%s:%s:4" % (dots(U("G9")), dots(U("X1")))] + body, {"groupLen": q, "valueOff": 13}, [(U("d"), items2)],
            rewrites=[('set="G9" value="X1"', 'value="X1" set="d" group="%s"' % gk)], probe=r"loop\((?:\d+,){10}(\d+),", group=(items2, gk))
    # ---- F8 contentOff (16 bit)
    for q in N16:
        add("contentOff", q, "<loop set=\"l\" value=\"X1\" PAD>", ["l%s:%s:2" % (dots(U("l")), dots(U("X1"))), _tok("v", "X1"), _tok("x", ",")], {"contentOff": q}, (),
            rewrites=[('<loop set="l" value="X1">', '<loop set="l" value="X1"%s>' % (" " * (q - 25)))], probe=r"loop\(\d+,\d+,(\d+),", wraps=("alone", "in-if") if not thorough else WRAPS)
    # ---- F9/F10 inline if (16 bit): {if case="C" true="T" false="F"}
    for q in N16:
        pv = lambda k: r"iif\((?:\d+,){%d}(\d+)," % k
        ws = ("alone", "in-loop") if not thorough else WRAPS
        c_true = "1" + " " * (q - 19)                 # true text starts at 10 + len(C) + 8
        add("trueOff", q, "{if case=\"1 PAD\" true=...} (also the provisional SizeT16(offset - iif_offset))", ["q%s:2:1" % dots(U(c_true)), _tok("x", "T"), _tok("v", "a"), _tok("x", "F")],
            {"trueOff": q, "iifLen": q + 14, "falseOff": q + 18}, (), probe=pv(2), wraps=("alone",) if not thorough else ws)
        pad = " " * (q - 19)
        add("trueOff", q, "{if case=\"1\" PAD true=...}", ["q%s:2:1" % dots(U("1")), _tok("x", "T"), _tok("v", "a"), _tok("x", "F")], {"trueOff": q, "iifLen": q + 14, "falseOff": q + 18}, (),
            rewrites=[('{if case="1" true="', '{if case="1"%s true="' % pad)], probe=pv(2), wraps=ws)
        add("falseOff", q, "{if case=\"0\" true=\"T\" PAD false=...}", ["q%s:1:2" % dots(U("0")), _tok("x", "T"), _tok("x", "F"), _tok("v", "b")], {"falseOff": q, "iifLen": q + 10}, (),
            rewrites=[('true="T" false="', 'true="T"%s false="' % (" " * (q - 29)))], probe=pv(4), wraps=ws)
        add("trueLen", q, "true=\"x...x{var:a}\"", ["q%s:2:1" % dots(U("1")), _tok("x", "x" * (q - 7)), _tok("v", "a"), _tok("x", "F")], {"trueLen": q, "falseOff": q + 27, "iifLen": q + 30}, (), probe=pv(3), wraps=ws)
        add("falseOff", q, "false text after a true text of q-27 units", ["q%s:2:2" % dots(U("0")), _tok("v", "a"), _tok("x", "x" * (q - 27 - 7)), _tok("x", "F"), _tok("v", "b")],
            {"trueLen": q - 27, "falseOff": q, "iifLen": q + 10}, (), probe=pv(4), wraps=ws)
        add("falseLen", q, "false=\"{var:b}x...x\"", ["q%s:1:2" % dots(U("0")), _tok("x", "T"), _tok("v", "b"), _tok("x", "x" * (q - 7))], {"falseLen": q, "iifLen": q + 30}, (), probe=pv(5), wraps=ws)
        add("iifLen", q, "whole {if ...} of q units", ["q%s:1:2" % dots(U("1")), _tok("x", "x" * (q - 38)), _tok("x", "F"), _tok("v", "b")], {"iifLen": q, "trueLen": q - 38, "falseOff": q - 10}, (), probe=pv(1), wraps=ws)
    # ---- startId (wide now): number of sub tags of the value that comes first
    for q in N8:
        many = [_tok("v", "a")] * q
        add("startId", q, "true= holds q sub tags, the false value is rendered", ["q%s:%d:1" % (dots(U("0")), q)] + many + [_tok("v", "b")], {"startId": q}, (), probe=r"iif\((?:\d+,){7}(\d+),")
        add("startId", q, "true= holds q sub tags and is rendered", ["q%s:%d:2" % (dots(U("1")), q)] + many + [_tok("v", "b"), _tok("r", "b")], {"startId": q}, (), probe=r"iif\((?:\d+,){7}(\d+),")
        add("startId", q, "false= comes first with q sub tags", ["q%s:1:%d" % (dots(U("1")), q), _tok("v", "b")] + many, {"startId": q}, (),
            rewrites=[("@SWAPIIF", "")], probe=r"iif\((?:\d+,){6}(\d+),", wraps=("alone", "in-loop"))
    # ---- svarArgs
    for q in N8:
        args = [_tok("v", "a"), _tok("r", "b")] * (q // 2) + ([_tok("m", "1+1")] if q % 2 else [])
        add("svarArgs", q, "{svar:p9, q sub-variables}", ["s%s:%d" % (dots(U("p9")), q)] + args, {"svarArgs": q}, [(U("p9"), ("s", U("{0}{9}{1}|{8}")))], probe=None)
    # ---- level: q enclosing block tags around a loop; q+1 nested loops
    for q in N8:
        for how in ("alone", "outer-loop", "in-if"):
            n_if = q if how == "alone" else q - 1          # the wrapper is one more enclosing block tag
            toks = ["l%s:%s:2" % (dots(U("l")), dots(U("X1"))), _tok("v", "X1"), _tok("x", ",")]
            if how == "outer-loop":
                toks = toks + [_tok("v", "W"), _tok("x", ";")]   # the outer loop's variable AFTER the inner loop: Level 0 vs Level q must not collide
            for _ in range(n_if):
                toks = ["i1", _tok("c", "1"), "b%d" % _count(toks)] + toks
            if how == "outer-loop":
                toks = ["l%s:%s:%d" % (dots(U("l")), dots(U("W")), _count(toks) + 1)] + toks + [_tok("v", "W")]
            elif how == "in-if":
                toks = ["i1", _tok("c", "1"), "b%d" % _count(toks)] + toks
            add("level", q, "<if> x %d around a loop (Level = q), %s" % (n_if, how), toks + [_tok("v", "a")], {"level": q}, (), probe=r"loop\((?:\d+,){12}(\d+)\)", wraps=("alone",))
        nest = ("n", 6)
        for _ in range(q + 1):
            nest = ("a", [nest])
        toks = [_tok("v", "A" if q % 2 == 0 else "B"), _tok("v", "a")]
        for k in range(q, -1, -1):
            var = "A" if k % 2 == 0 else "B"
            st = "w" if k == 0 else ("A" if (k - 1) % 2 == 0 else "B")
            toks = ["l%s:%s:%d" % (dots(U(st)), dots(U(var)), _count(toks))] + toks
        add("level", q, "q+1 nested loops (innermost Level = q)", toks, {"level": q}, [(U("w"), nest)], probe=r"loop\((?:\d+,){12}(\d+)\)", wraps=("alone",))
    # ---- tagOffset: every tag kind placed after q units of text
    for q in N16:
        tail = [_tok("v", "a"), _tok("r", "b"), _tok("m", "{var:a}+1"), "s%s:2" % dots(U("ph")), _tok("v", "a"), _tok("r", "b"),
                "q%s:1:1" % dots(U("{var:a} > 1")), _tok("v", "b"), _tok("x", "F"),
                "i2", _tok("c", "{var:a} == 5"), "b1", _tok("v", "b"), "e", "b1", _tok("x", "n"),
                "l%s:%s:2" % (dots(U("l")), dots(U("X1"))), _tok("v", "X1"), _tok("m", "{var:X1}*2"), _tok("v", "a")]
        add("tagOffset", q, "all seven tag kinds after q units of text", [_tok("x", "." * q)] + tail, {"tagOffset": q}, (), probe=None, wraps=("alone", "in-if"))
    return cases


def _swap_iif(units):
    """{if case="C" true="T" false="F"} -> {if case="C" false="F" true="T"} for the first inline if whose printed true part
    is `{var:b}` (cases marked @SWAPIIF): the false value then comes first"""
    t = U(' true="{var:b}"')
    i = -1
    for k in range(len(units) - len(t)):
        if units[k:k + len(t)] == t:
            i = k
            break
    if i < 0:
        return units, 0
    j = len(units) - 1
    while j > i and units[j] != 125:
        j -= 1
    # the inline if ends at the last '}' that closes it: find `"}` after the false value
    end = None
    for k in range(i + len(t), len(units) - 1):
        if units[k] == 34 and units[k + 1] == 125 and units[k - 1] == 125 and units[k + 2:k + 3] != [34]:
            end = k
    if end is None:
        return units, 0
    false_part = units[i + len(t):end + 1]
    return units[:i] + false_part + t + units[end + 1:], 1


def narrow_prepare(ctx, drv, thorough):
    """print every case through the driver, apply the attribute rewrites, compute the reference expansion.
    Returns list of dicts with: units, doc_enc, expected ('R ...'), judged, field, q, where, probe, quant."""
    from checks import c02 as G
    cases = narrow_cases(thorough)
    glines = [(i, "tplgroup 1 %s %s" % (G.enc(c["group"][0]), core.show_units(U(c["group"][1])))) for i, c in enumerate(cases) if c["group"]]
    gout, _ = _par(drv, [l for _, l in glines], env=None)
    grouped = {i: o for (i, _), o in zip(glines, gout)}
    spec_lines = []
    for i, c in enumerate(cases):
        d = G.enc(c["doc"]).split(",")
        if c["group"]:
            g = grouped.get(i, "G none")
            if g == "G none" or not g.startswith("G "):
                spec_lines.append("bad")
                continue
            d[0] = "o%d" % (int(d[0][1:]) + 1)
            d += ["k" + dots(U("G9")), g[2:]]
        spec_lines.append("tplspec 1 %s %s" % (",".join(d), ",".join(c["toks"])))
    sout, _ = _par(drv, spec_lines, env=None)
    out, bad = [], 0
    for c, o in zip(cases, sout):
        t = o.split(" ")
        if len(t) != 4 or t[0] != "P" or t[2] != "E":
            bad += 1
            continue
        units = [int(x) for x in t[1].split(",")] if t[1] != "-" else []
        ok = True
        for old, new in c["rewrites"]:
            if old == "@SWAPIIF":
                units, hit = _swap_iif(units)
            else:
                units, hit = _subst(units, U(old), U(new))
            ok = ok and hit == 1
        if not ok:
            bad += 1
            continue
        judged = all(NARROW_FIELDS[f][0] is None or v < NARROW_FIELDS[f][0] for f, v in c["quant"].items())
        out.append({"units": units, "doc_enc": G.enc(c["doc"]), "expected": "R " + t[3], "judged": judged, "field": c["field"], "q": c["q"],
                    "where": c["where"], "probe": c["probe"], "quant": c["quant"]})
    if bad:
        ctx.infra_errors.append("narrow-field stream: %d of %d cases could not be prepared (driver protocol / rewrite did not apply)" % (bad, len(cases)))
    return out


def c02_narrow_fields(ctx, drv, exe):
    """C02: the documented expansion at limit-1 / limit / limit+1 of every narrow field (see NARROW_FIELDS)."""
    import re
    narrow_inventory_check(ctx)
    prep = narrow_prepare(ctx, drv, ctx.thorough)
    lines, tag_lines = [], []
    for k, p in enumerate(prep):
        w = "1" if (k % 4 or len(p["units"]) > 5000) else "24W"[(k // 4) % 3]
        lines.append("tplrender %s %s %s" % (w, p["doc_enc"], core.show_units(p["units"])))
        tag_lines.append("tpltags %s %s" % (w, core.show_units(p["units"])))
    impl, faults = _par(exe, lines + tag_lines)
    allx = lines + tag_lines
    for i, kind, err in faults:
        p = prep[i % len(prep)]
        ctx.fail("fault:" + kind, "sanitizer fault at a narrow-field boundary (%s = %d, %s): %s" % (p["field"], p["q"], p["where"], allx[i][:200]), {"line": allx[i][:20000], "stderr": err})
    dumps = impl[len(lines):]
    n_j, n_k, n_bad, n_probe, probe_bad = 0, 0, 0, 0, []
    known_hit = {}
    for k, p in enumerate(prep):
        o = impl[k]
        if o.startswith("FAULT"):
            continue
        # the driven quantity must really be what the tag record holds (at limit-1 / for wide fields: exactly)
        lim = NARROW_FIELDS[p["field"]][0]
        if p["probe"] and not dumps[k].startswith("FAULT") and (lim is None or p["q"] < lim) and p["judged"]:
            n_probe += 1
            vals = [int(x) for x in re.findall(p["probe"], dumps[k])]
            if p["q"] not in vals:
                probe_bad.append("%s=%d (%s): the tag dump shows %s" % (p["field"], p["q"], p["where"], vals[:6]))
        desc = "%s = %d (limit %s), %s; quantities %s" % (p["field"], p["q"], lim, p["where"], p["quant"])
        if p["judged"]:
            n_j += 1
            if o != p["expected"]:
                n_bad += 1
                ctx.fail("narrow-field-expansion-differs", "render != documented expansion with every narrow field below its limit: %s: template %s... -> real %r expected %r" % (
                    desc, txt(p["units"][:120]), line_text(o[2:])[:200], line_text(p["expected"][2:])[:200]),
                    {"line": lines[k][:20000], "impl": o[:5000], "expected": p["expected"][:5000], "field": p["field"], "q": p["q"], "where": p["where"]})
        else:
            n_k += 1
            if o != p["expected"]:
                known_hit[p["field"]] = known_hit.get(p["field"], 0) + 1
                ctx.fail(KNOWN_NARROW_KEY, "a quantity at or beyond the limit of an 8/16-bit tag field: %s: real %r expected %r" % (desc, line_text(o[2:])[:120], line_text(p["expected"][2:])[:120]),
                         {"line": lines[k][:20000], "impl": o[:2000], "expected": p["expected"][:2000]})
    if probe_bad:
        ctx.infra_errors.append("narrow-field stream does not drive the field it names: " + "; ".join(probe_bad[:5]))
    ctx.count("narrow-field boundaries: judged (all driven quantities below the field limits, or fields as wide as SizeT)", n_j, n_j,
              sample={"stream": "narrow-fields", "judged": n_j, "mismatches": n_bad, "driven quantity confirmed on the tag dump": n_probe})
    ctx.count("narrow-field boundaries: at / beyond the limit of a narrow field (finding %s)" % KNOWN_NARROW_KEY, n_k, n_k)
    ctx.notes.append("narrow-field boundaries: %d judged cases (%d mismatches), %d cases at/beyond a limit of which the real output deviates per driven field: %s" % (
        n_j, n_bad, n_k, ", ".join("%s:%d" % kv for kv in sorted(known_hit.items())) or "none"))


def c01_narrow_fields(ctx, drv):
    """C01: (compared items, fault-only items) as (w, doc code, units); the second element also holds tag-dump items
    under the key 'tags' of the returned dict."""
    prep = narrow_prepare(ctx, drv, ctx.thorough)
    cmp_items, big_items, tag_items = [], [], []
    for k, p in enumerate(prep):
        u = p["units"]
        w = "1" if (k % 3 or len(u) > 5000) else "24W"[(k // 3) % 3]
        small = len(u) < 20000
        dst = cmp_items if (small or ctx.thorough) else big_items
        dst.append((w, p["doc_enc"], u))
        if small:
            tag_items.append((w, None, u))
            # safety variants: the last unit missing, the first closing '>' / '}' missing, a different root value
            if k % 2 == 0:
                cmp_items.append((w, p["doc_enc"], u[:-1]))
                cmp_items.append((w, "a2,n1,n2", u))
            for ch in (62, 125):
                if ch in u and k % 3 == 0:
                    i = u.index(ch)
                    cmp_items.append((w, p["doc_enc"], u[:i] + u[i + 1:]))
    return {"compared": cmp_items, "faults-only": big_items, "tags": tag_items}


def c01_narrow_big(ctx, exe, items):
    """quick tier: the >= 20k-unit boundary templates on the real code only (the list-based Lean model needs 15-60 s for
    each; the thorough tier compares them).  A sanitizer report is a C01 failure."""
    from checks import c01 as C
    lines = C.to_lines("tplrender", items)
    keys = {}
    impl, faults = _par(exe, lines, on_fault=lambda i, k, se: None)
    for i, kind, err in faults:
        key = C.fault_key(kind, err)
        ctx.fail("fault:" + key, "fault (%s) of the real code at a 16-bit field boundary on %s" % (kind, C.describe(lines[i])[:300]),
                 {"line": lines[i][:20000], "stderr": err, "stream": "narrow-fields-16bit"})
    ctx.count("narrow-fields-16bit(faults only)", len(lines), len(set(lines)),
              sample={"stream": "narrow-fields-16bit", "input": lines[0][:200] if lines else "", "impl": impl[0][:100] if lines else ""})


# =================================================================================================
# C04, round g — ARITHMETIC on Natural operands whose exact result lies in [2^63, 2^64) or just beside the edges
# (seeded/C04-g2: Natural - Natural tagged the difference as signed whenever its top bit was set).  Deterministic
# stream U + exact integer oracle on all entry points ({math:} must print the unsigned decimal).

# `%` reads BOTH operands through the signed member (QExpression::operator%, Template.hpp case Remainder), so a Natural
# >= 2^63 as dividend or divisor gives a wrong remainder on the unchanged tree (18446744073709551615 % 10 = -1).  Those
# results are recorded, not judged, until the tree is repaired (notes/fix-expr-natural-above-int63-remainder.diff) or the
# class is recorded as a finding; C04_NAT63_REM_JUDGED=1 judges them (key natural-above-int63-remainder).
NAT63_REM_JUDGED = _os.environ.get("C04_NAT63_REM_JUDGED", "1") == "1"


def _pow_targets():
    out = []
    for a in list(range(2, 200)) + [255, 256, 1000, 4096, 65535, 65536, 2097152, 3037000499, 3037000500, 4294967295, 4294967296]:
        b, p = 1, a
        while p < P64:
            if b >= 2 and (P62 <= p):
                out.append((a, b, p))
            b += 1
            p *= a
    # keep everything in [2^63, 2^64) and a few just below 2^63
    hi = [t for t in out if t[2] >= P63]
    lo = sorted([t for t in out if t[2] < P63], key=lambda t: -t[2])[:8]
    return hi + lo


def c04_unsigned_arith(gen):
    """stream U.  Fills gen.uarith: (text, vars) -> (kind n/i/r, value, class).  Returns the number of expressions."""
    rng = gen.rng
    gen.uarith = {}
    n0 = len(gen.exprs)
    edges = [P63 - 2, P63 - 1, P63, P63 + 1, P63 + 2, 10 ** 19, P64 - 16, P64 - 2, P64 - 1]
    targets = edges + [rng.randrange(P63, P64) for _ in range(6)] + [rng.randrange(P62, P63) for _ in range(2)]
    rot = [0]

    def nat(v, side):
        """a Natural operand holding v: literal, unsigned variable or computed"""
        ps = _producers(v, side)["n"]
        rot[0] += 1
        return ps[rot[0] % len(ps)]

    def put(text, vs, kind, value, cls="arith"):
        gen.add_raw("U", text, vs)
        gen.uarith.setdefault((text, vs), (kind, value, cls))

    def contexts(text, vs, kind, value, cls):
        """the operation alone and as a sub-expression of further arithmetic / a comparison"""
        put(text, vs, kind, value, cls)
        k = rot[0] % 6
        if kind == "n":
            if k == 0:
                put("(%s) + 0" % text, vs, "n", value, cls)
            elif k == 1 and value >= 1:
                put("(%s) - 1" % text, vs, "n", value - 1, cls)
            elif k == 2:
                put("1 * (%s)" % text, vs, "n", value, cls)
            elif k == 3:
                put("(%s) / 2" % text, vs, "r", float(value) / 2.0, cls)
            elif k == 4 and value + 1 < P64:
                put("(%s) + 1" % text, vs, "n", value + 1, cls)
            else:
                put("(%s) / 2 > 1" % text, vs, "n", int(float(value) / 2.0 > 1.0), cls)
            if value >= P63 and rot[0] % 5 == 0:
                # a comparison of the huge Natural result with a small Natural: the recorded class natural-above-int63-compare
                put("(%s) > 1" % text, vs, "n", 1, "nat63-compare" if cls == "arith" else cls)

    for r in targets:
        # ---- a - b = r (no borrow)
        for b in (0, 1, 5, 15, P62, P63 - 1, P63, rng.randrange(1, P63)):
            a = r + b
            if a < P64:
                (ta, va), (tb, vb) = nat(a, "a"), nat(b, "b")
                contexts("%s - %s" % (ta, tb), _vars(va, vb), "n", r, "arith")
        # ---- a + b = r
        for a in (r, r - 1, P63 - 1, r // 2, rng.randrange(0, r + 1)):
            b = r - a
            if 0 <= a and 0 <= b:
                (ta, va), (tb, vb) = nat(a, "a"), nat(b, "b")
                contexts("%s + %s" % (ta, tb), _vars(va, vb), "n", r, "arith")
        # ---- a * b close to r
        for b in (1, 2, 3, 5, 7, 10, 1 << 31, (1 << 32) - 1, 1 << 32, 3037000500):
            a = r // b
            if a >= 1 and a * b >= P62:
                (ta, va), (tb, vb) = nat(a, "a"), nat(b, "b")
                contexts("%s * %s" % (ta, tb), _vars(va, vb), "n", a * b, "arith")
        # ---- a | b = r, a & b = r
        if r >= P63:
            low = r - P63
            (ta, va), (tb, vb) = nat(P63, "a"), nat(low, "b")
            contexts("%s | %s" % (ta, tb), _vars(va, vb), "n", r, "arith")
            (ta, va), (tb, vb) = nat(r, "a"), nat(P64 - 1, "b")
            contexts("%s & %s" % (ta, tb), _vars(va, vb), "n", r, "arith")
            (ta, va), (tb, vb) = nat(r | 0x5555, "a"), nat(r | 0xAAAA, "b")
            contexts("%s & %s" % (ta, tb), _vars(va, vb), "n", (r | 0x5555) & (r | 0xAAAA), "arith")
        # ---- a / b: real division, both operands promoted to the nearest double
        for b in (1, 2, 3, 1000, P63, P64 - 1):
            (ta, va), (tb, vb) = nat(r, "a"), nat(b, "b")
            put("%s / %s" % (ta, tb), _vars(va, vb), "r", float(r) / float(b), "arith")
        # ---- a % b with a huge operand (dividend and / or divisor)
        for b in (10, 7, 1 << 32, P63 - 1, P63, P63 + 1, P64 - 1):
            (ta, va), (tb, vb) = nat(r, "a"), nat(b, "b")
            cls = "rem63" if (r >= P63 or b >= P63) else "arith"
            # kind "m": the remainder is always tagged Integer by the code (same value, same text); either integral tag is accepted
            put("%s %% %s" % (ta, tb), _vars(va, vb), "m", r % b, cls)
            if b >= P63:
                (tc, vc) = nat(12345, "a")
                put("%s %% %s" % (tc, tb), _vars(vc, vb), "m", 12345 % b, "rem63")
        # ---- Natural next to a Real: promotion to the nearest double
        for (op, f) in (("+", lambda x, y: x + y), ("-", lambda x, y: x - y), ("*", lambda x, y: x * y)):
            (ta, va) = nat(r, "a")
            put("%s %s 0.5" % (ta, op), va and _vars(va) or "-", "r", f(float(r), 0.5), "arith")
            put("{var:b} %s %s" % (op, ta), _vars(va, {"b": _r(2.0)}), "r", f(2.0, float(r)), "arith")
    # ---- borrow just beside the edges: the difference is negative and fits the signed range
    for a, b in ((P63, P63 + 1), (P63 - 1, P63), (P64 - 2, P64 - 1), (0, P63 - 1), (1, P63), (5, P63 + 4), (P63 + 7, P64 - 1), (P62, P63 + P62 - 1)):
        (ta, va), (tb, vb) = nat(a, "a"), nat(b, "b")
        if -(P63) <= a - b < 0:
            contexts("%s - %s" % (ta, tb), _vars(va, vb), "i", a - b, "arith")
    # ---- a ^ b in [2^63, 2^64) and just below 2^63
    for a, b, p in _pow_targets():
        (ta, va), (tb, vb) = nat(a, "a"), nat(b, "b")
        contexts("%s ^ %s" % (ta, tb), _vars(va, vb), "n", p, "arith")
    # ---- chains staying unsigned: (2^64-1) - x - y, sums of three, product minus one
    for x, y in ((1, 1), (P62, P62), (P63 - 1, 1), (15, P62)):
        (ta, va) = nat(P64 - 1, "a")
        put("%s - %d - %d" % (ta, x, y), _vars(va), "n", P64 - 1 - x - y)
        put("%d + %d + %s" % (x, y, nat(P63, "b")[0].replace("{var:b}", "9223372036854775808")), "-", "n", x + y + P63) if x + y + P63 < P64 else None
    put("4294967296 * 4294967295 + 4294967295", "-", "n", (1 << 32) * ((1 << 32) - 1) + (1 << 32) - 1)
    put("3037000500 * 3037000500 - 1", "-", "n", 3037000500 ** 2 - 1)
    put("(18446744073709551615 - 15) / 2 > 1", "-", "n", 1)
    return len(gen.exprs) - n0


def c04_unsigned_arith_oracle(ctx, exe, gen, exprs, meta, lines, impl, units_of):
    """exact oracle for stream U on {math:} (unsigned / signed decimal, the formatter's text for a Real), <if case>, the inline
    if (truth = value > 0) and ParseExpressions+Evaluate (kind, 64-bit payload, truth)."""
    ua = getattr(gen, "uarith", {})
    idx = [k for k, e in enumerate(exprs) if e["stream"] == "U" and (e["text"], e["vars"]) in ua]
    qlines = ["expeval q %s %s" % (exprs[k]["vars"], units_of(exprs[k]["text"])) for k in idx]
    hexes = sorted({_r(v)[1:] for (kind, v, _) in ua.values() if kind == "r"})
    out, faults = _par(exe, qlines + ["expfmt " + h for h in hexes])
    for i, kind, err in faults:
        ctx.fail("fault:" + kind, "sanitizer fault on unsigned arithmetic near 2^63 / 2^64: " + (qlines + hexes)[i][:200], {"line": (qlines + hexes)[i][:2000], "stderr": err})
    qout, fmt = out[:len(qlines)], dict(zip(hexes, out[len(qlines):]))
    results = [(lines[i], impl[i], exprs[k], mode) for i, (k, mode) in enumerate(meta) if exprs[k]["stream"] == "U"]
    results += [(qlines[j], qout[j], exprs[k], "q") for j, k in enumerate(idx)]
    n, nbad, per_cls, obs, obs_wrong = 0, 0, {}, 0, []
    for line, o, e, mode in results:
        info = ua.get((e["text"], e["vars"]))
        if info is None or o.startswith("FAULT"):
            continue
        kind, v, cls = info
        truth = 1 if v > 0 else 0
        if mode == "p" and kind == "m":
            want = o if o in ("V n %d %d" % (v, truth), "V i %d %d" % (v, truth)) and v < P63 else "V n %d %d" % (v, truth)
        elif mode == "p":
            want = "V n %d %d" % (v, truth) if kind == "n" else "V i %d %d" % (v % P64, truth) if kind == "i" else "V r %s %d" % (_r(v)[1:], truth)
        elif mode == "m":
            if kind == "r":
                f = fmt.get(_r(v)[1:], "")
                if not f.startswith("X "):
                    continue
                want = "M " + f[2:]
            else:
                want = "M " + units_of(str(v))
        else:
            want = "%s %d" % ("I" if mode == "i" else "Q", 84 if truth else 70)
        if cls == "rem63" and not NAT63_REM_JUDGED:
            obs += 1
            if o != want and mode == "p" and len(obs_wrong) < 6:
                obs_wrong.append("%s [%s] -> %s (exact: %d)" % (e["text"], e["vars"], o, v))
            continue
        n += 1
        per_cls[cls] = per_cls.get(cls, 0) + 1
        if o != want:
            nbad += 1
            if nbad <= 300:
                key = {"arith": "oracle:unsigned-arith", "nat63-compare": "natural-above-int63-compare", "rem63": "natural-above-int63-remainder"}[cls]
                shown = o if mode == "p" else repr(line_text(o[2:]))
                ctx.fail(key, "arithmetic on unsigned operands with an exact result near 2^63 / 2^64 differs from exact arithmetic (%s, class %s): %r (vars %s) -> %s, expected %s" % (
                    {"p": "Evaluate", "m": "{math:}", "i": "<if case>", "q": "inline if"}[mode], cls, e["text"], e["vars"], shown,
                    want if mode == "p" else repr(line_text(want[2:]))),
                    {"line": line, "text": e["text"], "vars": e["vars"], "mode": mode, "impl_output": o, "expected": want, "class": cls})
    ctx.count("S3-unsigned-arith (U stream: - + * / % ^ | & with exact results in [2^63, 2^64) and beside the edges, four entry points)", n, n,
              sample={"stream": "S3-unsigned-arith", "cases": n, "failures": nbad, "per class": per_cls})
    ctx.notes.append("stream U: %d judged results (%s), %d failures; %d results of %% with a Natural operand >= 2^63 are observed only (operator%% reads both operands "
                     "through the signed member); examples where the code differs from exact arithmetic: %s" % (
                         n, ", ".join("%s:%d" % kv for kv in sorted(per_cls.items())), nbad, obs, "; ".join(obs_wrong) or "none"))
