"""Round c: generator / oracle streams added to C01, C02, C03, C04, C17 after six seeded changes that the
quick tier missed or only half-caught (seeded/C03-c2, C02-c2, C01-c1, C17-c2, C04-c1, C02-c1;
notes/design-tmpl.md, section "round c").  Every function takes the check's ctx and the built harness /
driver; the checks call them with one line each.  All random choices come from ctx.rng."""
import struct
from fractions import Fraction
from vlib import core


def U(s):
    return [ord(c) for c in s]


def dots(u):
    return ".".join(str(x) for x in u)


def txt(units):
    return "".join(chr(x) if 32 <= x < 127 else "\\u%04x" % x for x in units)


def line_text(unit_field):
    return txt([int(x) for x in unit_field.split(",")]) if unit_field not in ("-", "") else ""


SPECIALS = [0x22, 0x26, 0x27, 0x3C, 0x3E]


def wide_pool(w):
    """code units that are NOT one of the five specials but become one under some masking:
    same low byte (x + k*0x100), same low 16 bits (x + k*0x10000), high bit set (x | 0x80), low 7 bits,
    and the Unicode letters named in seeded/C02-c2 (U+0426, U+0627, U+0422, U+043C, U+043E, U+013C, U+013E)."""
    top = 0xFFFF if w == "2" else 0x7FFFFFFF if w == "W" else 0xFFFFFFFF
    pool = []
    for x in SPECIALS:
        pool += [x + 0x100, x + 0x400, x + 0x600, x + 0x2000, x + 0xFF00, x | 0x80, x + 0x80 + 0x100]
        if top > 0xFFFF:
            pool += [x + 0x10000, x + 0x100000, x + 0x10FF00, x + 0x7F000000, (x << 8), (x << 16) | 0x41]
        else:
            pool += [(x << 8) & 0xFFFF, ((x << 8) | 0x41) & 0xFFFF]
    pool += [0x3B + 0x100, 0x3B + 0x10000 if top > 0xFFFF else 0x3B + 0x300]       # ';' look-alikes
    return sorted({p for p in pool if 0x7F < p <= top and p not in SPECIALS})


def wide_string(rng, w, lo=1, hi=7):
    pool = wide_pool(w)
    out = []
    for _ in range(rng.randrange(lo, hi)):
        x = rng.random()
        if x < 0.55:
            out.append(rng.choice(pool))
        elif x < 0.75:
            out.append(rng.choice(SPECIALS + [0x3B]))
        elif x < 0.85:
            out += rng.choice([[38, 97, 109, 112, 59], [38, 108, 116, 59], [38, 0x126, 59], [0x126, 97, 109, 112, 59], [38, 97, 109, 112, 0x13B]])
        else:
            out.append(rng.randrange(97, 123))
    return out


# =================================================================================================
# C04 — zero divisors of every origin (seeded/C04-c1: the zero test of `/` looked at raw bits, so a Real
# -0.0 divisor divided).  Property clause: division or remainder by zero yields no value; a math tag then
# renders as its own source and a condition counts as not satisfied.

def _r(x):
    return "r%016X" % struct.unpack(">Q", struct.pack(">d", x))[0]


def c04_zero_divisors(gen):
    """stream Z: (dividend) (/|%) (a zero: literal 0, 0.0, -0, -0.0, 0e0, -0e3; a variable holding Natural 0,
    Integer 0, Real +0.0, Real -0.0, the strings "0" "-0" "0.0" "-0.0", false, null; computed 0/-5, 0*-1.5,
    0-0, -0-0, 0.0*-1, {var}/{var}, {var}*-1.5) alone and inside larger expressions.  Returns the number added."""
    from checks import c04 as C
    lit, mkvar = C.lit, C.mkvar
    zero_lits = ["0", "0.0", "-0", "-0.0", "0e0", "-0e3", "0.00", "-0.000", "0E-2", "-0E+1"]
    zero_vars = ["n0", "i0", _r(0.0), _r(-0.0), C.sspec("0"), C.sspec("-0"), C.sspec("0.0"), C.sspec("-0.0"), C.sspec("-0e2"), "f", "z"]

    def computed():
        zp, zn, m = mkvar("y", _r(0.0)), mkvar("y", "n0"), mkvar("m", "i-3")
        return [
            ("par", [lit("0"), "/", lit("-5")]), ("par", [lit("0"), "*", lit("-1.5")]), ("par", [lit("0"), "-", lit("0")]),
            ("par", [lit("-0"), "-", lit("0")]), ("par", [lit("0.0"), "*", lit("-1")]), ("par", [lit("2"), "-", lit("2")]),
            ("par", [lit("-0"), "*", lit("3")]), ("par", [lit("0"), "/", lit("3")]), ("par", [lit("-0")]), ("par", [lit("-0.0")]),
            ("par", [zp, "/", m]), ("par", [zn, "/", m]), ("par", [zp, "*", lit("-1.5")]), ("par", [zn, "*", lit("-1.5")]),
            ("par", [mkvar("y", _r(-0.0))]), ("par", [lit("0"), "*", mkvar("m", _r(-2.5))]), ("par", [lit("-2.5"), "*", lit("0")]),
            ("par", [lit("0"), "/", ("par", [lit("0"), "-", lit("4")])]),
        ]
    dividends = [lambda: lit("1"), lambda: lit("7"), lambda: lit("-3"), lambda: lit("2.5"), lambda: lit("0"), lambda: lit("-0"),
                 lambda: mkvar("a", "n12"), lambda: mkvar("a", "i-8"), lambda: mkvar("a", _r(2.5)), lambda: mkvar("a", C.sspec("12")),
                 lambda: mkvar("a", "t")]
    contexts = [
        lambda d: d,
        lambda d: [lit("1"), "+"] + d,
        lambda d: d + ["*", lit("2")],
        lambda d: d + ["<", lit("5")],
        lambda d: [("par", d), "<", lit("5")],
        lambda d: d + ["==", lit("0")],
        lambda d: d + ["||", lit("1")],
        lambda d: [lit("1"), "&&"] + d,
        lambda d: d + ["/", lit("2")],
        lambda d: [lit("8"), "-", ("par", d)],
        lambda d: [lit("2"), "^", ("par", d)],
        lambda d: [lit("3"), "*", lit("2"), "+"] + d + ["-", lit("1")],
    ]
    n0 = len(gen.exprs)
    zeros = [lambda t=t: lit(t) for t in zero_lits] + [lambda s=s: mkvar("z", s) for s in zero_vars] + \
            [lambda k=k: computed()[k] for k in range(len(computed()))]
    for zi, z in enumerate(zeros):
        for di, dv in enumerate(dividends):
            for op in ("/", "%"):
                for ci, cx in enumerate(contexts):
                    # all contexts for `/` with the first dividends; a rotating third of them elsewhere
                    if not (op == "/" and di < 3) and (zi + di + ci) % 3:
                        continue
                    gen.add_seq("Z", cx([dv(), op, z()]), check=False, plain=(ci % 2 == 0))
    return len(gen.exprs) - n0


def c04_zero_divisor_oracle(ctx, exprs, meta, lines, impl, model, units_of, split_model):
    """S3 for stream Z, on the implementation output of all three entry points.  By construction a divisor is
    zero; the Lean model (driver, same line) must agree that the expression has no value; then the real code
    must answer: ParseExpressions+Evaluate -> no value; {math:} -> its own source; <if case> -> the else part."""
    n, model_has_value, bad = 0, [], 0
    for i, (k, mode) in enumerate(meta):
        e = exprs[k]
        if e["stream"] != "Z" or impl[i].startswith("FAULT"):
            continue
        desc, truth, flags = split_model(model[i])
        if desc != "NE":
            model_has_value.append((lines[i], model[i]))
            continue
        n += 1
        if mode == "p":
            want = "NE 0"
        elif mode == "m":
            want = "M " + units_of("{math:" + e["text"] + "}")
        else:
            want = "I 70"
        if impl[i] != want:
            bad += 1
            got = impl[i] if mode == "p" else repr(line_text(impl[i][2:]))
            ctx.fail("oracle:zero-divisor-has-value",
                     "division / remainder by a zero must yield no value (%s): %r (vars %s) -> %s" % (
                         {"p": "Evaluate must fail", "m": "{math:} must render as its own source", "i": "<if case> must take the else part"}[mode],
                         e["text"], e["vars"], got),
                     {"line": lines[i], "text": e["text"], "vars": e["vars"], "mode": mode, "impl_output": impl[i],
                      "expected": want, "lean_model": model[i]})
    ctx.count("S3-zero-divisor-no-value (Z stream, 3 entry points)", n, n,
              sample={"stream": "S3-zero-divisor", "cases": n, "failures": bad})
    if model_has_value:
        ctx.corr_broken.append({"stream": "Z: the Lean model gives a value although a divisor is zero by construction", "count": len(model_has_value),
                                "examples": [{"input": l, "impl": "", "model": m} for l, m in model_has_value[:5]]})


# =================================================================================================
# C01 — unresolved {var:…} whose name holds '&' / partial entities, as the LAST thing of an exact-size
# template buffer (seeded/C01-c1: the escaper's entity look-ahead bound `>` became `>=`).

AMP_NAMES = ["n&ame", "n&me", "n&e", "n&", "&", "&a", "&am", "&amp", "&amp;", "&lt", "&lt;", "&gt", "&g", "&l", "&quo", "&quot", "&quot;", "&apo", "&apos",
             "&apos;", "&&", "&&&", "&&&&", "&&&&&", "&&&&&&", "a&b", "ab&", "a&bc", "a&bcd", "a&bcde", "a&bcdef", "&;", "&a;", "&ab;", "&abc;", "&abcd;",
             "&abcde;", "&lt&", "&lt;&", "&amp&", "&amp;&", "&am&", "<", ">", "\"", "'", "<&", "&<", "a<b&c", "x&y;z", "&#38;", "&#x26;", "&a&m&p",
             "&amp;amp", "&quot&apos", "q&quo", "q&quot", "q&apos", "zz&lt", "zz&gt", "zz&am", "zz&a", "zz&amp"]


def c01_tail_echo(ctx):
    """[(w, doc code, units)]: templates whose last tag is an unresolved {var:NAME} ending exactly at the end of
    the buffer; NAME from AMP_NAMES and random strings over & ; a m p l t g q u o s # < > " ' ; alone, after
    text, after other tags, inside the last position of a loop / if / inline-if / svar; all four widths; docs
    in which NAME is missing or is not printable (array / object: no loop key)."""
    from checks import c01 as C
    rng = ctx.rng
    names = [U(n) for n in AMP_NAMES]
    alpha = U("&&&;amplgtquos#<>\"'x")
    for _ in range(150 if not ctx.thorough else 1500):
        names.append([rng.choice(alpha) for _ in range(rng.randrange(1, 9))])
    docs = [("o", []), ("o", [(U("a"), ("n", 5)), (U("l"), ("a", [("n", 1), ("n", 2)])), (U("ph"), ("s", U("{0}")))]), ("a", [("n", 1)]), ("n", 3)]
    prefixes = ["", "x", "text &amp; ", "{var:a}", "{raw:zz}", "{math:1+1}", "<if case=\"1\">y</if>", "<loop set=\"l\" value=\"v\">{var:v}</loop>", "&", "&am"]
    wrappers = [("", ""), ("<if case=\"1\">", ""), ("<loop set=\"l\" value=\"v\">", ""), ("<if case=\"0\">n<else />", ""),
                ("<loop set=\"l\" value=\"v\"><if case=\"1\">", "")]
    closed = [("<if case=\"1\">", "</if>"), ("<loop set=\"l\" value=\"v\">", "</loop>"), ("{if case=\"1\" true=\"", "\"}"), ("{svar:ph, ", "}"),
              ("{if case=\"0\" true=\"t\" false=\"", "\"}")]
    out = []
    for k, nm in enumerate(names):
        if any(x in (123, 125) for x in nm):
            continue
        tag = U("{var:") + nm + [125]
        for j, w in enumerate(("1", "2", "4", "W")):
            d = docs[(k + j) % len(docs)]
            # NAME bound to an unprintable value as well (echo through the same fallback)
            d2 = ("o", [(nm, ("a", [("n", 1)]))]) if not any(x in (91, 93) for x in nm) else d
            pre = prefixes[(k + 3 * j) % len(prefixes)]
            wr = wrappers[(k + j) % len(wrappers)]
            out.append((w, C.enc(d), tag))
            out.append((w, C.enc(d2), U(pre) + tag))
            out.append((w, C.enc(d), U(pre + wr[0]) + tag))
            cl = closed[(k + j) % len(closed)]
            if not (34 in nm and cl[0].startswith("{if")):
                out.append((w, C.enc(docs[1]), U(pre + cl[0]) + tag + U(cl[1])))     # the tag is last inside a closed container
            # the same name, not at the end (control) and as {raw:} at the end
            if k % 4 == j:
                out.append((w, C.enc(d), tag + U("z")))
                out.append((w, C.enc(d), U("{raw:") + nm + [125]))
    # wide look-alikes of '&' and ';' in the name (widths 2/4/W)
    for _ in range(200 if not ctx.thorough else 2000):
        w = rng.choice("24W")
        nm = [x for x in wide_string(rng, w, 1, 8) if x not in (123, 125, 91, 93, 0)]
        if nm:
            out.append((w, C.enc(docs[0]), U(rng.choice(prefixes)) + U("{var:") + nm + [125]))
    return out


# =================================================================================================
# C03 — print paths through COPIES of the parsed tag array (seeded/C03-c2: the TagBit copy constructor turned
# RawVariable into Variable), nested raw/var positions, and non-Latin-1 units on every path (seeded/C02-c2).

C03_MODES = ["var", "ptr", "ptr2", "ptr3", "rawptr2", "loopptr2", "svarptr2", "iifptr2", "arr", "loopval", "loopkey", "echo", "raw", "rawptr", "svar", "svarb",
             "rawloop", "rawif", "rawelse", "rawiif", "rawiiff", "rawsvar", "varif", "variif"]
C03_OLD = {"var", "ptr", "arr", "loopval", "loopkey", "echo", "raw", "rawptr", "svar", "svarb"}
C03_RAW = {"raw", "rawptr", "rawptr2", "rawloop", "rawif", "rawelse", "rawiif", "rawiiff", "rawsvar"}


def _c03_expect(mode, u):
    if mode == "echo":
        return ("esc", [[123, 118, 97, 114, 58] + u + [125]])
    if mode in C03_RAW:
        return ("id", [u])
    if mode == "svar":
        return ("esc", [u, u])
    if mode == "svarb":
        return ("esc", [[123] + u + [125], u])
    return ("esc", [u])


def _c03_mode_ok(mode, u):
    if mode == "loopkey" and not u:
        return False
    if mode == "echo" and any(x in (123, 125, 91, 93, 0) for x in u):
        return False
    if mode == "svarb" and (any(x in (123, 125) for x in u) or (len(u) == 1 and 48 <= u[0] <= 57)):
        return False
    return True


def c03_round_c(ctx, drv, h_on, h_off, inputs):
    """`tplc` (copy-constructed + copy-assigned tag array) for every mode, `tpl` for the nested modes, and wide
    strings (widths 2/4/W) through `tpl` and `tplc` for every mode; expected text from the Lean escaper model."""
    rng = ctx.rng
    pool = [u for u in inputs if len(u) <= 10]
    base = rng.sample(pool, min(len(pool), 500 if not ctx.thorough else 8000))
    base += [[38], [60], [62], [34], [39], [60, 98, 62, 38, 39, 34], [38, 97, 109, 112, 59], [38, 97, 109, 112], [60, 38], []]
    for auto, exe in ((1, h_on), (0, h_off)):
        lines, exp_src = [], []
        src = base if auto == 1 else base[::4]
        for k, u in enumerate(src):
            w = ("1", "2", "4", "W")[k % 4]
            for m in C03_MODES:
                if not _c03_mode_ok(m, u):
                    continue
                ops = ["tplc"] if m in C03_OLD else ["tpl", "tplc"]
                for op in ops:
                    lines.append("%s %d %s %s %s" % (op, auto, w, m, core.show_units(u)))
                    exp_src.append(_c03_expect(m, u))
        nwide = (1200 if not ctx.thorough else 12000) // (1 if auto == 1 else 4)
        for k in range(nwide):
            w = ("2", "4", "W")[k % 3]
            u = wide_string(rng, w, 1, 8)
            for m in C03_MODES:
                if not _c03_mode_ok(m, u):
                    continue
                op = "tplc" if (k + len(m)) % 3 == 0 else "tpl"
                lines.append("%s %d %s %s %s" % (op, auto, w, m, core.show_units(u)))
                exp_src.append(_c03_expect(m, u))
        impl, faults = core.run_lines_parallel(exe, lines, jobs=12)
        for i, kind, err in faults:
            ctx.fail("fault:" + kind, "sanitizer fault while rendering " + lines[i], {"line": lines[i], "stderr": err})
        mlines, owner = [], []
        for i, (kind, parts) in enumerate(exp_src):
            for pt in parts:
                mlines.append("esc %d 1 %s" % (auto if kind == "esc" else 0, core.show_units(pt)))
                owner.append(i)
        mout, _ = core.run_lines_parallel(drv, mlines, jobs=12, env=None)
        pieces = [[] for _ in lines]
        for o, out in zip(owner, mout):
            pieces[o] += [] if out == "-" else out.split(",")
        model = [",".join(p) if p else "-" for p in pieces]
        bad = ctx.correspond("template-print-paths: copied tag arrays, nested positions, wide units (auto=%d)" % auto, lines, impl, model,
                             nontrivial=lambda l: True)
        olines, idx = [], []
        for i in bad:
            if impl[i].startswith("FAULT"):
                continue
            kind, parts = exp_src[i]
            copied = lines[i].startswith("tplc")
            if kind == "id" or auto == 0:
                ctx.fail("not-verbatim", "text that must be emitted unchanged was altered%s: %s -> %s" % (
                    " (render through a COPY of the parsed tag array)" if copied else "", lines[i], impl[i]), {"line": lines[i], "impl_output": impl[i], "expected": model[i]})
            elif len(parts) == 1:
                olines.append("escoracle 1 1 %s %s" % (core.show_units(parts[0]), impl[i]))
                idx.append(i)
            else:
                ctx.fail("oracle:svar", "super-variable output differs from the escaped phrase and value: %s -> %s" % (lines[i], impl[i]), {"line": lines[i], "impl_output": impl[i], "expected": model[i]})
        if olines:
            verdicts, _ = core.run_lines_parallel(drv, olines, jobs=4, env=None)
            for j, v in enumerate(verdicts):
                i = idx[j]
                if v != "ok":
                    ctx.fail("oracle:" + v, "C03 predicate '%s' fails on rendered output: %s -> %s" % (v, lines[i], impl[i]), {"line": lines[i], "impl_output": impl[i], "predicate": v})


# =================================================================================================
# C02

def c02_wide_escape_case(rng, w, enc):
    """(doc, tokens of the tplspec code): non-Latin-1 units that become a special under a mask, on every escaped
    path: value of {var:}, loop key (item not printable), unresolved {var:<wide name>} echoed verbatim, svar
    phrase text and svar sub-variable, next to {raw:} of the same strings."""
    def clean(u, extra=()):
        return [x for x in u if x not in (123, 125, 91, 93, 0, 44, 34, 61) and x not in extra] or [0x126]
    s1, s2, s3 = wide_string(rng, w, 1, 7), wide_string(rng, w, 1, 6), wide_string(rng, w, 1, 6)
    key1, key2 = clean(wide_string(rng, w, 1, 5)), clean(wide_string(rng, w, 1, 5))
    if key1 == key2:
        key2 = key2 + [0x13C]
    missing = clean(wide_string(rng, w, 1, 6))
    phrase = [x for x in wide_string(rng, w, 1, 5) if x not in (123, 125)] + U("{0}") + [x for x in wide_string(rng, w, 0, 4) if x not in (123, 125)] + U("{1}")
    doc = ("o", [(U("a"), ("s", s1)), (U("b"), ("s", s2)), (U("ph"), ("s", phrase)),
                 (U("o"), ("o", [(key1, ("a", [("n", 1)])), (key2, ("s", s3))])),
                 (U("l"), ("a", [("s", s2), ("s", s3)]))])
    toks = []
    pieces = [
        ["v" + dots(U("a"))], ["r" + dots(U("a"))], ["v" + dots(U("b"))],
        ["v" + dots(missing)],                                              # unresolved: reproduced verbatim
        ["r" + dots(missing)],
        ["l%s:%s:2" % (dots(U("o")), dots(U("X1"))), "v" + dots(U("X1")), "x" + dots(U(";"))],    # loop key of an unprintable item / value
        ["l%s:%s:2" % (dots(U("l")), dots(U("X1"))), "v" + dots(U("X1")), "r" + dots(U("X1"))],
        ["s%s:2" % dots(U("ph")), "v" + dots(U("a")), "r" + dots(U("b"))],
        ["s%s:2" % dots(U("ph")), "v" + dots(missing), "v" + dots(U("b"))],
        ["q%s:1:1" % dots(U("1")), "v" + dots(U("b")), "x" + dots(U("n"))],
        ["i1", "c" + dots(U("1")), "b1", "v" + dots(U("a"))],
    ]
    for p in rng.sample(pieces, rng.randrange(2, 6)):
        toks += p
        if rng.random() < 0.5:
            toks.append("x" + dots(U(rng.choice(["|", " ", "-"]))))
    return doc, toks


def c02_copies(ctx, exe, lines, expected, every=9):
    """the documented expansion must also come out when the render goes through a copy-constructed /
    copy-assigned copy of the parsed tag array (harness op tplrendercopy)."""
    sel = [i for i in range(len(lines)) if i % every == 0]
    cl = [lines[i].replace("tplrender", "tplrendercopy", 1) for i in sel]
    impl, faults = core.run_lines_parallel(exe, cl, jobs=12)
    for i, kind, err in faults:
        ctx.fail("fault:" + kind, "sanitizer fault rendering through a copy of the parsed tags: " + cl[i][:300], {"line": cl[i], "stderr": err})
    n = 0
    for j, i in enumerate(sel):
        if impl[j] != expected[i] and not impl[j].startswith("FAULT"):
            n += 1
            if n <= 200:
                t = cl[j].split(" ")
                ctx.fail("expansion-differs-through-copied-tags", "render through a copy of the parsed tag array != documented expansion: template %r value %s: real %r expected %r" % (
                    line_text(t[3]), t[2][:200], line_text(impl[j][2:]), line_text(expected[i][2:])), {"line": cl[j], "impl": impl[j], "expected": expected[i]})
    ctx.count("documented-expansion-through-copied-tags", len(cl), len(set(cl)))


GROUP_KEYS = ["k", "year", "g"]
MEMBER_KEYS = ["p", "q", "m", "id", "n"]


def _group_case(rng, enc):
    """value: {"d": [objects with the grouping member at different positions / extra members in front]} ;
    template tokens with the placeholder set G9 (rewritten to set="d" group="<key>" in the printed text)."""
    gk = rng.choice(GROUP_KEYS)
    gvals = rng.choice([
        [("n", 2019), ("n", 2020), ("n", 7)], [("s", U("x")), ("s", U("y")), ("s", U("<z>"))],
        [("i", -1), ("n", 1), ("s", U("1"))], [("t",), ("f",), ("z",)], [("s", U("a b")), ("s", U("&")), ("n", 0)]])
    others = rng.sample(MEMBER_KEYS, rng.randrange(1, 4))
    items = []
    n = rng.randrange(2, 7)
    for i in range(n):
        ms = [(U(o), rng.choice([("n", rng.randrange(0, 30)), ("s", U(rng.choice(["u", "v&", "w"]))), ("i", -rng.randrange(1, 9))])) for o in others if rng.random() < 0.85]
        if rng.random() < 0.3:
            ms.append((U(rng.choice(["zz", "e1", "e2"])), ("n", rng.randrange(0, 9))))
        # (no undefined members here: the doc code's `u` member is a LIVE member without a value, for which GroupBy
        # answers false by design - pinned by Tests/ValueTest.hpp, modelled in Model/Group.lean - not a removed one)
        rng.shuffle(ms)
        pos = rng.randrange(0, len(ms) + 1)       # the grouping member at ANY position
        ms.insert(pos, (U(gk), rng.choice(gvals)))
        items.append(("o", ms))
    extra = [(U("a"), ("n", rng.randrange(0, 9))), (U("b"), ("s", U(rng.choice(["B", "<b>", ""]))))]
    doc_members = [(U("d"), ("a", items))] + extra
    rng.shuffle(doc_members)
    # body: the group name (loop key rule), then the items of the group
    def member_ref(var):
        o = rng.choice(others + ["zz", gk])
        return rng.choice(["v", "v", "r"]) + dots(U("%s[%s]" % (var, o)))
    inner_body = [member_ref("X2") for _ in range(rng.randrange(1, 4))]
    if rng.random() < 0.3:
        inner_body.append("v" + dots(U("a")))
    inner_body.insert(0, "x" + dots(U("[")))
    inner_body.append("x" + dots(U("]")))
    inner = ["l%s:%s:%d" % (dots(U("X1")), dots(U("X2")), len(inner_body))] + inner_body
    outer_body = ["v" + dots(U("X1")), "x" + dots(U("="))] + inner + ["x" + dots(U(";"))]
    cnt = 4
    if rng.random() < 0.3:
        outer_body.append("v" + dots(U("X1[0][%s]" % rng.choice(others))))
        cnt += 1
    if rng.random() < 0.2:
        outer_body.append("r" + dots(U("X1[1][%s]" % gk)))   # the grouping member was dropped: unresolved
        cnt += 1
    toks = ["l%s:%s:%d" % (dots(U("G9")), dots(U("X1")), cnt)] + outer_body
    if rng.random() < 0.5:
        toks = ["v" + dots(U("a"))] + toks + ["x" + dots(U("|")), "v" + dots(U("b"))]
    return ("o", doc_members), ("a", items), gk, toks


def _subst(units, old, new):
    out, i, n = [], 0, len(old)
    hit = 0
    while i < len(units):
        if units[i:i + n] == old:
            out += new
            i += n
            hit += 1
        else:
            out.append(units[i])
            i += 1
    return out, hit


def c02_group(ctx, drv, exe, enc):
    """<loop set="d" group="k" value="X1"> on arrays of objects whose members are in different orders / have extra
    members before the grouping key (seeded/C02-c1: GroupBy by position).  Reference: the Lean grouping
    specification (driver op tplgroup = groupDocSpec, by member name) + the reference expansion (tplspec) of the
    same template looping over the grouped value."""
    rng = ctx.rng
    N = 1500 if not ctx.thorough else 15000
    cases = [_group_case(rng, enc) for _ in range(N)]
    glines = ["tplgroup 1 %s %s" % (enc(items), core.show_units(U(gk))) for (_, items, gk, _) in cases]
    gout, _ = core.run_lines_parallel(drv, glines, jobs=12, env=None)
    spec_lines, keep = [], []
    for (doc, items, gk, toks), g in zip(cases, gout):
        if not g.startswith("G ") or g == "G none":
            continue
        d2 = enc(doc) .split(",")
        # D' = D + {G9: grouped}: bump the member count of the root object
        assert d2[0].startswith("o")
        d2[0] = "o%d" % (int(d2[0][1:]) + 1)
        spec_lines.append("tplspec 1 %s,k%s,%s %s" % (",".join(d2), dots(U("G9")), g[2:], ",".join(toks)))
        keep.append((doc, gk))
    sout, _ = core.run_lines_parallel(drv, spec_lines, jobs=12, env=None)
    lines, expected = [], []
    skipped = 0
    for (doc, gk), sl, o in zip(keep, spec_lines, sout):
        t = o.split(" ")
        if len(t) != 4 or t[0] != "P" or t[2] != "E":
            skipped += 1
            continue
        units = [int(x) for x in t[1].split(",")]
        q = rng.choice(['"', "'"])
        atts = ['set=%s%s%s' % (q, "d", q), 'group=%s%s%s' % (q, gk, q)]
        rng.shuffle(atts)
        val = 'value="X1"'
        order = rng.randrange(3)
        new = " ".join([val] + atts if order == 0 else atts + [val] if order == 1 else [atts[0], val, atts[1]])
        units, hit = _subst(units, U('set="G9" value="X1"'), U(new))
        if hit != 1:
            skipped += 1
            continue
        w = rng.choice("1111124W")
        lines.append("tplrender %s %s %s" % (w, enc(doc), core.show_units(units)))
        expected.append("R " + t[3])
    if skipped or len(lines) < N // 2:
        ctx.infra_errors.append("group stream: %d of %d cases could not be prepared (driver tplgroup/tplspec protocol)" % (N - len(lines), N))
    impl, faults = core.run_lines_parallel(exe, lines, jobs=12)
    for i, kind, err in faults:
        ctx.fail("fault:" + kind, "sanitizer fault rendering a grouped loop: " + lines[i][:300], {"line": lines[i], "stderr": err})
    nbad = 0
    for i in range(len(lines)):
        if impl[i] != expected[i] and not impl[i].startswith("FAULT"):
            nbad += 1
            if nbad <= 100:
                t = lines[i].split(" ")
                ctx.fail("group-expansion-differs", "render of <loop group=> != documented expansion (grouping by member NAME): template %r value %s: real %r expected %r" % (
                    line_text(t[3]), t[2][:300], line_text(impl[i][2:]), line_text(expected[i][2:])), {"line": lines[i], "impl": impl[i], "expected": expected[i]})
    ctx.count("documented-expansion-of-group-loops", len(lines), len(set(lines)),
              sample={"stream": "group", "input": lines[0][:300] if lines else "", "impl": impl[0][:200] if lines else "", "expected": expected[0][:200] if lines else ""})
    ctx.notes.append("group loops: %d cases, %d mismatches" % (len(lines), nbad))


# =================================================================================================
# C17

def carry_reals(rng, precision):
    """doubles whose rounding at `precision` fraction digits carries out of the top digit (0.007 -> 0.01, 0.0096,
    9.996 -> 10, 99.999 -> 100), neighbours that do not, both signs"""
    out = []
    p = precision
    for k in range(-(p + 1), 5):                     # decade of the result 10^k
        top = Fraction(10) ** k
        ulp = Fraction(10) ** (-p)
        for eps in (Fraction(1, 10), Fraction(4, 10), Fraction(1, 2), Fraction(3, 10), Fraction(49, 100), Fraction(6, 10), Fraction(1)):
            out.append(float(top - ulp * eps))       # just below 10^k: rounds up into the next decade when eps <= 1/2
        out.append(float(top))
    out += [0.007, 0.0096, 0.005, 0.0051, 0.00999, 0.0099, 0.0049, 0.004, 9.996, 9.995, 9.9951, 99.999, 99.995, 999.996, 0.996, 0.995,
            0.9951, 0.95, 0.096, 0.5, 1.5, 12.125, 0.25, 3.0, 1e-7, 5e-324, 0.1, 0.01, 0.001, 1e15 - 0.004, 123456.995, 0.0, 65535.996]
    for _ in range(40):
        e = rng.randrange(-p - 2, 6)
        nines = rng.randrange(p + 2, p + 6)
        out.append(float(Fraction(10) ** e - Fraction(rng.randrange(1, 60), 10 ** nines)))
    out += [-x for x in out if x != 0.0][::2]
    return out


def template_precision():
    import os
    import re
    try:
        src = open(os.path.join(core.LEAN_DIR, "Qentem", "Generated", "Tmpl.lean")).read()
        m = re.search(r"def templatePrecision : Nat := (\d+)", src)
        return int(m.group(1)) if m else 2
    except OSError:
        return 2


def c17_round_c(ctx, exe, cache_lines):
    """(1) tplcopy: render through copy-constructed / copy-assigned / appended copies of the parsed tag array
    (the original destroyed) = fresh render, tag dumps equal; on the C17 cases and on raw-heavy templates.
    (2) tplappend: one cache, several values in turn, many consecutive renders appended to ONE stream, for every
    pre-existing stream length 0..64; values include reals whose rounding carries out of the top digit."""
    rng = ctx.rng
    from checks import c02 as G
    # ---- (1) ----
    copy_lines = [l.replace("tplcache", "tplcopy", 1) for l in cache_lines[::3]]
    raw_docs = [("o", [(U("x"), ("s", U(s))), (U("l"), ("a", [("s", U(s)), ("s", U("&amp;<"))])), (U("p"), ("s", U("{0}|{1}"))),
                       (U("o"), ("o", [(U("<k>"), ("a", [("n", 1)])), (U("q"), ("s", U(s)))]))])
                for s in ["<b>\"Tom\" & 'Jerry'</b>", "&", "<", "a>b", "'", "\"", "plain", "&amp;", ""]]
    raw_tmpls = ["{raw:x}", "{var:x}{raw:x}", "<loop set=\"l\" value=\"v\">{raw:v}|{var:v}</loop>", "<if case=\"1\">{raw:x}<else />{var:x}</if>",
                 "<if case=\"0\">{var:x}<elseif case=\"1\" />{raw:x}</if>", "{if case=\"1\" true=\"{raw:x}\" false=\"{var:x}\"}",
                 "{if case=\"0\" true=\"{var:x}\" false=\"{raw:x}\"}", "{svar:p, {raw:x}, {var:x}}", "{svar:p, {var:x}, {raw:x}}",
                 "<loop set=\"o\" value=\"v\">{raw:v}{var:v}</loop>", "<loop set=\"l\" value=\"v\"><if case=\"1\">{if case=\"1\" true=\"{raw:v}\"}{svar:p, {raw:v}, {raw:x}}</if></loop>",
                 "{raw:zz}{raw:x[0]}{math:1+1}{raw:l[1]}"]
    for d in raw_docs:
        for t in raw_tmpls:
            for w in ("1", "2") if len(copy_lines) % 3 == 0 else ("1",):
                copy_lines.append("tplcopy %s %s %s" % (w, G.enc(d), core.show_units(U(t))))
            copy_lines.append("tplcopy 4 %s %s" % (G.enc(d), core.show_units(U(t))))
    # ---- (2) ----
    prec = template_precision()
    reals = carry_reals(rng, prec)

    def rdoc(x):
        return ("r", x)

    def enc(doc):
        if doc[0] == "r":
            return _r(doc[1])
        if doc[0] == "a":
            return ",".join(["a%d" % len(doc[1])] + [enc(d) for d in doc[1]])
        if doc[0] == "o":
            return ",".join(["o%d" % len(doc[1])] + ["k" + dots(key) + "," + enc(d) for key, d in doc[1]])
        return G.enc(doc)
    app_tmpls = ["{var:n}", "<i>{var:n}</i>", "{raw:n}", "{math:{var:n}*1}", "{math:{var:n}+0.0}", "{var:n}{var:m}", "{var:s}{var:n}",
                 "<loop set=\"l\" value=\"v\">{var:v},</loop>", "{svar:p, {var:n}, {raw:m}}", "{if case=\"1\" true=\"{var:n}\" false=\"x\"}",
                 "<if case=\"{var:n} < 100000\">{var:n}<else />{raw:m}</if>", "{math:{var:n}/1}", "{var:l[0]}{var:l[1]}", "x{var:n}y", "{var:n} {math: 2 * {var:m}}"]
    app_lines = []
    n_app = 260 if not ctx.thorough else 2600
    for k in range(n_app):
        nv = rng.choice([1, 2, 3, 6])
        vals = []
        for _ in range(nv):
            vals.append(("o", [(U("n"), rdoc(rng.choice(reals))), (U("m"), rdoc(rng.choice(reals))),
                               (U("s"), ("s", U(rng.choice(["", "a", "abc", "<&>", "0123456789abcdef"])))), (U("p"), ("s", U("{0}/{1}"))),
                               (U("l"), ("a", [rdoc(rng.choice(reals)) for _ in range(rng.randrange(1, 4))]))]))
        t = app_tmpls[k % len(app_tmpls)]
        w = "1" if k % 5 else rng.choice("24W")
        app_lines.append("tplappend %s %s %s" % (w, enc(("a", vals)), core.show_units(U(t))))
    # every carry-class real once on its own, simplest template
    for x in reals:
        app_lines.append("tplappend 1 %s %s" % (enc(("o", [(U("n"), rdoc(x))])), core.show_units(U("{var:n}"))))
    # and the generated C17 cases (no reals) into pre-filled streams
    app_lines += [l.replace("tplcache", "tplappend", 1) for l in cache_lines[::40]]
    allx = copy_lines + app_lines
    impl, faults = core.run_lines_parallel(exe, allx, jobs=12)
    for i, kind, err in faults:
        what = "render through copies of the parsed tag array" if allx[i].startswith("tplcopy") else \
            "consecutive renders appended to one stream with pre-existing content (0..64 units)"
        ctx.fail("fault:" + kind, "sanitizer fault in %s: %s" % (what, allx[i][:300]), {"line": allx[i], "stderr": err})
    for l, o in zip(allx, impl):
        if o.startswith("FAULT") or o in ("K same", "A same"):
            continue
        if o.startswith("K"):
            key = "copied-tags-render-differs" if o.startswith("K diff") else "copied-tags-differ"
            ctx.fail(key, "a copy of the parsed tag array does not render / dump like the original: %s -> %s" % (l[:300], o[:400]), {"line": l, "impl": o})
        elif o.startswith("A"):
            key = "value-changed" if "value-changed" in o else "tags-changed" if "tags-changed" in o else "appended-render-differs"
            ctx.fail(key, "renders appended to one stream != <old content> + <fresh renders>: %s -> %s" % (l[:300], o[:300]), {"line": l, "impl": o})
        else:
            ctx.fail("harness-protocol", "unexpected answer %s to %s" % (o[:100], l[:200]), {"line": l, "impl": o})
    ctx.count("copies-of-the-parsed-tag-array (constructed, assigned, appended)", len(copy_lines), len(set(copy_lines)))
    ctx.count("appended-renders (pre-existing length 0..64, several values through one cache, carry-out reals)", len(app_lines), len(set(app_lines)),
              sample={"stream": "append", "input": app_lines[0][:300], "impl": impl[len(copy_lines)] if app_lines else ""})


# =================================================================================================
# C04, round e — comparisons of whole numbers above 2^53 across number kinds (seeded/C04-e2: the comparison
# operators converted Natural-vs-Integer operands to double, so two whole numbers closer than one double ulp
# compared equal).  Deterministic stream H + exact oracle on all entry points.

P53, P62, P63, P64 = 1 << 53, 1 << 62, 1 << 63, 1 << 64
CMP_OPS = ["==", "!=", "<", "<=", ">", ">="]


def _cmp(op, a, b):
    return {"==": a == b, "!=": a != b, "<": a < b, "<=": a <= b, ">": a > b, ">=": a >= b}[op]


def _producers(v, side):
    """ways to obtain the whole number v as an operand: {kind: [(text, vars)]}; kind n = Natural (unsigned),
    i = Integer (signed; only for v < 2^63), r = Real (only when v is exactly a double).  `side` names the variable."""
    a = side
    out = {"n": [], "i": [], "r": []}
    out["n"].append((str(v), {}))                                            # unsigned literal
    out["n"].append(("{var:%s}" % a, {a: "n%d" % v}))                        # unsigned variable
    if v + 1 < P64:
        out["n"].append(("(%d - 1)" % (v + 1), {}))                          # Natural - Natural (no borrow) stays Natural
    if v >= 1:
        out["n"].append(("({var:%s} + 1)" % a, {a: "n%d" % (v - 1)}))
    if v < P63:
        out["i"].append(("{var:%s}" % a, {a: "i%d" % v}))                    # signed variable (IntLong)
        out["i"].append(("(-1 + %d)" % (v + 1), {}))                         # a negative literal took part
        out["i"].append(("(0 - -%d)" % v, {}))                               # minus a negative literal
        out["i"].append(("(1 - 2 + %d)" % (v + 1), {}))                      # a natural difference below zero took part
        if v >= 1:
            out["i"].append(("({var:%s} + 1)" % a, {a: "i%d" % (v - 1)}))
        if v >= 1:
            out["i"].append(("({var:%s} - -1)" % a, {a: "n%d" % (v - 1)}))
    if float(v) == v and int(float(v)) == v:
        out["r"].append(("{var:%s}" % a, {a: _r(float(v))}))                 # a double variable holding exactly v
        out["r"].append(("({var:%s} * 1.0)" % a, {a: "n%d" % v}))            # Natural promoted to Real by the operation
        if v < P63:
            out["r"].append(("({var:%s} + 0.0)" % a, {a: "i%d" % v}))
    return out


def _vars(*ds):
    d = {}
    for x in ds:
        d.update(x)
    return ";".join("%s=%s" % kv for kv in sorted(d.items())) if d else "-"


# The unchanged code reads a Natural operand through the SIGNED member of the number union whenever it stands next
# to an integral operand, and also when it is the RIGHT operand of a Real (QExpression.hpp, the six comparison
# operators; notes/design-expr.md "Natural operands >= 2^63").  Such results are recorded, not judged, until the
# repair proposed in notes/fix-expr-natural-above-int63-compare.diff is in the tree; then make this True
# (C04_NAT63_JUDGED=1 in the environment turns it on for a trial run against a patched copy).
import os as _os
NAT63_JUDGED = _os.environ.get("C04_NAT63_JUDGED", "1") == "1"   # judged; failures of this class carry their own key (recorded finding)


def _expect(ka, a, kb, b, op):
    """(truth or None, class) of `a op b`, a the LEFT operand: the documented arithmetic.  Two integral operands:
    exact comparison of the whole numbers (= unsigned -> signed promotion without loss whenever every Natural is
    below 2^63).  With a Real operand the other side is promoted to Real (nearest double) and two doubles are
    compared.  Class nat63 (see NAT63_JUDGED): a Natural >= 2^63 next to an integral operand or right of a Real."""
    if ka == "r" or kb == "r":
        truth = _cmp(op, float(a), float(b))
        if ka == "r" and kb == "n" and b >= P63:
            return (truth if NAT63_JUDGED else None), "nat63"
        return truth, "real"
    truth = _cmp(op, a, b)
    if (ka == "n" and a >= P63) or (kb == "n" and b >= P63):
        return (truth if NAT63_JUDGED else None), "nat63"
    return truth, "int"


def c04_huge_compare(gen):
    """stream H.  Fills gen.huge: (text, vars) -> (truth 0/1 or None, class, exact truth).  Returns the count."""
    rng = gen.rng
    base = [P53 - 1, P53, P53 + 1, P53 + 2, P62, P63 - 1, P63, P63 + 1, P64 - 1]
    rnd = [rng.randrange(P53, P62) for _ in range(5)] + [rng.randrange(P62, P63 - 4) for _ in range(4)] + [rng.randrange(P63, P64 - 4) for _ in range(3)]
    pairs = []
    for x in base:
        for y in base:
            pairs.append((x, y))
    for x in base + rnd:
        for d in (-3, -2, -1, 0, 1, 2, 3):
            if 0 <= x + d < P64:
                pairs.append((x, x + d))
                pairs.append((x + d, x))
    pairs = list(dict.fromkeys(pairs))
    gen.huge = {}
    n0 = len(gen.exprs)
    rot = 0

    def one(x, y, ka, kb, op, k):
        pa, pb = _producers(x, "a")[ka], _producers(y, "b")[kb]
        if not pa or not pb:
            return
        ta, va = pa[k % len(pa)]
        tb, vb = pb[(k // 3 + k) % len(pb)]
        truth, cls = _expect(ka, x, kb, y, op)
        text = ("%s OP %s" % (ta, tb)).replace("OP", op)
        sp = "" if k % 3 == 0 else " "
        text = text.replace(" %s " % op, sp + op + sp) if not (sp == "" and tb.startswith("-")) else text
        gen.add_raw("H", text, _vars(va, vb))
        exact = _cmp(op, float(x), float(y)) if "r" in (ka, kb) else _cmp(op, x, y)
        gen.huge[(text, _vars(va, vb))] = (None if truth is None else int(truth), cls, int(exact))
    for (x, y) in pairs:
        for ka in "nir":
            for kb in "nir":
                mixed_int = {ka, kb} == {"n", "i"}
                for oi, op in enumerate(CMP_OPS):
                    rot += 1
                    if mixed_int or (oi + rot) % 3 == 0:
                        one(x, y, ka, kb, op, rot)
    # every producer of each kind at least once against the neighbour above / below, all operators
    for x in (P53, P53 + 1, P62 + 1, P63 - 2):
        for ka in "nir":
            for k in range(6):
                for kb in "nir":
                    for op in CMP_OPS:
                        rot += 1
                        if (rot + k) % 2:
                            one(x, x + 1, ka, kb, op, k)
                            one(x + 1, x, kb, ka, op, k + rot)
    # && / || over two comparisons (comparisons bind tighter), with and without parentheses
    for j, (x, y) in enumerate(pairs[::3]):
        if x >= P63 or y >= P63:
            continue
        op1, op2 = CMP_OPS[j % 6], CMP_OPS[(j // 6 + 1) % 6]
        ka, kb = ("n", "i") if j % 2 else ("i", "n")
        pa, pb = _producers(x, "a")[ka], _producers(y, "b")[kb]
        pc, pd = _producers(y, "c")[ka], _producers(x, "d")[kb]
        (ta, va), (tb, vb), (tc, vc), (td, vd) = pa[j % len(pa)], pb[j % len(pb)], pc[(j + 1) % len(pc)], pd[(j + 2) % len(pd)]
        t1, t2 = _cmp(op1, x, y), _cmp(op2, y, x)
        for lg in ("&&", "||"):
            truth = int((t1 and t2) if lg == "&&" else (t1 or t2))
            text = "%s %s %s %s %s %s %s" % (ta, op1, tb, lg, tc, op2, td) if j % 4 else "(%s %s %s) %s (%s %s %s)" % (ta, op1, tb, lg, tc, op2, td)
            vs = _vars(va, vb, vc, vd)
            gen.add_raw("H", text, vs)
            gen.huge[(text, vs)] = (truth, "logic", truth)
    # Reals that are NOT whole numbers next to huge whole numbers (they exist only below 2^53), and the doubles
    # adjacent to a huge whole number; same-kind and mixed
    for x in (1 << 52, (1 << 52) + 1, P53 - 2, P53 - 1, P53):
        for fr in (x - 0.5, x + 0.5, x - 1.5, float(x)):
            if fr != int(fr) or fr == float(x):
                for ka in "nir":
                    for op in CMP_OPS:
                        rot += 1
                        pa = _producers(x, "a")[ka]
                        if not pa:
                            continue
                        ta, va = pa[rot % len(pa)]
                        for flip in (0, 1):
                            text = "%s %s {var:b}" % (ta, op) if not flip else "{var:b} %s %s" % (op, ta)
                            vs = _vars(va, {"b": _r(fr)})
                            truth, cls = _expect(ka, x, "r", fr, op) if not flip else _expect("r", fr, ka, x, op)
                            exact = _cmp(op, float(x), fr) if not flip else _cmp(op, fr, float(x))
                            gen.add_raw("H", text, vs)
                            gen.huge[(text, vs)] = (None if truth is None else int(truth), "real-fraction" if cls == "real" else cls, int(exact))
    import math
    for x in base + rnd[:6]:
        fx = float(x)
        for fr in (math.nextafter(fx, 0.0), fx, math.nextafter(fx, math.inf)):
            if fr >= 1.8e19:
                continue
            for ka in "ni":
                pa = _producers(x, "a")[ka]
                for op in CMP_OPS:
                    rot += 1
                    if not pa or rot % 2:
                        continue
                    ta, va = pa[rot % len(pa)]
                    text = "%s %s {var:b}" % (ta, op) if rot % 4 else "{var:b} %s %s" % (op, ta)
                    vs = _vars(va, {"b": _r(fr)})
                    truth, cls = _expect(ka, x, "r", fr, op) if rot % 4 else _expect("r", fr, ka, x, op)
                    exact = _cmp(op, fx, fr) if rot % 4 else _cmp(op, fr, fx)
                    gen.add_raw("H", text, vs)
                    gen.huge[(text, vs)] = (None if truth is None else int(truth), "real-adjacent" if cls == "real" else cls, int(exact))
    # == / != of a huge unsigned and a negative signed number (wrap candidates: the same 64-bit pattern)
    for u, s in ((P64 - 1, -1), (P64 - 2, -2), (P63, -P63 + 1), (P63 + 5, 5 - P63), (P64 - P53, -P53), (P63 - 1, -1), (P62, -P62), (P53 + 1, -(P53 + 1))):
        for tu, vu in _producers(u, "a")["n"][:2]:
            for ts, vsd in (("{var:b}", {"b": "i%d" % s}), ("%d" % s, {}), ("(0 - %d)" % (-s), {})):
                for op in CMP_OPS:
                    for flip in (0, 1):
                        text = "%s %s %s" % ((tu, op, ts) if not flip else (ts, op, tu))
                        vs = _vars(vu, vsd)
                        exact = int(_cmp(op, u, s) if not flip else _cmp(op, s, u))
                        truth, cls = _expect("n", u, "i", s, op) if not flip else _expect("i", s, "n", u, op)
                        gen.add_raw("H", text, vs)
                        gen.huge[(text, vs)] = (None if truth is None else int(truth), cls, exact)
    return len(gen.exprs) - n0


def c04_huge_compare_oracle(ctx, exe, gen, exprs, meta, lines, impl, units_of):
    """exact oracle on what the real code returned for stream H in the entry points {math:}, <if case>,
    ParseExpressions+Evaluate (already run) and the inline if (mode q, run here)."""
    huge = getattr(gen, "huge", {})
    idx = [k for k, e in enumerate(exprs) if e["stream"] == "H" and (e["text"], e["vars"]) in huge]
    qlines = ["expeval q %s %s" % (exprs[k]["vars"], units_of(exprs[k]["text"])) for k in idx]
    qout, qfaults = core.run_lines_parallel(exe, qlines, jobs=12)
    for i, kind, err in qfaults:
        ctx.fail("fault:" + kind, "sanitizer fault in an inline if over huge operands: " + qlines[i], {"line": qlines[i], "stderr": err})
    results = [(lines[i], impl[i], exprs[k], mode) for i, (k, mode) in enumerate(meta) if exprs[k]["stream"] == "H"]
    results += [(qlines[j], qout[j], exprs[k], "q") for j, k in enumerate(idx)]
    n, nbad, obs, obs_wrong, per_cls = 0, 0, 0, [], {}
    for line, out, e, mode in results:
        info = huge.get((e["text"], e["vars"]))
        if info is None or out.startswith("FAULT"):
            continue
        truth, cls, exact = info
        judge = exact if truth is None else truth
        want = {"p": "V n %d %d" % (judge, judge), "m": "M %d" % (48 + judge), "i": "I %d" % (70 if judge == 0 else 84), "q": "Q %d" % (70 if judge == 0 else 84)}[mode]
        if truth is None:
            obs += 1
            if out != want and len(obs_wrong) < 6 and mode == "p":
                obs_wrong.append("%s [%s] -> %s (exact: %d)" % (e["text"], e["vars"], out, exact))
            continue
        n += 1
        per_cls[cls] = per_cls.get(cls, 0) + 1
        if out != want:
            nbad += 1
            if nbad <= 300:
                ctx.fail("natural-above-int63-compare" if cls == "nat63" else "oracle:huge-compare", "comparison of whole numbers above 2^53 / across number kinds differs from exact arithmetic (%s, class %s): %r (vars %s) -> %s, expected %s" % (
                    {"p": "Evaluate", "m": "{math:}", "i": "<if case>", "q": "inline if"}[mode], cls, e["text"], e["vars"], out, want),
                    {"line": line, "text": e["text"], "vars": e["vars"], "mode": mode, "impl_output": out, "expected": want, "class": cls})
    ctx.count("S3-huge-compare (H stream: kinds N/I/R x six comparisons, && ||, four entry points)", n, n,
              sample={"stream": "S3-huge-compare", "cases": n, "failures": nbad, "per class": per_cls})
    ctx.notes.append("stream H: %d judged results (%s), %d failures; %d results with a Natural operand >= 2^63 next to an integral operand are observed only "
                     "(the unchanged code promotes through the signed member, notes/design-expr.md); examples where the code differs from exact arithmetic: %s" % (
                         n, ", ".join("%s:%d" % kv for kv in sorted(per_cls.items())), nbad, obs, "; ".join(obs_wrong) or "none"))
