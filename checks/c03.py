"""C03 — {var:} output is HTML-safe for every string; {raw:} is verbatim."""
import itertools
from vlib import core
from checks import _tmpl_streams as T

META = {
    "property_id": "C03",
    "technique": "Lean 4 theorems over all code-unit strings (structural induction on the escaper model) + model/implementation correspondence on exhaustive small domains",
    "level": "proof",
    "design_ref": "DESIGN.md §6 C03",
    "text": "Kernel-checked theorems: for every list of code units the escaper model emits no raw < > \" ', emits & only as the start of one of the five entities, decoding commutes, escaping is idempotent; with the flag off it is the identity. The model is tied to StringUtils::EscapeHTMLSpecialChars by exhaustive enumeration of short strings over entity-fragment alphabets in four character widths and both flag settings, and the entity tables are re-extracted from the headers and proved equal to the standard entities on every run.",
    "note": "Trusted: Lean kernel; axioms ⊆ {propext, Quot.sound, Classical.choice}; g++ as table translator; the correspondence harness (ASan/UBSan, exact-size buffers). The template-level print paths are proved on the Render model (C03Tmpl: every Variable tag appends escapeCfg of the resolved string / loop key / own source slice or a numeral text that contains no special; Raw tags append verbatim) and tied to the real renderer by the template print-path stream.",
}

THEOREMS = [
    "Qentem.Props.C03.escape_no_raw_special",
    "Qentem.Props.C03.escape_amp_only_entities",
    "Qentem.Props.C03.decode_escape",
    "Qentem.Props.C03.escape_idem",
    "Qentem.Props.C03.escape_off",
    "Qentem.Props.C03.tables_are_the_five_entities",
    "Qentem.Props.C03.escape_single_special",
    "Qentem.Props.C03Tmpl.var_emits_escaped",
    "Qentem.Props.C03Tmpl.raw_emits_verbatim",
    "Qentem.Props.C03Tmpl.raw_string_verbatim",
    "Qentem.Props.C03Tmpl.svar_emits",
    "Qentem.Props.C03Tmpl.numeral_safe",
    "Qentem.Props.C03Tmpl.var_text_safe",
]

ALPHA1 = [38, 59, 97, 109, 112, 108, 116, 60]          # & ; a m p l t <
ALPHA2 = [38, 59, 113, 117, 111, 116, 97, 112, 115, 39]  # & ; q u o t a p s '
ALPHA3 = [38, 59, 103, 116, 62, 34]                    # & ; g t > "
ENT = [[38, 97, 109, 112, 59], [38, 108, 116, 59], [38, 103, 116, 59], [38, 113, 117, 111, 116, 59], [38, 97, 112, 111, 115, 59]]


def gen_inputs(ctx):
    L = 5 if not ctx.thorough else 7
    seen = set()
    out = []

    def add(u):
        t = tuple(u)
        if t not in seen:
            seen.add(t)
            out.append(list(u))
    for n in range(0, L + 1):
        for t in itertools.product(ALPHA1, repeat=n):
            add(t)
    for n in range(0, (L if ctx.thorough else L) + 1 - 1):
        for t in itertools.product(ALPHA2, repeat=n):
            add(t)
    for n in range(0, L + 1):
        for t in itertools.product(ALPHA3, repeat=n):
            add(t)
    # every entity, and every entity with one unit changed/dropped, placed 0..7 units before the end
    rng = ctx.rng
    for e in ENT:
        for cut in range(len(e) + 1):
            for pad in range(0, 8):
                add([120] * 2 + e[:cut] + [121] * pad)
                add(e[:cut] + e)
                add(e + e[:cut])
        for i in range(len(e)):
            for repl in (38, 59, 0, 65, e[i] + 1):
                f = list(e); f[i] = repl
                add(f + [122]); add([60] + f)
    # random strings over all code units of each width, biased to specials and entity fragments
    N = 20000 if not ctx.thorough else 400000
    for _ in range(N):
        n = rng.randrange(0, 40)
        u = []
        while len(u) < n:
            r = rng.random()
            if r < 0.25:
                u.append(rng.choice([38, 60, 62, 34, 39, 59]))
            elif r < 0.45:
                e = rng.choice(ENT); u.extend(e[:rng.randrange(1, len(e) + 1)])
            elif r < 0.9:
                u.append(rng.randrange(0, 128))
            else:
                u.append(rng.randrange(0, 256))
        add(u)
    return out


def run(ctx):
    ctx.gen_constants(["Escape", "Expr", "Tmpl"])
    ctx.prove(["Qentem.Props.C03", "Qentem.Props.C03Tmpl"], THEOREMS)
    drv = ctx.build_driver()
    h_on = ctx.build_harness("escape_harness.cpp", tag="san_on")
    h_off = ctx.build_harness("escape_harness.cpp", flags=core.SAN_FLAGS + ["-DQENTEM_AUTO_ESCAPE_HTML=0"], tag="san_off")
    if not (drv and h_on and h_off):
        return
    inputs = gen_inputs(ctx)
    rng = ctx.rng
    # wide code units for the wide builds
    wide = []
    for _ in range(3000 if not ctx.thorough else 60000):
        n = rng.randrange(0, 24)
        wide.append([rng.choice([38, 60, 62, 34, 39, 59, 97, 0x26 + 0x100, 0x3C + 0x10000, rng.randrange(0, 0x10000)]) for _ in range(n)])
    for auto, exe in ((1, h_on), (0, h_off)):
        lines = []
        for w in ("1", "2", "4", "W"):
            src = inputs if (w == "1" or ctx.thorough) else inputs[::7]
            if auto == 0:
                src = src[::5]
            for k, u in enumerate(src):
                lines.append("%s %d %s %s" % ("escp" if k % 3 == 0 else "esc", auto, w, core.show_units(u)))
            if w != "1":
                for u in wide:
                    uu = [x & 0xFFFF for x in u] if w == "2" else u
                    lines.append("esc %d %s %s" % (auto, w, core.show_units(uu)))
        impl, faults = core.run_lines_parallel(exe, lines, jobs=12)
        model, _ = core.run_lines_parallel(drv, lines, jobs=12, env=None)
        for i, kind, err in faults:
            ctx.fail("fault:" + kind, "sanitizer fault in EscapeHTMLSpecialChars on " + lines[i], {"line": lines[i], "stderr": err})
        bad = ctx.correspond("escape(auto=%d)" % auto, lines, impl, model,
                             nontrivial=lambda l: any(t in ("38", "60", "62", "34", "39") for t in l.split(" ")[3].split(",")))
        # S3: the C03 predicates (Lean definitions) on the implementation's output, and idempotence on the real code
        olines, idx = [], []
        for i, l in enumerate(lines):
            if impl[i].startswith("FAULT") or impl[i] in ("prefix-disturbed", "cfg-mismatch", "bad-op"):
                if not impl[i].startswith("FAULT"):
                    ctx.fail("stream:" + impl[i], "escaper reported %s on %s" % (impl[i], l), {"line": l})
                continue
            t = l.split(" ")
            olines.append("escoracle %d %s %s %s" % (auto, t[2], t[3], impl[i]))
            idx.append(i)
        verdicts, _ = core.run_lines_parallel(drv, olines, jobs=12, env=None)
        for j, v in enumerate(verdicts):
            if v != "ok":
                i = idx[j]
                ctx.fail("oracle:" + v, "C03 predicate '%s' fails on the implementation output: input %s output %s" % (v, lines[i], impl[i]),
                         {"line": lines[i], "impl_output": impl[i], "predicate": v})
        if auto == 1:
            l2 = ["esc 1 %s %s" % (lines[i].split(" ")[2], impl[i]) for i in idx]
            impl2, f2 = core.run_lines_parallel(exe, l2, jobs=12)
            for j, o in enumerate(impl2):
                if o != impl[idx[j]]:
                    ctx.fail("oracle:not-idempotent", "escaping the escaped text changed it: %s -> %s" % (l2[j], o), {"line": l2[j], "impl_output": o})
            ctx.count("idempotence-on-impl", len(l2), len(set(l2)))
    template_paths(ctx, drv, h_on, h_off, inputs)
    T.c03_round_c(ctx, drv, h_on, h_off, inputs)     # copied tag arrays, nested raw/var positions, wide units (round c)
    ctx.assumptions += ["code units modelled as Nat; widths 1/2/4/wchar_t exercised by the harness",
                        "template print paths reach the escaper only through StringUtils::EscapeHTMLSpecialChars (checked by rendering in C01/C02 harness)"]


MODES = ["var", "ptr", "ptr2", "ptr3", "rawptr2", "loopptr2", "svarptr2", "iifptr2", "arr", "loopval", "loopkey", "echo", "raw", "rawptr", "svar", "svarb"]


def template_paths(ctx, drv, h_on, h_off, inputs):
    """Every tag position that prints text (C03): the string behind a {var:} — direct, behind a
    pointer-to-value, array item, loop value, loop key, the echoed source of an unresolved tag,
    a super-variable phrase and its sub-variable — must come out exactly as the escaper model
    says (verbatim for {raw:} and when auto-escape is off)."""
    rng = ctx.rng
    pool = [u for u in inputs if len(u) <= 12]
    sample = rng.sample(pool, min(len(pool), 2500 if not ctx.thorough else 40000))
    sample += [[38], [60], [62], [34], [39], [38, 97, 109, 112, 59], [38, 97, 109, 112], [60, 38], []]
    for auto, exe in ((1, h_on), (0, h_off)):
        lines, exp_src = [], []
        for k, u in enumerate(sample if auto == 1 else sample[::4]):
            w = ("1", "2", "4")[k % 3]
            for m in MODES:
                if m == "loopkey" and not u:
                    continue
                if m == "echo" and any(x in (123, 125, 91, 93, 0) for x in u):
                    continue   # the name would end the tag early / be an index expression
                if m == "svarb" and (any(x in (123, 125) for x in u) or (len(u) == 1 and 48 <= u[0] <= 57)):
                    continue   # "{d}" with one digit is a placeholder; braces would nest
                lines.append("tpl %d %s %s %s" % (auto, w, m, core.show_units(u)))
                if m == "echo":
                    src = [123, 118, 97, 114, 58] + u + [125]
                    exp_src.append(("esc", [src]))
                elif m in ("raw", "rawptr", "rawptr2"):
                    exp_src.append(("id", [u]))
                elif m == "svar":
                    exp_src.append(("esc", [u, u]))
                elif m == "svarb":
                    exp_src.append(("esc", [[123] + u + [125], u]))
                else:
                    exp_src.append(("esc", [u]))
        impl, faults = core.run_lines_parallel(exe, lines, jobs=12)
        for i, kind, err in faults:
            ctx.fail("fault:" + kind, "sanitizer fault while rendering " + lines[i], {"line": lines[i], "stderr": err})
        # expected text from the Lean model (escape of each piece, concatenated)
        mlines, owner = [], []
        for i, (kind, parts) in enumerate(exp_src):
            for pt in parts:
                mlines.append("esc %d 1 %s" % (auto if kind == "esc" else 0, core.show_units(pt)))
                owner.append(i)
        mout, _ = core.run_lines_parallel(drv, mlines, jobs=12, env=None)
        pieces = [[] for _ in lines]
        for o, out in zip(owner, mout):
            pieces[o] += [] if out == "-" else out.split(",")
        model = [",".join(p) if p else "-" for p in pieces]
        bad = ctx.correspond("template-print-paths(auto=%d)" % auto, lines, impl, model,
                             nontrivial=lambda l: any(t in ("38", "60", "62", "34", "39") for t in l.split(" ")[4].split(",")))
        # a disagreement here is a C03 failure whenever the Lean predicates reject the real output
        olines, idx = [], []
        for i in bad:
            if impl[i].startswith("FAULT"):
                continue
            kind, parts = exp_src[i]
            if kind == "id" or auto == 0:
                ctx.fail("not-verbatim", "text that must be emitted unchanged was altered: %s -> %s" % (lines[i], impl[i]), {"line": lines[i], "impl_output": impl[i]})
            elif len(parts) == 1:
                olines.append("escoracle 1 1 %s %s" % (core.show_units(parts[0]), impl[i])); idx.append(i)
            else:
                ctx.fail("oracle:svar", "super-variable output differs from the escaped phrase and value: %s -> %s" % (lines[i], impl[i]), {"line": lines[i], "impl_output": impl[i]})
        if olines:
            verdicts, _ = core.run_lines_parallel(drv, olines, jobs=4, env=None)
            for j, v in enumerate(verdicts):
                if v != "ok":
                    i = idx[j]
                    ctx.fail("oracle:" + v, "C03 predicate '%s' fails on rendered output: %s -> %s" % (v, lines[i], impl[i]), {"line": lines[i], "impl_output": impl[i], "predicate": v})


FINISH = dict(level="proof",
              rule="exhaustive strings up to length 5 (quick) / 7 (thorough) over three entity-fragment alphabets, mutated and truncated entities at every distance from the end, random strings over all code units; 4 widths x flag on/off; round c: every print path also through copied tag arrays and in nested positions (loop / if / inline-if / svar sub-tags), wide strings on every path; non-trivial = contains a special character",
              checker_cmd="cd lean && lake build Qentem.Props.C03 && lake env lean <#print axioms of the 7 theorems>")
