"""Shared generators / helpers of the number-formatting checks (C10, C11)."""
import os
import struct
import subprocess

from vlib import core

NPF = 41 * 3          # formattings behind one n2sra / n2sspeca line (precision 0..40 x 3 formats)
FMT_NAMES = ["default", "fixed", "semifixed"]


def d2b(x):
    return struct.unpack("<Q", struct.pack("<d", x))[0]


def b2d(b):
    return struct.unpack("<d", struct.pack("<Q", b))[0]


def f2b(x):
    return struct.unpack("<I", struct.pack("<f", x))[0]


def b2f(b):
    return struct.unpack("<f", struct.pack("<I", b))[0]


def text(units):
    if units in ("-", ""):
        return ""
    try:
        return "".join(chr(int(x)) for x in units.split(","))
    except ValueError:
        return units


def finite_d(b):
    return (b >> 52) & 0x7FF != 0x7FF


def finite_f(b):
    return (b >> 23) & 0xFF != 0xFF


def _dedupe(seq):
    seen, out = set(), []
    for x in seq:
        if x not in seen:
            seen.add(x)
            out.append(x)
    return out


def fits_float(x):
    try:
        struct.pack("<f", x)
        return True
    except OverflowError:
        return False


def nice_reals():
    """Short decimals, exact ties, dyadic fractions, runs of nines: the values on which digit
    dropping, half-even ties, carries and zero restoring happen (as python floats)."""
    v = []
    for k in range(0, 1101):
        v.append(float(k))
    for k in range(1, 1000):
        for j in (-7, -5, -4, -3, -2, -1, 1, 2, 3, 5, 9, 15, 21):
            v.append(float("%de%d" % (k, j)))
    for k in range(0, 260):
        for frac in (0.5, 0.25, 0.75, 0.125, 0.375, 0.0625, 0.03125):
            v.append(k + frac)
    for j in range(1, 13):
        for k in range(1, 200, 2):
            v.append(k / 2.0 ** j)
    for n in range(1, 19):
        nines = "9" * n
        for s in (nines, "0." + nines, nines + ".5", "0." + nines + "5", nines + "5", "0.0" + nines, "0.000" + nines + "5",
                  nines + "e10", nines + "5e20", "1" + "0" * n + "1", "0." + "0" * n + "1", "4" + nines, "0.4" + nines, "0.5" + "0" * n + "1"):
            v.append(float(s))
    for k in range(0, 23):
        v += [float(10 ** k), float(10 ** k - 1), float(10 ** k + 1), float(5 * 10 ** k), float(25 * 10 ** k), float(15 * 10 ** k)]
    for e in (24, 31, 32, 52, 53, 54, 63, 64, 65, 100, 127, 128):
        v += [2.0 ** e, 2.0 ** e - 1, 2.0 ** e + 1, 2.0 ** e * 1.5]
    return v



# ---- directed classes: information carried in the low / high bits of an intermediate ---------------------------
#
# Random and boundary sampling reaches "a remainder is zero / non-zero" but not "the remainder is non-zero only in
# its high (or only in its low) bits".  Each class below builds values for which one intermediate of the pipeline
# has that structure, so a truncation of the intermediate (a 32-bit accumulator, a test of one word only, ...)
# changes the printed digits.

TIE_HEADS = [2, 25, 15, 45, 65, 85, 35, 105, 125, 995, 985, 1005, 12345, 99995, 100005, 4444445, 7654325]
STICKY_SHIFTS = [1, 8, 16, 24, 31, 32, 33, 40, 48]


def _tie_qs(limit):
    """kept digits followed by the tie digit: ...e5 and ...o5 of several lengths, below `limit`"""
    out = []
    for q in TIE_HEADS:
        if q % 10 != 5:
            q = q * 10 + 5
        if q < limit:
            out.append(q)
    return out


def sticky_drop_values(rng, thorough, mant_bits=53):
    """Integer side (`bigIntDropDigits`): v = (q*5^d + j*2^k) * 2^(d+t).  Dropping d decimal digits divides
    q*5^d + j*2^k by 5^d: quotient q (a decimal tie ...5 at precision digits(q)-1), remainder j*2^k whose low k bits
    are zero.  The value is strictly above the tie, so it must round up; a sticky flag that looks at the low
    32 (16, 8, ...) bits of the remainder only sees a tie and rounds to even."""
    top = 1 << mant_bits
    ds = range(1, 23) if thorough else [1, 2, 3, 5, 8, 11, 13, 14, 15, 16, 17, 18, 20, 22]
    vals = []
    for d in ds:
        p5 = 5 ** d
        for q in _tie_qs(top // p5 + 1):
            base = q * p5
            if base >= top:
                continue
            for k in STICKY_SHIFTS:
                js = ([1, 2, 3, 5, 7] if thorough else [1, 3]) + [rng.randrange(1, 1 << 12) for _ in range(3 if thorough else 1)]
                for j in js:
                    r = j << k
                    if r >= p5 or base + r >= top:
                        continue
                    for t in ((0, 1, 3, 11) if thorough else (rng.choice([0, 0, 1, 2, 7]),)):
                        vals.append((base + r) << (d + t))
            # the exact tie and the largest remainder, for contrast
            vals += [base << d, (base + min(p5 - 1, top - base - 1)) << d]
    return vals


def sticky_fraction_values(rng, thorough, mant_bits=53):
    """Fraction side: a decimal tie that is exactly representable (n / 2^m: its expansion ends in 5) plus or minus
    one far bit: x * (1 +- 2^-k).  The discarded part of the expansion is then non-zero only far below the rounding
    digit (k = 24, 31, 32, 33, 40, 48, 52: across the 32- and 64-bit word boundaries of the BigInt)."""
    import math
    vals = []
    ms = range(1, 21) if thorough else [1, 2, 3, 4, 6, 9, 12, 16, 20]
    for m in ms:
        ns = [1, 3, 5, 7, 9, 11, 25, 125, 1023, 2 ** m - 1, 2 ** m + 1, 3 * 2 ** m + 1, 10 * 2 ** m + 5] + \
             [rng.randrange(1, 1 << (m + 7)) | 1 for _ in range(6 if thorough else 2)]
        if not thorough:
            ns = ns[::2]
        for n in ns:
            x = n / 2.0 ** m
            mant, ex = math.frexp(x)
            for k in [24, 31, 32, 33, 40, 48, mant_bits - 2, mant_bits - 1]:
                if k >= mant_bits:
                    continue
                bit = math.ldexp(1.0, ex - 1 - k)
                for y in (x + bit, x - bit, x + 3 * bit):
                    if y > 0:
                        vals.append(y)
            vals.append(x)
    return vals


def word_boundary_values(rng, thorough):
    """Integer-valued doubles mant * 2^s whose set bits sit at the 32- and 64-bit word boundaries of the BigInt
    after the left shift: mantissas with bits at positions 0, 31, 32, 33, 52 and shifts around multiples of 64."""
    mants = [1 << 52, (1 << 53) - 1, (1 << 52) + 1, (1 << 52) + (1 << 32), (1 << 52) + (1 << 31), (1 << 52) + (1 << 32) - 1,
             (1 << 52) + (1 << 33) + 1, ((1 << 21) - 1) << 32, (((1 << 21) - 1) << 32) + 1, (1 << 52) + ((1 << 32) - 1)]
    shifts = []
    for w in range(0, 16):
        for dlt in (-1, 0, 1, 11, 12, 31, 32, 33):
            sft = 64 * w + dlt
            if 0 <= sft <= 971:
                shifts.append(sft)
    if not thorough:
        shifts = shifts[::3] + rng.sample(shifts, 12)
    vals = []
    for sft in shifts:
        for mnt in (mants if thorough else rng.sample(mants, 4)):
            vals.append(mnt << sft)
    return vals


def chunk_remainder_values(rng, thorough):
    """`bigIntToString` divides by 10^19 repeatedly; each remainder becomes 19 digits.  Values mant * 2^s for
    which a remainder is non-zero with its low 32 bits zero (and ones that are below 2^32), found by search."""
    vals = []
    tries = 60000 if thorough else 9000
    P = 10 ** 19
    for s_ in ([40, 64, 90, 130, 200, 400, 700] if thorough else [64, 130, 400]):
        found = 0
        for _ in range(tries):
            mnt = rng.getrandbits(52) | (1 << 52)
            n = mnt << s_
            hit = False
            while n:
                n, r = divmod(n, P)
                if r and (r % (1 << 32) == 0 or r < (1 << 32)):
                    hit = True
                    break
            if hit:
                vals.append(mnt << s_)
                found += 1
                if found >= (12 if thorough else 4):
                    break
    return vals


def directed_doubles(rng, thorough):
    out = []
    ints = sticky_drop_values(rng, thorough) + word_boundary_values(rng, thorough) + chunk_remainder_values(rng, thorough)
    for n in ints:
        x = float(n)
        if int(x) == n:
            out.append(d2b(x))
            if rng.random() < (1.0 if thorough else 0.25):
                out.append(d2b(-x))
    for y in sticky_fraction_values(rng, thorough):
        out.append(d2b(y))
        if rng.random() < 0.15:
            out.append(d2b(-y))
    return _dedupe(out)


def directed_floats(rng, thorough):
    out = []
    for n in sticky_drop_values(rng, thorough, mant_bits=24):
        x = float(n)
        if fits_float(x) and b2f(f2b(x)) == x:
            out.append(f2b(x))
            out.append(f2b(-x))
    for y in sticky_fraction_values(rng, thorough, mant_bits=24):
        if fits_float(y) and b2f(f2b(y)) == y:
            out.append(f2b(y))
    return _dedupe(out)


WIDTHS = ["1", "2", "4", "W"]     # char, char16_t, char32_t, wchar_t (wchar_t has its own DigitUtils tables)


def padding_doubles():
    """Values whose texts contain every run length of padding zeros the property's precisions allow: trailing
    zeros of Fixed (few fraction digits: run = precision - fraction digits, 0..40), leading zeros after `0.`
    (10^-k, 5*10^-k, 2^-k: run up to 40), texts that are all zeros (values rounding to zero), the 19-digit chunk
    padding of `bigIntToString`, and the integer-valued cases."""
    import math
    v = [0.0, -0.0, 1.0, -2.0, 1.5, -1.5, 0.25, 0.125, 0.0625, 7.0, 10.0, 123456.0, 1e15, 1e19, 1e20, 1e38, 2.0 ** 60, 2.0 ** 64,
         2.0 ** 100, 1e22, 1e23, 12345678901234567890.0, 1e100, 5e-324, 2.2250738585072014e-308, 0.5, 0.75, 2.5, 1e-5, 9.5, 0.1, 1 / 3.0]
    for k in range(1, 46):
        v += [float("1e-%d" % k), float("5e-%d" % k), float("25e-%d" % (k + 1)), math.ldexp(1.0, -k), math.ldexp(3.0, -k)]
    for k in range(1, 20):
        v += [float(10 ** k) + 0.5, float(10 ** k), float(10 ** 19 * 10 ** k)]
    return _dedupe([d2b(x) for x in v])


def padding_floats():
    import math
    v = [0.0, -0.0, 1.0, -2.0, 1.5, 0.25, 0.125, 7.0, 123456.0, 1e15, 1e20, 1e38, 2.0 ** 60, 0.5, 0.1]
    for k in range(1, 46):
        v += [float("1e-%d" % k), math.ldexp(1.0, -k)]
    return _dedupe([f2b(x) for x in v if fits_float(x)])



def double_values(rng, thorough):
    """bit patterns: (label, [bits])"""
    groups = []
    sp = [0, 1 << 63, 0x7FF0000000000000, 0xFFF0000000000000, 0x7FF8000000000000, 0xFFF8000000000000, 0x7FF0000000000001,
          0x7FFFFFFFFFFFFFFF, 0xFFFFFFFFFFFFFFFF, 1, 2, 3, 0x000FFFFFFFFFFFFF, 0x0010000000000000, 0x0010000000000001,
          0x7FEFFFFFFFFFFFFF, 0xFFEFFFFFFFFFFFFF, 0x8000000000000001, d2b(1.0), d2b(-1.0), d2b(0.1), d2b(0.5), d2b(-0.5), d2b(2.5),
          d2b(11150.001), d2b(-0.74), d2b(1521525.3), d2b(25.657), d2b(250.0), d2b(5.0), d2b(7.0), d2b(25.0), 0x4328dc202487ae54]
    groups.append(("special", sp))
    p2 = []
    for e in range(-1074, 1024):
        b = ((e + 1023) << 52) if e >= -1022 else (1 << (e + 1074))
        p2.append(b)
        if thorough or e % 5 == 0:
            p2 += [b - 1 if b > 0 else b, b + 1]
    groups.append(("pow2", p2))
    p10 = []
    for k in range(-323, 309):
        b = d2b(float("1e%d" % k))
        p10.append(b)
        if thorough or k % 3 == 0:
            p10 += [max(b - 1, 0), b + 1, max(b - 2, 0), b + 2]
    groups.append(("pow10", p10))
    per = 6 if thorough else 1
    bn = []
    for E in range(0, 2047):
        for _ in range(per):
            bn.append((rng.getrandbits(1) << 63) | (E << 52) | rng.getrandbits(52))
    groups.append(("binade", bn))
    sub = [rng.getrandbits(52) for _ in range(2000 if thorough else 150)]
    sub += [1 << k for k in range(52)] + [(1 << k) - 1 for k in range(1, 53)]
    groups.append(("subnormal", sub))
    # short mantissas far below one: k * 2^-e.  The formatter multiplies by 5^27 repeatedly and may drop
    # low words in between; few significant bits leave the least room for that.
    import math
    sm = []
    for k in range(1, 128 if thorough else 40, 2):
        for e in range(40, 1075, 3 if thorough else 37):
            e2 = e + rng.randrange(3 if thorough else 37)
            x = math.ldexp(float(k), -e2)
            if x != 0.0:
                sm.append(d2b(x))
    sm += [0x2cd7000000000000, 0x31fc000000000000, 0x283c000000000000, 0x27f1000000000000]
    groups.append(("short-mantissa", sm))
    nice = [d2b(x) for x in nice_reals()]
    nice = _dedupe(nice)
    if not thorough:
        # quick tier: every third value plus a seeded sample of the rest
        nice = nice[::3] + rng.sample(nice, min(len(nice), 1500))
    nice += [b | (1 << 63) for b in rng.sample(nice, min(len(nice), 400))]
    groups.append(("nice", nice))
    rnd = [rng.getrandbits(64) for _ in range(60000 if thorough else 3000)]
    groups.append(("uniform", rnd))
    groups.append(("directed-sticky", directed_doubles(rng, thorough)))
    return [(g, _dedupe(v)) for g, v in groups]


def float_values(rng, thorough):
    groups = []
    sp = [0, 1 << 31, 0x7F800000, 0xFF800000, 0x7FC00000, 0xFFC00000, 0x7F800001, 0x7FFFFFFF, 1, 2, 3, 0x007FFFFF, 0x00800000,
          0x00800001, 0x7F7FFFFF, 0xFF7FFFFF, f2b(1.0), f2b(0.1), f2b(0.5), f2b(-0.5), f2b(2.5), f2b(11150.001), f2b(-0.74), f2b(250.0)]
    groups.append(("special", sp))
    p2 = []
    for e in range(-149, 128):
        b = ((e + 127) << 23) if e >= -126 else (1 << (e + 149))
        p2 += [b, max(b - 1, 0), b + 1]
    groups.append(("pow2", p2))
    p10 = []
    for k in range(-45, 39):
        b = f2b(float("1e%d" % k))
        p10 += [b, max(b - 1, 0), b + 1]
    groups.append(("pow10", p10))
    bn = []
    for E in range(0, 255):
        for _ in range(8 if thorough else 2):
            bn.append((rng.getrandbits(1) << 31) | (E << 23) | rng.getrandbits(23))
    groups.append(("binade", bn))
    low = list(range(1, 300)) + [rng.randrange(1, 1 << 23) for _ in range(3000 if thorough else 300)]
    low += [k << s for k in range(1, 64, 2) for s in range(0, 30, 3 if thorough else 7) if (k << s) < (1 << 30)]
    low += [0x3f, 0x33ad0, 0x9b070, 0x67e0]
    groups.append(("subnormal-short", low))
    nice = _dedupe([f2b(x) for x in nice_reals() if fits_float(x)])
    if not thorough:
        nice = nice[::6] + rng.sample(nice, min(len(nice), 500))
    groups.append(("nice", nice))
    groups.append(("uniform", [rng.getrandbits(32) for _ in range(20000 if thorough else 1200)]))
    groups.append(("directed-sticky", directed_floats(rng, thorough)))
    return [(g, _dedupe(v)) for g, v in groups]


def int_cases(rng, thorough):
    """(bits, signed, value)"""
    out = []
    for v in range(0, 256):
        out.append((8, 0, v))
    for v in range(-128, 128):
        out.append((8, 1, v))
    step16 = 1 if thorough else 1
    for v in range(0, 65536, step16):
        out.append((16, 0, v))
    for v in range(-32768, 32768, step16):
        out.append((16, 1, v))
    for bits in (32, 64):
        umax = (1 << bits) - 1
        smin, smax = -(1 << (bits - 1)), (1 << (bits - 1)) - 1
        us = {0, 1, 9, 10, 11, 99, 100, 101, umax, umax - 1, smax, smax + 1, smax + 2}
        ss = {0, 1, -1, 9, -9, 10, -10, 99, -99, 100, -100, smin, smin + 1, smax, smax - 1}
        k = 1
        while k <= umax:
            us |= {k, k - 1, k + 1 if k + 1 <= umax else k}
            if k <= smax:
                ss |= {k, -k, k - 1, -(k - 1), k + 1 if k + 1 <= smax else k, -(k + 1) if k + 1 <= smax + 1 else -k}
            k *= 10
        for e in range(bits + 1):
            for d in (-1, 0, 1):
                x = (1 << e) + d
                if 0 <= x <= umax:
                    us.add(x)
                if smin <= x <= smax:
                    ss.add(x)
                if smin <= -x <= smax:
                    ss.add(-x)
        n = 20000 if thorough else 2500
        for _ in range(n):
            nb = rng.randrange(1, bits + 1)
            us.add(rng.getrandbits(nb))
            x = rng.getrandbits(nb)
            x = x if x <= smax else smax - (x & smax)
            ss.add(x if rng.getrandbits(1) else -x)
        out += [(bits, 0, v) for v in sorted(us)]
        out += [(bits, 1, v) for v in sorted(ss) if smin <= v <= smax]
    return out


def random_pre(rng):
    """contents of a non-empty destination stream: digits, nines, points, signs and arbitrary units"""
    n = rng.choice([1, 1, 2, 3, 5, 8, 13, 31, 32, 33, 64])
    return [rng.choice([57, 57, 48, 53, 46, 45, 101, 43, 49, rng.randrange(1, 128)]) for _ in range(n)]


def locate(line_fields, impl, other):
    """first (prec, fmt) at which two n2sra-style outputs differ"""
    a, b = impl.split(";"), other.split(";")
    for i in range(max(len(a), len(b))):
        x = a[i] if i < len(a) else "<missing>"
        y = b[i] if i < len(b) else "<missing>"
        if x != y:
            return i // 3, i % 3, x, y
    return None


def run_bulk(exe, argsets, jobs=16, timeout=3000):
    """run `exe args` for every args in argsets concurrently; returns list of (args, rc, stdout)"""
    from concurrent.futures import ThreadPoolExecutor

    def one(a):
        try:
            p = subprocess.run([exe] + [str(x) for x in a], stdout=subprocess.PIPE, stderr=subprocess.PIPE, text=True, timeout=timeout)
            return a, p.returncode, p.stdout + ("\n" + p.stderr[-2000:] if p.returncode else "")
        except subprocess.TimeoutExpired:
            return a, "timeout", ""
    with ThreadPoolExecutor(max_workers=jobs) as ex:
        return list(ex.map(one, argsets))


def corpus_lines(pid):
    d = os.path.join(core.VERIF, "corpus", pid)
    out = []
    if os.path.isdir(d):
        for fn in sorted(os.listdir(d)):
            if fn.endswith(".txt"):
                for ln in open(os.path.join(d, fn)):
                    ln = ln.strip()
                    if ln and not ln.startswith("#"):
                        out.append(ln)
    return out


class TooManyFaults(Exception):
    pass


def run_guarded(ctx, exe, lines, what, jobs=14, limit=12, timeout=150, env=core.ASAN_ENV):
    """core.run_lines_parallel with a bound on the damage a badly broken build can do: every fault
    restarts the harness (and a hang costs `timeout` seconds), so after `limit` faults in one chunk
    the stream is abandoned; the faults seen so far are reported as failures by the caller.
    Returns (outputs or None, faults)."""
    if getattr(ctx, "_harness_dead", False):
        return None, []      # an earlier stream was abandoned: the verdict is already a failure
    seen = []

    def on_fault(i, kind, err):
        seen.append((i, kind, err))
        if len(seen) >= limit:
            raise TooManyFaults()
    try:
        out, faults = core.run_lines_parallel(exe, lines, jobs=jobs, timeout_per_batch=timeout, env=env, on_fault=on_fault)
        return out, faults
    except TooManyFaults:
        ctx._harness_dead = True
        ctx.notes.append("%s: abandoned after %d sanitizer faults / hangs" % (what, len(seen)))
        # indexes reported by the callback are chunk-relative; keep the kinds and stderr only
        return None, [(None, k, e) for (_, k, e) in seen]
    except TypeError as e:
        # vlib.core.classify_fault compares the string "timeout" with 0 when the harness hangs
        if "not supported between" not in str(e):
            raise
        ctx._harness_dead = True
        ctx.notes.append("%s: the harness hung (no output within %ds)" % (what, timeout))
        return None, [(None, k, err) for (_, k, err) in seen] + [(None, "timeout", "the harness produced no output within %d s" % timeout)]
