"""C06 — every RFC 8259 document parses to the value it denotes."""
from vlib import core, jsongen
from checks import _json

META = {
    "property_id": "C06",
    "technique": "Lean 4 theorems on the checked JSON parser model (parametric in the string/number sub-routines, instantiated with their models) + correspondence with JSON::Parse + RFC denotation oracle",
    "level": "proof",
    "design_ref": "DESIGN.md §6 C06",
    "text": "Kernel-checked: parse(print d) = denote d for every well-formed RFC 8259 document (parse_print / parse_print_concrete): any nesting, whitespace at every legal position, duplicate keys keep the first position and the last value (objInsert laws), given per-token contracts; the contracts are proved for every RFC string body (token_string_body: plain units, short escapes, \\uXXXX, surrogate pairs decode to the UTF encoding of the named code point in every width, C20 theorems) and for every RFC numeral (token_real: by the relocation theorem strToNum_sim the scan embedded in a document returns what the standalone run on the numeral returns; integers that fit are exact, C09; the accuracy of real results is C09's closed one-ulp theorem). On every run generated RFC documents (full Unicode range, all escape forms, numerals, whitespace, duplicate keys, names whose raw hash is 0, wide alias units) in UTF-8/16/32 are parsed by the real code - also through the three-argument entry point with a long-lived scratch stream - and compared with the denotation computed independently (reals within one ulp) and with the Lean model.",
    "note": "Trusted: Lean kernel; axioms ⊆ {propext, Quot.sound, Classical.choice}; the correspondence harness; Python's float() as correctly rounded reference for non-integer numerals (one-ulp tolerance as the property states).",
}

THEOREMS = [
    "Qentem.Props.JsonTables.notation_tables",
    "Qentem.Props.JsonTables.replacement_matches_escapeJson",
    "Qentem.Props.C06.parse_print",
    "Qentem.Props.C06.parse_print_concrete",
    "Qentem.Props.C06.token_natural",
    "Qentem.Props.C06.token_negative",
    "Qentem.Props.C06.token_zero",
    "Qentem.Props.C06.token_real",
    "Qentem.Props.C06.token_escaped_string",
    "Qentem.Props.C06.token_string_body",
    "Qentem.Props.C06.objInsert_last_wins_first_position",
    "Qentem.Props.C06.objInsert_new_key_appended",
]
OPEN = ["NumSpec for numerals with fraction/exponent is proved relative to the standalone run (token_real: every RFC 8259 numeral, embedded anywhere in a document, is consumed exactly and gives the kind/bits of StringToNumber on the numeral alone); per numeral the standalone run is a closed computation, and the accuracy of its bits (nearest double) is C09/C11's statement, not C06's"]


def run(ctx):
    drv, h = _json.setup(ctx, ["Qentem.Props.C06", "Qentem.Props.JsonTables"], THEOREMS, OPEN)
    if not h:
        return
    rng = ctx.rng
    N = 30000 if not ctx.thorough else 400000
    items, exp = [], []
    for ln in _json.corpus_lines("C06"):
        pass
    for d in _json.long_string_docs(ctx.rng) + _json.gen_docs(ctx, N):
        w = rng.choice(_json.WIDTHS)
        try:
            e = jsongen.denote(d, _json.WNUM[w])
        except ValueError:
            continue
        items.append((w, jsongen.render(d, rng, _json.WNUM[w])))
        exp.append(e)
    # fixed witnesses of repaired defects: surrogate pairs with a high surrogate in D900-DBFF
    for cp in (0x50000, 0x64000, 0x10FFFF, 0x10000, 0x4FFFF, 0xFFFFF):
        for up in (False, True):
            d = ("arr", [("str", [("pair", cp, up)])])
            for w in _json.WIDTHS:
                items.append((w, jsongen.render(d, rng, _json.WNUM[w])))
                exp.append(jsongen.denote(d, _json.WNUM[w]))
    lines = _json.parse_lines(items)
    impl, model = _json.run_both(ctx, drv, h, lines, "rfc-documents")
    for l, a, e in zip(lines, impl, exp):
        if a.startswith("FAULT"):
            continue
        if not jsongen.same_dump(a, e, real_ulp=1):
            ctx.fail("denotation", "RFC 8259 document parsed to a different value: %s -> %s, expected %s" % (l[:400], a[:300], e[:300]),
                     {"line": l, "impl": a, "expected": e})
    ctx.assumptions += ["documents with lone surrogate escapes are outside the generated set (not well-formed Unicode)"]


FINISH = dict(level="proof",
              rule="random RFC 8259 documents (containers at top level, depth<=4, strings over the full Unicode range with all escape forms and surrogate pairs, integer/fraction/exponent numerals incl. 2^63/2^64 boundaries, random whitespace, duplicate keys) rendered in UTF-8/16/32; non-trivial = distinct text longer than a few units",
              checker_cmd="cd lean && lake build Qentem.Props.C06 && lake env lean <#print axioms>")
