"""C14 extra stream: Array<T> with a recursive owning element type. Copy / move assignment between
related arrays (an array assigned from the array of one of its own items, or from an array that
contains it) against the plain-sequence model: the Lean value model `Model/SeqTree.lean` through the
driver op `seqtree` (theorems `Props.C14.tree_*`), with the Python tree of this file as a second opinion."""
import copy
from vlib import core


def node_at(root, path):
    n = root
    for i in path:
        n = n["kids"][i]
    return n


def all_paths(root, pre=()):
    yield pre
    for i, k in enumerate(root["kids"]):
        yield from all_paths(k, pre + (i,))


def dump(n):
    return str(n["id"]) + ("(" + " ".join(dump(k) for k in n["kids"]) + ")" if n["kids"] else "")


def pstr(p):
    return ".".join(str(i) for i in p) if p else "-"


def gen_program(rng, nops, alias_item=True):
    root = {"id": 0, "kids": []}
    ops, outs, nid = [], [], 1
    for _ in range(nops):
        paths = list(all_paths(root))
        r = rng.random()
        if alias_item and len(paths) >= 2 and rng.random() < 0.2:
            # `dst.kids += node(src)` by const&: src is often an item of dst.kids itself (the argument then lies in
            # the storage that grows), sometimes an ancestor or any other node; value = snapshot, then append
            d = rng.choice(paths)
            kids = node_at(root, d)["kids"]
            s_ = d + (rng.randrange(len(kids)),) if kids and rng.random() < 0.7 else rng.choice(paths)
            snap = copy.deepcopy(node_at(root, s_))
            if sum(1 for _ in all_paths(root)) + sum(1 for _ in all_paths(snap)) > 60:
                continue
            node_at(root, d)["kids"].append(snap)
            ops.append("a%s=%s" % (pstr(d), pstr(s_)))
        elif r < 0.45 or len(paths) < 3:
            p = rng.choice(paths)
            node_at(root, p)["kids"].append({"id": nid, "kids": []})
            ops.append("n%s:%d" % (pstr(p), nid)); nid += 1
        elif r < 0.8:
            d, s = rng.choice(paths), rng.choice(paths)
            node_at(root, d)["kids"] = copy.deepcopy(node_at(root, s)["kids"])
            ops.append("c%s=%s" % (pstr(d), pstr(s)))
        elif r < 0.93:
            d, s = rng.choice(paths), rng.choice(paths)
            # a moved-from source inside the destination's old items disappears with them; moving an
            # array into one of its own descendants would create a cycle: keep to src not an ancestor of dst
            if s == d[:len(s)] and s != d:
                continue
            taken = node_at(root, s)["kids"]
            if s != d:
                # value semantics of `d.kids = Move(s.kids)`: the source is left empty; when the source sits
                # inside the destination's old items it disappears with them
                node_at(root, s)["kids"] = []
                node_at(root, d)["kids"] = taken
            ops.append("m%s=%s" % (pstr(d), pstr(s)))
        elif r < 0.96:
            p = rng.choice(paths)
            node_at(root, p)["kids"] = []
            ops.append("r" + pstr(p))
        elif r < 0.98:
            # ResizeAndInitialize(n): keep the first n items, default-construct the rest (id 0)
            p = rng.choice(paths); n = rng.randrange(0, 5)
            kids = node_at(root, p)["kids"]
            node_at(root, p)["kids"] = kids[:n] + [{"id": 0, "kids": []} for _ in range(max(0, n - len(kids)))]
            ops.append("z%s:%d" % (pstr(p), n))
        else:
            # Reserve(n, true): n default-constructed items
            p = rng.choice(paths); n = rng.randrange(0, 5)
            node_at(root, p)["kids"] = [{"id": 0, "kids": []} for _ in range(n)]
            ops.append("v%s:%d" % (pstr(p), n))
        outs.append(dump(root))
    return "atree " + ";".join(ops), "|".join(outs) if outs else "-"


def run(ctx, drv=None):
    h = ctx.build_harness("arraytree_harness.cpp")
    drv = drv or ctx.build_driver()
    if not (h and drv):
        return
    rng = ctx.rng
    lines, exp = [], []
    # witnesses of the repaired defect (source contains the destination) and of the supported child -> parent case
    for l, e in (("atree n-:1;n-:2;n0:3;c0=-", "0(1)|0(1 2)|0(1(3) 2)|0(1(1(3) 2) 2)"),
                 ("atree n-:1;n-:2;n0:3;n0:4;n0.0:5;c-=0", "0(1)|0(1 2)|0(1(3) 2)|0(1(3 4) 2)|0(1(3(5) 4) 2)|0(3(5) 4)")):
        lines.append(l); exp.append(e)
    # the argument of `+=` inside the array that grows (probe of C14's `array-alias-item` family)
    alias_item = getattr(ctx, "c14_flags", {}).get("array_alias_item")
    if alias_item is None:
        pl = "atree n-:1;n-:2;a-=0;a-=1;a-=2;a-=0;a0=0"
        po, pf = core.run_lines(h, [pl])
        alias_item = not pf and not po[0].startswith("FAULT")
        if not alias_item:
            ctx.fail("array-alias-item", "sanitizer fault appending an item of the array itself (recursive item type): " + pl, {"line": pl, "stderr": pf[0][2][-3000:] if pf else ""})
    if alias_item:
        lines.append("atree n-:1;n-:2;a-=0;a-=1;a-=2;a-=0;a0=0;a0.0=-"); exp.append(None)
    for _ in range(3000 if not ctx.thorough else 60000):
        l, e = gen_program(rng, rng.randrange(2, 14), alias_item)
        lines.append(l); exp.append(e)
    impl, faults = core.run_lines_parallel(h, lines, jobs=12)
    for i, kind, err in faults:
        ctx.fail("fault:" + kind, "sanitizer fault assigning related arrays of a recursive element type: " + lines[i], {"line": lines[i], "stderr": err})
    # the Lean model (value semantics of Model/SeqTree.lean) on the same programs
    mlines = [l.replace("atree ", "seqtree ", 1) for l in lines]
    model, _ = core.run_lines_parallel(drv, mlines, jobs=12, env=None)
    keep = [i for i in range(len(lines)) if not impl[i].startswith("FAULT")]
    ctx.correspond("array-tree(lean-model)", [mlines[i] for i in keep], [impl[i] for i in keep], [model[i] for i in keep],
                   nontrivial=lambda l: ("c" in l.split(" ")[1]) or ("m" in l.split(" ")[1]))
    exp = [m if e is None else e for m, e in zip(model, exp)]
    for l, m, e in zip(lines, model, exp):
        if m != e:
            ctx.infra_errors.append("Lean tree model and the Python reference disagree on %s: %s vs %s" % (l, m[-160:], e[-160:]))
            break
    n_alias = 0
    for l, a, e in zip(lines, impl, exp):
        if a.startswith("FAULT"):
            continue
        if "c" in l or "m" in l:
            n_alias += 1
        if a != e:
            ctx.fail("array-tree", "Array of a recursive owning type differs from the plain-sequence model: %s -> %s expected %s" % (l, a[-200:], e[-200:]),
                     {"line": l, "impl": a, "expected": e})
    ctx.count("array-of-recursive-owning-type", len(lines), n_alias, {"stream": "array-tree", "input": lines[0], "impl": impl[0][-120:]})
