"""C16 — every allocation is released exactly once; nothing is used after release."""
import importlib
import os
from vlib import core, jsongen
from checks import _json

META = {
    "property_id": "C16",
    "technique": "Lean 4 ledger model (alloc/free/touch traces, `Balanced`) with compositional theorems and per-container trace models; the real allocation trace of every operation history is extracted through the library's own MemoryRecord hook and decided by the Lean `run` function; ASan/LSan for use-after-release",
    "level": "proof",
    "design_ref": "DESIGN.md §6 C16",
    "text": "Kernel-checked: a trace accepted by the ledger never frees a block twice, never frees or touches a block that is not live, and ends with nothing allocated (no_double_free, no_use_after_free, no_free_of_unallocated, balanced_append, lifetime_frame); for the flat containers and the hash containers the allocation events of every operation are modelled and any operation sequence followed by destruction is proved Balanced (Props/C16*.lean, where present). On every run the real code is driven through the operation histories of C12-C14 and the inputs of C01/C05/C08 (including every rejected JSON text and malformed template) with the library's single allocation and release sites logging each event; the Lean `run` decides each real trace (violation index or leak count is the replay), and the same runs are under ASan/LSan so a use after release or a leak at exit is a fault.",
    "note": "Trusted: Lean kernel; axioms ⊆ {propext, Quot.sound, Classical.choice}; the MemoryRecord hook (QENTEM_Q_TEST_H, part of the repository) reporting every Memory::Allocate/Deallocate — checked by T1: the headers have no other allocation site; ASan for `touch` events, which the hook cannot see. Value trees, JSON and Template are covered by trace validation (every real trace is decided by the Lean predicate), not by a per-operation trace model.",
}

THEOREMS = [
    "Qentem.Ledger.run_append",
    "Qentem.Ledger.balanced_append",
    "Qentem.Ledger.no_double_free",
    "Qentem.Ledger.no_use_after_free",
    "Qentem.Ledger.no_free_of_unallocated",
    "Qentem.Ledger.lifetime_frame",
]
MODULES = ["Qentem.Proofs.Ledger"]


def allocation_sites():
    """T1: the only places where the headers talk to the allocator are Memory::Allocate /
    Memory::Deallocate (both carry the MemoryRecord hook)."""
    import re
    bad = []
    for fn in sorted(os.listdir(core.INCLUDE)):
        if not fn.endswith(".hpp") or fn == "QTest.hpp":
            continue
        src = open(os.path.join(core.INCLUDE, fn), errors="replace").read()
        src = re.sub(r"//[^\n]*", "", src)
        src = re.sub(r"/\*.*?\*/", "", src, flags=re.S)
        for m in re.finditer(r"::operator new|::operator delete|\bmalloc\s*\(|\bfree\s*\(|\brealloc\s*\(|\bnew\s+[A-Za-z_]|\bdelete\s*(\[\])?\s*[A-Za-z_(]", src):
            line = src.count("\n", 0, m.start()) + 1
            bad.append((fn, line, m.group(0)))
    return bad


def json_cases(ctx):
    rng = ctx.rng
    items = []
    N = 400 if not ctx.thorough else 6000
    for d in _json.gen_docs(ctx, N):
        w = rng.choice(_json.WIDTHS)
        u = jsongen.render(d, rng, _json.WNUM[w])
        items.append((w, u))
        for k in range(0, len(u), max(1, len(u) // 12)):
            items.append((w, u[:k]))          # rejected prefixes
        for _ in range(4):
            items.append((w, _json.mutate(rng, u)))
    for _ in range(N * 3):
        items.append((rng.choice(_json.WIDTHS), _json.soup(rng, rng.randrange(1, 12))))
    lines = _json.parse_lines(items)
    c08 = importlib.import_module("checks.c08")
    for _ in range(N * 2):
        w = rng.choice(_json.WIDTHS)
        lines.append("jsrt %s 17 %s" % (w, c08.gen_tree(rng, rng.choice([1, 2, 3]), True, _json.WNUM[w])))
    return "json_harness.cpp", [], lines


def escape_cases(ctx):
    rng = ctx.rng
    lines = []
    c03 = importlib.import_module("checks.c03")
    for _ in range(600 if not ctx.thorough else 8000):
        u = [rng.choice([38, 60, 62, 34, 39, 59, 97, 109, 112, 65]) for _ in range(rng.randrange(0, 10))]
        lines.append("tpl 1 %s %s %s" % (rng.choice(["1", "2", "4"]), rng.choice([m for m in c03.MODES if m != "echo"]), core.show_units(u)))
        lines.append("esc 1 1 %s" % core.show_units(u))
    return "escape_harness.cpp", [], lines


def area_cases(ctx):
    """(name, harness source, extra flags, lines) for every area that exposes ledger cases."""
    out = [("json", *json_cases(ctx)), ("template-print-paths", *escape_cases(ctx))]
    for mod, name in (("checks._seq_ledger", "flat-containers"), ("checks._hash_ledger", "hash-containers"),
                      ("checks._value_ledger", "value-trees"), ("checks._tmpl_ledger", "templates")):
        try:
            m = importlib.import_module(mod)
        except ImportError:
            continue
        r = m.ledger_cases(ctx)
        src, lines = r[0], r[1]
        flags = list(r[2]) if len(r) > 2 else []
        out.append((name, src, flags, lines))
        if hasattr(m, "tree_ledger_cases"):
            # nested tables: copy / move / merge between related tables must release everything exactly once
            tsrc, tlines = m.tree_ledger_cases(ctx)
            out.append(("nested-hash-tables", tsrc, [], tlines))
    return out


def run(ctx):
    ctx.prove(MODULES + extra_modules(), THEOREMS + extra_theorems())
    drv = ctx.build_driver()
    sites = allocation_sites()
    expected = {("Memory.hpp", "::operator new"), ("Memory.hpp", "::operator delete")}
    other = [s for s in sites if (s[0], s[2]) not in expected]
    ctx.notes.append({"allocation_sites": [list(s) for s in sites]})
    if other:
        ctx.proof_broken.append("allocation sites outside Memory::Allocate/Deallocate (the ledger hook would not see them): %s" % other[:5])
    if not drv:
        return
    for name, src, flags, lines in area_cases(ctx):
        h = ctx.build_harness(src, flags=core.SAN_FLAGS + ["-DVERIF_LEDGER"] + flags, tag="ledger")
        if not h:
            continue
        out, faults = core.run_lines_parallel(h, lines, jobs=12)
        for i, kind, err in faults:
            ctx.fail("fault:" + kind, "sanitizer report (use after release / double free / leak) in %s on: %s" % (name, lines[i][:300]), {"line": lines[i], "stderr": err})
        traces, idx, events = [], [], 0
        for i, o in enumerate(out):
            if o.startswith("FAULT"):
                continue
            if " ##L " not in o:
                ctx.infra_errors.append("harness %s printed no ledger suffix for %s" % (src, lines[i][:100]))
                break
            tr, live = o.split(" ##L ")[1].rsplit(" live=", 1)
            # `live` is cumulative over the harness process; each line is judged by its own trace below
            traces.append("ledcheck " + tr); idx.append(i)
            events += 0 if tr == "-" else tr.count(",") + 1
        verdicts, _ = core.run_lines_parallel(drv, traces, jobs=12, env=None)
        nontrivial = 0
        for j, v in enumerate(verdicts):
            if v.startswith("balanced"):
                nontrivial += 1 if v != "balanced 0" else 0
                continue
            i = idx[j]
            ctx.fail("ledger:" + v.split(" ")[0], "the allocation trace of %s is not balanced (%s): %s" % (name, v, lines[i][:300]), {"line": lines[i], "trace": traces[j][9:2000], "verdict": v})
        ctx.count("ledger:" + name, len(lines), nontrivial, {"stream": name, "input": lines[0][:160], "trace": traces[0][9:200] if traces else ""})
        helper = {"flat-containers": "checks._seq_ledger", "hash-containers": "checks._hash_ledger", "value-trees": "checks._value_ledger"}.get(name)
        if helper:
            m = importlib.import_module(helper)
            # per-operation trace model (Lean) vs the real trace, event for event
            if hasattr(m, "compare_traces"):
                m.compare_traces(ctx, lines, out, drv)
            elif hasattr(m, "compare_with_model"):
                m.compare_with_model(ctx, drv, lines, out)
        ctx.notes.append({name: {"operations": len(lines), "events": events}})


def extra_modules():
    ms = []
    for f, m in (("C16Seq.lean", "Qentem.Props.C16Seq"), ("C16Hash.lean", "Qentem.Props.C16Hash"), ("C16Value.lean", "Qentem.Props.C16Value")):
        if os.path.exists(os.path.join(core.LEAN_DIR, "Qentem", "Props", f)):
            ms.append(m)
    return ms


AREA_HELPERS = (("checks._seq_ledger", "SEQ_LEDGER_THEOREMS", "compare_traces"),
                ("checks._hash_ledger", "THEOREMS", "compare_with_model"),
                ("checks._value_ledger", "THEOREMS", "compare_with_model"))


def extra_theorems():
    ts = []
    for mod, tname, _ in AREA_HELPERS:
        try:
            m = importlib.import_module(mod)
        except ImportError:
            continue
        ts += list(getattr(m, tname, getattr(m, "THEOREMS", [])))
    return ts


FINISH = dict(level="proof",
              rule="real allocation traces: JSON parse of generated documents, their prefixes, mutations and fragment soups; Stringify/Parse round trips of generated trees; template print paths; plus the operation histories of the container/value/template areas where they expose ledger cases; a case is non-trivial when its trace has at least one event",
              checker_cmd="cd lean && lake build Qentem.Proofs.Ledger [Qentem.Props.C16Seq Qentem.Props.C16Hash] && lake env lean <#print axioms>")
