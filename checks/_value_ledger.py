"""C16 ledger cases for Value trees.

    ledger_cases(ctx)                          -> (harness_src, lines)
    compare_with_model(ctx, drv, lines, outs)  -> indexes whose real trace disagrees with the model's

Two kinds of lines go to harness/value_harness.cpp (built with -DVERIF_LEDGER):
* `valseq …` — the operation sequences of C12 / C18 with all their dumps (getters, Stringify, GroupBy):
  every real trace is judged by the Lean `Ledger.run` (validation; the dumps' own allocations are in it);
* `valled …` — the same operation language without dumps, roots destroyed before the line is emitted: the
  trace is the operations' own.  These are compared with the allocation-trace model
  lean/Qentem/Model/ValueLedger.lean (driver op `valled`): the number of allocations and of releases per
  line must be equal, the model's own trace must be balanced, and the model's final forest with the block
  ids erased must be the value model's forest.  (Counts, not event order: inside one operation the real
  order of releases may differ from the model's, e.g. copy-construct-then-move-assign; the real order is
  judged by `Ledger.run` on the real trace itself.)
"""
import itertools
from vlib import core
from checks import _value

MODULES = ["Qentem.Props.C16Value"]
THEOREMS = [
    "Qentem.Props.C16Value.lifetime_balanced",
    "Qentem.Props.C16Value.prefix_owned",
    "Qentem.ValueLedger.Acc_runL",
    "Qentem.ValueLedger.Acc_stepL",
    "Qentem.ValueLedger.Acc_stepBody",
    "Qentem.ValueLedger.Acc_onTargetL",
    "Qentem.ValueLedger.owned_takeSourceL",
    "Qentem.ValueLedger.Good_updPathL",
    "Qentem.ValueLedger.Good_updKeyL",
    "Qentem.ValueLedger.Good_updIdxL",
    "Qentem.ValueLedger.Acc_copyL",
    "Qentem.ValueLedger.Acc_compressL",
    "Qentem.ValueLedger.Acc_objMergeL_move",
    "Qentem.ValueLedger.Acc_objMergeL_copy",
    "Qentem.ValueLedger.Good_mergeL_move",
    "Qentem.ValueLedger.Good_mergeL_copy",
    "Qentem.ValueLedger.Acc_arrConcatL",
    "Qentem.ValueLedger.Acc_destroyL",
]

SMALL_OPS = ["set 0/ka97 n1", "set 0/kc98 sa120", "set 0/kd97.97 sb121", "set 0/kc97 z", "rem 0 97 b", "rmi 0 0 a", "cmp 0",
             "set 0/ia1 N", "app 0 sb120", "ins 0 98 sa49", "set 0/kd98/ka97 n2", "cpy 1 0 a", "cpy 1/ka97 0 b", "mrg 0 1 b",
             "mrg 0 1 a", "apv 0 1 b", "apv 0 1 a", "mov 0 1 a", "apo 0 1 a", "apa 0 1 b", "obj 0 1 b", "arr 0 1 a", "inm 0 98 1",
             "typ 0 3", "set 1/ia2 se97", "app 1 T", "rst 0", "ptr 0 -", "adp 0 1",
             # sources that are empty but own storage, for every consuming operation
             "rsv 1 2 3", "rsv 1 3 2", "clr 1", "clr 0", "rsv 0 2 1", "set 1/ka97 sa120", "inm 0 97 1/ka97", "mov 0/ka98 1 b"]


# directed: every consuming (and, for contrast, every copying) two-operand operation with a source that is empty
# but owns storage (Size() == 0, Capacity() != 0: reserved, or filled and then cleared; the empty string built from
# text owns its terminator block), onto every kind of target
EMPTY_SOURCES = [["rsv 1 2 3"], ["rsv 1 3 2"], ["set 1/ka97 sa120", "set 1/ka98 n1", "clr 1"], ["app 1 sa120", "app 1 n1", "clr 1"],
                 ["set 1 sa-"], ["rsv 1/ka97 2 4"], ["rsv 1/ia0 3 3"]]
TARGETS = [[], ["set 0/ka97 n1"], ["app 0 sa121"], ["set 0 n5"], ["rsv 0 2 2"], ["rsv 0 3 1"], ["set 0/ka97 n1", "set 0/ka98 n2"]]
TWO_OPERAND = ["mov 0 1 a", "mov 0 1 b", "mov 0/ka99 1 a", "apv 0 1 a", "apv 0/ka99 1 a", "mrg 0 1 a", "inm 0 99 1", "inm 0 97 1",
               "cpy 0 1 a", "cpy 0 1 b", "apv 0 1 b", "mrg 0 1 b", "apo 0 1 a", "apa 0 1 b", "obj 0 1 a", "arr 0 1 b",
               "mov 0 1/ka97 a", "apv 0 1/ka97 a", "mrg 0 1/ia0 a", "inm 0 98 1/ia0"]


def directed_cases():
    out = []
    for src in EMPTY_SOURCES:
        for tgt in TARGETS:
            for op in TWO_OPERAND:
                out.append(tgt + src + [op])
                out.append(tgt + src + [op, "cmp 0", "clr 0"])
    return out


def modelled(ops):
    """operations the allocation-trace model has (no `cop`, no `grp`, no storage-less / JSON string forms h..l)."""
    for o in ops:
        t = o.split(" ")
        if t[0] in ("cop", "grp"):
            return False
        if t[0] in ("set", "app", "ins") and len(t[-1]) > 1 and t[-1][0] == "s" and t[-1][1] in "hijkl":
            return False
    return True


def ledger_cases(ctx):
    rng = ctx.rng
    lines = []
    for ops in directed_cases():
        lines.append(_value.line_of(ops, cmd="valled"))
    for ops in directed_cases()[::4]:
        lines.append(_value.line_of(ops))
    for _ in range(1500 if not ctx.thorough else 20000):
        lines.append(_value.line_of(_value.rand_sequence(rng, rng.randrange(1, 14))))
    # GroupBy (scratch stream and key pointer handling), including elements without the key
    import importlib
    c18 = importlib.import_module("checks.c18")
    cases = c18.gen_cases(ctx)
    for c in cases[:: (1 if ctx.thorough else 3)]:
        ops = [o.replace("GRP", "grp") if o.startswith("GRP") else o for o in c.ops]
        lines.append(_value.line_of(ops))
    # container-typed overloads with the operand inside the destination's own root (validation: real traces only)
    for ops in _value.alias_cases():
        lines.append(_value.line_of(ops))
    for ops in _value.copy_then_write_cases():
        lines.append(_value.line_of(ops, cmd="valled" if modelled(ops) else "valseq"))
    for ops in _value.full_merge_cases():
        lines.append(_value.line_of(ops, cmd="valled" if modelled(ops) else "valseq"))
    # operation-only traces for the comparison with the trace model
    depth = 3 if ctx.thorough else 2
    for n in range(1, depth + 1):
        for seq in itertools.product(SMALL_OPS, repeat=n):
            lines.append(_value.line_of(list(seq), cmd="valled"))
    for _ in range(4000 if not ctx.thorough else 60000):
        g = _value.PtrGraph()
        ops = [_value.rand_op(rng, g, allow_group=False, allow_cop=False) for _ in range(rng.choice([1, 3, 5, 8, 12, 16]))]
        lines.append(_value.line_of(ops, cmd="valled"))
    return "value_harness.cpp", lines


def compare_with_model(ctx, drv, lines, outs):
    idx = [i for i, l in enumerate(lines) if l.startswith("valled ")]
    sub = [lines[i] for i in idx]
    model, _ = core.run_lines_parallel(drv, sub, jobs=12, env=None)
    real = []
    for i in idx:
        o = outs[i]
        if " ##L " not in o:
            real.append(o)
            continue
        tr = o.split(" ##L ")[1].rsplit(" live=", 1)[0]
        ev = [] if tr == "-" else tr.split(",")
        na = sum(1 for e in ev if e.startswith("a"))
        nf = sum(1 for e in ev if e.startswith("f"))
        real.append("%d/%d bal=1 doc=1" % (na, nf))
    bad = ctx.correspond("ledger:value trees (allocations and releases per line; model trace balanced; erased forest = value model)",
                         sub, real, model, nontrivial=lambda l: l.count(";") >= 1, show=lambda s: s[:300])
    return [idx[j] for j in bad]
