"""C16 ledger cases for Value trees: the operation sequences of C12 (assignments, keyed/indexed
writes, merges, removals, copy, move, pointer-to-value) run with the allocation ledger; every real
trace is decided by the Lean `run` (validation: there is no per-operation trace model of Value)."""
from checks import _value


def ledger_cases(ctx):
    rng = ctx.rng
    lines = []
    for _ in range(1500 if not ctx.thorough else 20000):
        lines.append(_value.line_of(_value.rand_sequence(rng, rng.randrange(1, 14))))
    return "value_harness.cpp", lines
