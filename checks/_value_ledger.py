"""C16 ledger cases for Value trees: the operation sequences of C12 (assignments, keyed/indexed
writes, merges, removals, copy, move, pointer-to-value) run with the allocation ledger; every real
trace is decided by the Lean `run` (validation: there is no per-operation trace model of Value)."""
from checks import _value


def ledger_cases(ctx):
    rng = ctx.rng
    lines = []
    for _ in range(1500 if not ctx.thorough else 20000):
        lines.append(_value.line_of(_value.rand_sequence(rng, rng.randrange(1, 14))))
    # GroupBy (scratch stream and key pointer handling), including elements without the key
    import importlib
    c18 = importlib.import_module("checks.c18")
    cases = c18.gen_cases(ctx)
    for c in cases[:: (1 if ctx.thorough else 3)]:
        ops = [o.replace("GRP", "grp") if o.startswith("GRP") else o for o in c.ops]
        lines.append(_value.line_of(ops))
    return "value_harness.cpp", lines
