"""C13 extra stream: HArray whose value type itself holds an HArray (a tree of tables, the shape of the
library's own Value objects).  Copy / move assignment, whole-node assignment and merges between
related tables (a table assigned from a table stored inside one of its own values, a child from its
ancestor, siblings, self) against the insertion-ordered-map value semantics: the Lean model
`Model/HashTree.lean` through the driver op `httree` (theorems `Props.C13.tree_*`), with the Python
tree of this file as a second opinion, ASan/UBSan as fault oracle, and the whole tree dumped (by index
and re-checked by key) after every operation.

Relations and what is generated:
  copy `c`, whole node `a`   every pair of paths: self, sibling, ancestor <- descendant, and
                             descendant <- ancestor only when ANCESTOR_COPY_REPAIRED (see notes/
                             finding-hashtree-copy-from-ancestor.txt: the unchanged code detaches the
                             destination before it copies, so the copy of the destination inside the
                             source is already empty)
  move `m`                   every pair except src a proper ancestor of dst (would build a cycle)
  merges `p`, `q`            unrelated pairs and self; the copying merge `p` of a DESCENDANT's table into
                             its ancestor when no source key is present in the destination yet, with and
                             without growth of the destination (works on the unchanged code: the item
                             pointers are taken before resize() and the source's item block survives the
                             move of its owner).  Not generated (recorded finding `related-merge`,
                             notes/finding-hashtree-related-merge.txt): a source key already present in
                             the ancestor destination, the moving variant, ancestor into descendant.
  insert `i`                 `node(dst).kids.Insert(key, node(src))` (const-value overloads) for every pair
                             of paths: in particular node(src) an element of the table it is inserted
                             into, at every fill level (exactly full: the call grows the table first)
"""
import copy
import os
from vlib import core

# HashTable::operator=(const&) completes the copy before the destination changes since the /repo commit
# "fix: HashTable copy assignment completes the copy before changing the destination"
# (notes/fix-hashtable-copy-assign-alias.diff), so descendant <- ancestor copies are generated.
ANCESTOR_COPY_REPAIRED = os.environ.get("HASHTREE_ANCESTOR_COPY", "1") == "1"

KEYS = [(97,), (98,), (99,), (), (97, 0, 98), (100,), (200, 1)]


def kstr(k):
    return ",".join(str(x) for x in k) if k else "-"


def pstr(p):
    return ".".join(kstr(k) for k in p) if p else "~"


def fresh():
    return {"tag": 0, "kids": []}


def lookup(n, k):
    for e in n["kids"]:
        if e[0] == k:
            return e[1]
    return None


def node_at(root, path):
    n = root
    for k in path:
        n = lookup(n, k)
    return n


def all_paths(n, pre=()):
    yield pre
    for k, c in n["kids"]:
        yield from all_paths(c, pre + (k,))


def dump(n):
    return "%d[%s]" % (n["tag"], ";".join(kstr(k) + "=" + dump(c) for k, c in n["kids"]))


def put(kids, k, v):
    for e in kids:
        if e[0] == k:
            e[1] = v
            return
    kids.append([k, v])


def is_prefix(a, b):
    return len(a) <= len(b) and b[:len(a)] == a


def gen_program(rng, nops):
    root = fresh()
    ops, outs = [], []
    tagc = 1
    tries = 0
    while len(ops) < nops and tries < nops * 6:
        tries += 1
        paths = list(all_paths(root))
        r = rng.random()
        if r < 0.38 or len(paths) < 3:
            p = rng.choice(paths)
            if len(p) >= 4:
                continue
            k = rng.choice(KEYS)
            n = node_at(root, p)
            if lookup(n, k) is None:
                n["kids"].append([k, fresh()])
            ops.append("g/%s/%s" % (pstr(p), kstr(k)))
        elif r < 0.46:
            p = rng.choice(paths)
            node_at(root, p)["tag"] = tagc
            ops.append("t/%s/%d" % (pstr(p), tagc)); tagc += 1
        elif r < 0.52:
            p = rng.choice(paths); k = rng.choice(KEYS)
            n = node_at(root, p)
            n["kids"] = [e for e in n["kids"] if e[0] != k]
            ops.append("r/%s/%s" % (pstr(p), kstr(k)))
        elif r < 0.55:
            p = rng.choice(paths)
            node_at(root, p)["kids"] = []
            ops.append("%s/%s" % (rng.choice("xk"), pstr(p)))
        elif r < 0.60:
            p = rng.choice(paths)
            ops.append("%s/%s" % (rng.choice("zyY"), pstr(p)))
        elif r < 0.80:
            d, s = rng.choice(paths), rng.choice(paths)
            whole = rng.random() < 0.3
            if not ANCESTOR_COPY_REPAIRED and s != d and is_prefix(s, d):
                continue
            snap = copy.deepcopy(node_at(root, s))
            if whole:
                if d == ():
                    root = snap
                else:
                    parent = node_at(root, d[:-1])
                    for e in parent["kids"]:
                        if e[0] == d[-1]:
                            e[1] = snap
            else:
                node_at(root, d)["kids"] = snap["kids"]
            ops.append("%s/%s/%s" % ("a" if whole else "c", pstr(d), pstr(s)))
        elif r < 0.90:
            d, s = rng.choice(paths), rng.choice(paths)
            if s != d and is_prefix(s, d):
                continue   # moving a table into its own descendant: no value meaning (cycle)
            if s != d:
                taken = node_at(root, s)["kids"]
                node_at(root, s)["kids"] = []
                node_at(root, d)["kids"] = taken
            ops.append("m/%s/%s" % (pstr(d), pstr(s)))
        elif r < 0.92:
            d, s = rng.choice(paths), rng.choice(paths)
            mv = rng.random() < 0.5
            if s != d and is_prefix(s, d):
                continue   # ancestor into descendant: recorded finding related-merge
            if s != d and is_prefix(d, s):
                # descendant into ancestor: the copying merge with disjoint keys works on the unchanged code
                dk = set(e[0] for e in node_at(root, d)["kids"])
                if mv or any(e[0] in dk for e in node_at(root, s)["kids"]):
                    continue
            if s != d:
                src = node_at(root, s)
                dn = node_at(root, d)
                snap = copy.deepcopy(src["kids"])
                if mv:
                    src["kids"] = []
                for k, c in snap:
                    put(dn["kids"], k, c)
            ops.append("%s/%s/%s" % ("q" if mv else "p", pstr(d), pstr(s)))
        else:
            # const-value Insert with the argument anywhere in the tree, often a sibling in the same table
            d = rng.choice(paths)
            dn = node_at(root, d)
            if dn["kids"] and rng.random() < 0.7:
                s = d + (rng.choice(dn["kids"])[0],)
            else:
                s = rng.choice(paths)
            k = rng.choice(KEYS) if (rng.random() < 0.6 or not dn["kids"]) else rng.choice(dn["kids"])[0]
            snap = copy.deepcopy(node_at(root, s))
            put(node_at(root, d)["kids"], k, snap)
            ops.append("i/%s/%s/%s" % (pstr(d), kstr(k), pstr(s)))
        outs.append(dump(root))
    return "httree " + ";".join(ops), "|".join(outs) if outs else "-"


def parse_key(t):
    return () if t == "-" else tuple(int(x) for x in t.split(","))


def parse_path(t):
    return () if t == "~" else tuple(parse_key(x) for x in t.split("."))


def interp(line):
    """Value semantics of a whole program (independent of the generator's bookkeeping)."""
    root, outs = fresh(), []
    for op in line.split(" ")[1].split(";"):
        f = op.split("/")
        c = f[0]
        if c in "gr":
            n, k = node_at(root, parse_path(f[1])), parse_key(f[2])
            if c == "g":
                if lookup(n, k) is None:
                    n["kids"].append([k, fresh()])
            else:
                n["kids"] = [e for e in n["kids"] if e[0] != k]
        elif c == "t":
            node_at(root, parse_path(f[1]))["tag"] = int(f[2])
        elif c in "xk":
            node_at(root, parse_path(f[1]))["kids"] = []
        elif c in "zyY":
            pass
        elif c == "i":
            d, k, sp = parse_path(f[1]), parse_key(f[2]), parse_path(f[3])
            snap = copy.deepcopy(node_at(root, sp))
            put(node_at(root, d)["kids"], k, snap)
        else:
            d, s = parse_path(f[1]), parse_path(f[2])
            snap = copy.deepcopy(node_at(root, s))
            if c == "c":
                node_at(root, d)["kids"] = snap["kids"]
            elif c == "a":
                if d == ():
                    root = snap
                else:
                    for e in node_at(root, d[:-1])["kids"]:
                        if e[0] == d[-1]:
                            e[1] = snap
            elif d != s:
                if c in "mq":
                    node_at(root, s)["kids"] = []
                dn = node_at(root, d)
                if c == "m":
                    dn["kids"] = snap["kids"]
                else:
                    for k, v in snap["kids"]:
                        put(dn["kids"], k, v)
        outs.append(dump(root))
    return "|".join(outs) if outs else "-"


WITNESSES = [
    # seeded C13-c1: the source lives inside the destination's own storage
    "httree g/~/97;g/~/98;g/97/99;g/97/100;t/97.99/5;c/~/97",
    "httree g/~/97;g/97/98;g/97.98/99;g/97.98.99/100;t/97.98.99/3;a/~/97.98;m/99/99.100",
    "httree g/~/97;g/~/98;g/~/99;g/~/100;g/~/-;g/98/97;g/98/98;g/98/99;t/98.98/4;c/~/98;c/~/98",
    # repaired defect: child.kids = ancestor.kids copied an already emptied destination
    "httree g/~/97;g/97/99;g/97.99/100;t/97/7;c/97.99/~",
    "httree g/~/97;g/~/98;g/97/99;t/97.99/2;a/97.99/~;c/98/~",
]

def fill_programs():
    """Every fill level 1..9 of one table (capacities 2, 4, 8, 16: exactly full at 2, 4, 8), then a call whose
    argument is an element of that table: const-value Insert of a sibling under a new and under an existing
    key, and the copying merge of a child's table (disjoint keys) into its parent."""
    out = []
    allk = [97, 98, 99, 100, 101, 102, 103, 104, 105]
    for n in range(1, 10):
        fill = ";".join("g/~/%d" % k for k in allk[:n])
        base = "%s;t/%d/7;g/%d/120;g/%d/121;g/%d/122" % (fill, allk[0], allk[0], allk[0], allk[0])
        out.append("httree %s;i/~/110/%d;i/~/%d/%d" % (base, allk[0], allk[n - 1], allk[0]))
        out.append("httree %s;i/~/%d/%d" % (base, allk[n - 1], allk[0]))
        out.append("httree %s;p/~/%d" % (base, allk[0]))
        out.append("httree %s;g/%d.120/130;g/%d.120/131;p/%d/%d.120;p/~/%d.120" % (base, allk[0], allk[0], allk[0], allk[0], allk[0]))
    return out


# recorded finding (known-findings.txt, key related-merge): operator+= between a table and a table stored
# inside its own values (or around it) changes the destination while it iterates over the source
RELATED_MERGE_PROBES = [
    "httree g/~/97;g/97/97;g/97/98;p/~/97",
    "httree g/~/97;g/97/97;g/97/98;g/97/99;q/~/97",
    "httree g/~/97;g/~/98;g/97/99;p/97/~",
]


def cases(ctx):
    rng = ctx.rng
    lines = list(WITNESSES) + fill_programs()
    for _ in range(2500 if not ctx.thorough else 50000):
        l, e = gen_program(rng, rng.randrange(2, 18))
        assert interp(l) == e, l
        lines.append(l)
    return lines, [interp(l) for l in lines]


def run(ctx, drv=None):
    h = ctx.build_harness("hashtree_harness.cpp")
    drv = drv or ctx.build_driver()
    if not (h and drv):
        return
    lines, exp = cases(ctx)
    impl, faults = core.run_lines_parallel(h, lines, jobs=12)
    for i, kind, err in faults:
        ctx.fail("fault:" + kind, "sanitizer fault with nested tables (copy/move/merge between related HArrays): " + lines[i][:300],
                 {"line": lines[i], "stderr": err})
    model, _ = core.run_lines_parallel(drv, lines, jobs=12, env=None)
    keep = [i for i in range(len(lines)) if not impl[i].startswith("FAULT")]
    ctx.correspond("hash-tree(lean-model)", [lines[i] for i in keep], [impl[i] for i in keep], [model[i] for i in keep],
                   nontrivial=lambda l: any(op[:2] in ("c/", "m/", "a/", "p/", "q/", "i/") for op in l.split(" ")[1].split(";")))
    for l, m, e in zip(lines, model, exp):
        if m != e:
            ctx.infra_errors.append("Lean tree model and the Python reference disagree on %s: %s vs %s" % (l, m[-200:], e[-200:]))
            break
    n_alias = 0
    for l, a, e in zip(lines, impl, exp):
        if a.startswith("FAULT"):
            continue
        prog = l.split(" ")[1]
        if any(op[:2] in ("c/", "m/", "a/", "p/", "q/", "i/") for op in prog.split(";")):
            n_alias += 1
        if a != e:
            what = "lookup by key and iteration by index disagree" if "LOOKUP-MISMATCH" in a else "nested HArray differs from the insertion-ordered-map value semantics"
            ctx.fail("hash-tree", "%s: %s -> %s expected %s" % (what, l[:300], a[-200:], e[-200:]),
                     {"line": l, "impl": a, "expected": e})
    po, pf = core.run_lines(h, RELATED_MERGE_PROBES)
    for l, a in zip(RELATED_MERGE_PROBES, po):
        if a != interp(l):
            ctx.fail("related-merge", "operator+= between an HArray and an HArray stored inside its own values (or around it): %s -> %s, value semantics %s"
                     % (l, a[-120:], interp(l)[-120:]), {"line": l, "impl": a, "expected": interp(l)})
    ctx.count("related-merge-probe", len(RELATED_MERGE_PROBES), len(RELATED_MERGE_PROBES))
    ctx.count("harray-of-recursive-owning-type", len(lines), n_alias, {"stream": "hash-tree", "input": lines[0], "impl": impl[0][-120:]})
