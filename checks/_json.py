"""Shared machinery of the JSON checks C05-C08 (DESIGN.md §6)."""
import itertools
import os
from vlib import core, jsongen

WIDTHS = ["1", "2", "4"]
WNUM = {"1": 1, "2": 2, "4": 4, "W": 4}

SAFETY_THEOREMS = [
    "Qentem.Props.C05.parse_no_fault",
    "Qentem.Props.C05.parse_no_fault_concrete",
    "Qentem.Props.C05.fuel_never_exhausted",
]


def corpus_lines(pid):
    d = os.path.join(core.VERIF, "corpus", pid)
    out = []
    if os.path.isdir(d):
        for fn in sorted(os.listdir(d)):
            for ln in open(os.path.join(d, fn)):
                ln = ln.rstrip("\n")
                if ln and not ln.startswith("#"):
                    out.append(ln)
    return out


def setup(ctx, modules, theorems, open_statements=()):
    ctx.gen_constants(["Json"])
    ctx.prove(modules, theorems, open_statements)
    drv = ctx.build_driver()
    h = ctx.build_harness("json_harness.cpp")
    return drv, h


def units_for_width(units, w):
    lim = {"1": 0xFF, "2": 0xFFFF, "4": 0xFFFFFFFF, "W": 0xFFFFFFFF}[w]
    return [u & lim for u in units]


def parse_lines(items):
    """items: list of (w, units) -> protocol lines"""
    return ["jsparse %s %s" % (w, core.show_units(u)) for w, u in items]


def run_both(ctx, drv, h, lines, stream, jobs=12, correspond=True):
    impl, faults = core.run_lines_parallel(h, lines, jobs=jobs)
    for i, kind, err in faults:
        ctx.fail("fault:" + kind, "sanitizer fault in the JSON code on: " + lines[i][:300], {"line": lines[i], "stderr": err})
    # the three-argument entry point with a scratch stream shared by all documents of a harness process (valid and
    # rejected ones interleaved): same answers as with a fresh stream per document
    sl = [("jsparseS" + l[7:]) for l in lines if l.startswith("jsparse ")]
    if sl:
        so, sf = core.run_lines_parallel(h, sl, jobs=jobs)
        base = [a for l, a in zip(lines, impl) if l.startswith("jsparse ")]
        for i, kind, err in sf:
            ctx.fail("fault:" + kind, "sanitizer fault in JSON::Parse(stream, content, length) with a reused scratch stream on: " + sl[i][:300], {"line": sl[i], "stderr": err})
        nb = 0
        for l, a, b in zip(sl, base, so):
            if a.startswith("FAULT") or b.startswith("FAULT") or a == b:
                continue
            nb += 1
            if nb <= 3:
                ctx.fail("shared-scratch-stream", "JSON::Parse(stream, …) with a reused scratch stream differs from a fresh parse: %s -> %s (fresh: %s)" % (l[:300], b[:200], a[:200]),
                         {"line": l, "shared": b, "fresh": a, "note": "the line's result depends on the documents parsed before it in the same harness process"})
        ctx.count(stream + "(shared scratch stream)", len(sl), len(set(sl)))
    model = None
    if correspond and drv:
        model, mf = core.run_lines_parallel(drv, lines, jobs=jobs, env=None)
        # a FAULT in the implementation is compared as such (the model reports faults as 'FAULT oob')
        impl_cmp = [("FAULT" if x.startswith("FAULT") else x) for x in impl]
        model_cmp = [("FAULT" if x.startswith("FAULT") else x) for x in model]
        ctx.correspond(stream, lines, impl_cmp, model_cmp, nontrivial=lambda l: len(l) > 14)
    else:
        ctx.count(stream, len(lines), len(set(lines)), {"stream": stream, "input": lines[0][:200], "impl": impl[0][:200]} if lines else None)
    return impl, model


def long_string_docs(rng):
    """documents whose keys / strings are long (1 000 .. 9 000 units) and contain escapes: the un-escape scratch
    stream grows past every small-buffer threshold while a key or value is still being read from it"""
    docs = []
    for n in (300, 1030, 1100, 2050, 4097, 4200, 9000):
        body = [("raw", 97 + (i % 26)) for i in range(n)]
        k = rng.randrange(1, n - 1)
        esc_body = body[:k] + [("esc", rng.choice("ntr\\\"/bf")), ("u", rng.choice([0x41, 0xE9, 0x20AC]), False)] + body[k:]
        pair_body = body[:k] + [("pair", 0x1F600, True)] + body[k:]
        docs.append(("obj", [(esc_body, ("num", "1")), ([("raw", 98)], ("str", esc_body))]))
        docs.append(("arr", [("str", pair_body), ("obj", [(pair_body, ("arr", [("str", esc_body)]))])]))
        docs.append(("obj", [([("raw", 107)], ("str", body)), (esc_body[:n // 2], ("null",)), (esc_body, ("str", [("esc", "n")]))]))
    return docs


def huge_docs(rng, thorough=False):
    """(w, units): a few very large documents - strings of 70 000 and 1 100 000 units with an escape near the start
    and near the end (the scratch stream of the un-escaper passes every capacity threshold up to 2^20 and every
    block-copy threshold), and containers with 5 000 empty members (nesting counters must return to zero)."""
    out = []
    for n in (70000, 300000, 1100000) if not thorough else (70000, 140000, 300000, 600000, 1100000, 2200000):
        w = rng.choice(["1", "2", "4"])
        body = [97 + (i % 26) for i in range(n)]
        k = rng.randrange(3, 40)
        s = body[:k] + [92, 110] + body[k:n - 7] + [92, 117, 48, 48, 101, 57] + body[n - 7:]
        out.append((w, [91, 34] + s + [34, 44, 123, 34] + s[:n // 2] + [34, 58, 34] + s[k + 2:k + 9] + [34, 125, 93]))
        out.append((w, [123, 34] + s + [34, 58, 49, 125]))
    for n in (4097, 5000, 9000):
        out.append(("1", [91] + [123, 125, 44] * (n - 1) + [123, 125, 93]))                     # [{},{},...]
        out.append(("1", [91] + [91, 93, 44] * (n - 1) + [91, 93, 93]))                       # [[],[],...]
        ms = []
        for i in range(n):
            ms += [34] + [ord(c) for c in "k%d" % i] + [34, 58] + ([123, 125] if i % 2 else [91, 93]) + [44]
        out.append(("1", [123] + ms[:-1] + [125]))                                            # {"k0":[],"k1":{},...}
    return out


def gen_docs(ctx, n, escapes=True, maxdepth=4):
    rng = ctx.rng
    docs = []
    for _ in range(n):
        docs.append(jsongen.gen_doc(rng, 0, rng.choice([1, 2, 3, maxdepth]), escapes, True))
    return docs


STRUCT_ALPHABET = [ord(c) for c in '[]{}"\\,:t1 u'] + [0, 11]
SUFFIXES = [ord(c) for c in 'x]}[{",:0-tfn\\/.e+*#'] + [0, 1, 127, 128, 255]
CONTROL_SUFFIXES = [x for x in range(0, 32) if x not in (9, 10, 13)] + [127, 133, 160]


def wide_suffixes(rng, w, n=8):
    """non-whitespace units of a wide build whose low byte (or low 16 bits) is a whitespace / structural unit"""
    if w == "1":
        return []
    base = [32, 9, 10, 13, 93, 125, 44, 0]
    out = [0x2009, 0x200A, 0x2020, 0x0120, 0x010A, 0x010D, 0x0109, 0x3009, 0xFF0D, 0x2028, 0x00A0, 0x0085, 0xFEFF]
    out += [b + 0x100 * k for b in base for k in (1, 0x20, 0xFF)]
    if w in ("4", "W"):
        out += [b + k for b in base for k in (0x10000, 0x100000, 0x1000000, 0x80000000)]
    out = [x for x in out if x not in (32, 9, 10, 13)]
    return rng.sample(out, min(n, len(out)))


def alias_unit(rng, x, w):
    """x + high bits: the same low byte / low half, a different unit (widths 2 and 4 only)"""
    # (kept inside the Unicode scalar range: the unit may sit inside a string body, where the independent
    # reference reader must be able to represent it)
    ks = [0x100, 0x2000, 0xFF00] + ([0x10000, 0x100000] if w in ("4", "W") else [])
    return x + rng.choice(ks)


def mutate(rng, u):
    u = list(u)
    if not u:
        return [rng.choice(STRUCT_ALPHABET)]
    k = rng.randrange(6)
    i = rng.randrange(len(u))
    if k == 0:
        del u[i]
    elif k == 1:
        u.insert(i, u[i])
    elif k == 2:
        u[i] = rng.choice(STRUCT_ALPHABET)
    elif k == 3:
        u.insert(i, rng.choice(STRUCT_ALPHABET))
    elif k == 4:
        u = u[:i]
    else:
        j = rng.randrange(len(u))
        u[i], u[j] = u[j], u[i]
    return u


def soup(rng, n):
    frags = ['{', '}', '[', ']', '"', '":', ',', ':', 'true', 'false', 'null', 'tru', 'nul', '"a"', '"\\', '\\u', '\\u12', '\\uD800', '\\uDC00',
             '1', '-', '0', '1.5', '1e', '1e+', ' ', '\n', '\t', '\x0b', '\x0c', '\x1f', '\\"', '\\n', 'x', '\0', '0x1F', '.5', '+1', '--1', '1e400', '\\ud83d\\ude00']
    out = []
    for _ in range(n):
        out += [ord(c) for c in rng.choice(frags)]
    return out


SIMD_BUILDS = [("sse2", ["-DQENTEM_SSE2=1", "-msse2"]), ("avx2", ["-DQENTEM_AVX2=1", "-mavx2"])]


def inject_ws(rng, u, maxrun=70):
    """Long whitespace runs (0..maxrun units, so that a run can cover one or several 16/32-byte vector blocks
    starting at any alignment) before/after structural units outside strings, and after the document."""
    out, in_str, esc = [], False, False
    ws = [32, 32, 32, 10, 9, 13]
    def run():
        k = rng.choice([0, 0, 1, 3, 14, 15, 16, 17, 27, 28, 29, 31, 32, 33, 47, 48, 63, 64, 65, rng.randrange(0, maxrun)])
        return [rng.choice(ws) for _ in range(k)]
    for x in u:
        if in_str:
            out.append(x)
            if esc:
                esc = False
            elif x == 92:
                esc = True
            elif x == 34:
                in_str = False
                if rng.random() < 0.3:
                    out += run()
            continue
        if x == 34:
            in_str = True
            out.append(x)
        elif x in (91, 93, 123, 125, 44, 58):
            if rng.random() < 0.4:
                out += run()
            out.append(x)
            if rng.random() < 0.4:
                out += run()
        else:
            out.append(x)
    if rng.random() < 0.5:
        out = run() + out
    if rng.random() < 0.7:
        out += run()
    return out


def simd_builds(ctx, h, lines, stream="simd-builds"):
    """The same inputs through SSE2 and AVX2 builds of the harness (exact-size buffers, ASan/UBSan): every result
    must equal the scalar build's, and no sanitizer fault."""
    if not h:
        return
    base, _ = core.run_lines_parallel(h, lines, jobs=12)
    have_avx2 = "avx2" in open("/proc/cpuinfo").read()
    for name, extra in SIMD_BUILDS:
        if name == "avx2" and not have_avx2:
            ctx.notes.append("CPU without AVX2: AVX2 build not run")
            continue
        exe = ctx.build_harness("json_harness.cpp", flags=core.SAN_FLAGS + extra, tag="san_" + name)
        if not exe:
            continue
        out, faults = core.run_lines_parallel(exe, lines, jobs=12)
        for i, kind, err in faults:
            ctx.fail("fault:" + kind, "sanitizer fault in the %s build of the JSON code on: %s" % (name, lines[i][:300]), {"line": lines[i], "build": name, "stderr": err})
        n = 0
        for l, a, b in zip(lines, base, out):
            if b.startswith("FAULT") or a.startswith("FAULT"):
                continue
            if a != b:
                n += 1
                if n <= 3:
                    ctx.fail("simd-differs", "%s build differs from the scalar build: %s -> %s (scalar %s)" % (name, l[:300], b[:200], a[:200]), {"line": l, "build": name, "simd": b, "scalar": a})
        ctx.count("%s(%s)" % (stream, name), len(lines), len(set(lines)))
