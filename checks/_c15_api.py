"""Mechanical audit of the C15 harness against the public ordering / comparison / sort API.

Every public declaration of the headers below whose name is a relational operator, IsLess / IsGreater /
IsEqual, Sort, or one of the by-key lookups used after a Sort is extracted (name + parameter list as
written) and matched against what harness/order_harness.cpp calls.  A declaration that appears in a
header and has no entry in DRIVEN (a new overload, a new operand combination) is reported NOT DRIVEN;
c15.py puts that list into the evidence notes on every run.  `python3 checks/_c15_api.py` prints the table."""
import os
import re
from vlib import core

HEADERS = ["StringUtils.hpp", "String.hpp", "StringView.hpp", "StringStream.hpp", "Value.hpp", "Array.hpp",
           "HashTable.hpp", "HArray.hpp", "HList.hpp", "Memory.hpp"]
HARNESS = "order_harness.cpp"
NAMES = re.compile(r"^(operator(==|!=|<=|>=|<|>)|IsLess|IsGreater|IsEqual|Sort|GetKeyIndex|GetKey|Has)$")

SIG = re.compile(r"^(?:    )?(?:template <[^>]*>\s*)?(?:(?:inline|static|explicit|friend|constexpr|QENTEM_CONST_EXPRESSION|QENTEM_NOINLINE)\s+)*"
                 r"(?:[\w:<>,\s\*&]+?\s+[\*&]*)?(\w+|operator\s*[^\s(]+)\s*\(([^)]*)\)[^;{]*\{", re.M)

# (header class, name, regex on the parameter list) -> regex that must occur in the harness source
DRIVEN = [
    ("StringUtils", "IsLess", r"left_length", r"StringUtils::IsLess\(cp\(ba\), cp\(bb\)"),
    ("StringUtils", "IsGreater", r"left_length", r"StringUtils::IsGreater\(cp\(ba\), cp\(bb\)"),
    ("StringUtils", "IsEqual", r"SizeT length", r"StringUtils::IsEqual\(cp\(ba\), cp\(bb\), mn\)"),
    ("String", "operator==", r"const String &", r"sa == sb"), ("String", "operator!=", r"const String &", r"sa != sb"),
    ("String", "operator<", r"const String &", r"sa < sb"), ("String", "operator<=", r"const String &", r"sa <= sb"),
    ("String", "operator>", r"const String &", r"sa > sb"), ("String", "operator>=", r"const String &", r"sa >= sb"),
    ("String", "operator==", r"const Char_T \*", r"sa == cp\(bn\)"), ("String", "operator!=", r"const Char_T \*", r"sa != cp\(bn\)"),
    ("String", "operator<", r"const Char_T \*", r"sa < cp\(bn\)"), ("String", "operator<=", r"const Char_T \*", r"sa <= cp\(bn\)"),
    ("String", "operator>", r"const Char_T \*", r"sa > cp\(bn\)"), ("String", "operator>=", r"const Char_T \*", r"sa >= cp\(bn\)"),
    ("String", "IsEqual", r"SizeT length", r"sa\.IsEqual\("),
    ("StringView", "operator==", r"const StringView &", r"va == vb"), ("StringView", "operator!=", r"const StringView &", r"va != vb"),
    ("StringView", "operator<", r"const StringView &", r"va < vb"), ("StringView", "operator<=", r"const StringView &", r"va <= vb"),
    ("StringView", "operator>", r"const StringView &", r"va > vb"), ("StringView", "operator>=", r"const StringView &", r"va >= vb"),
    ("StringView", "operator==", r"const Char_T \*", r"va == cp\(bn\)"), ("StringView", "operator!=", r"const Char_T \*", r"va != cp\(bn\)"),
    ("StringView", "operator<", r"const Char_T \*", r"va < cp\(bn\)"), ("StringView", "operator<=", r"const Char_T \*", r"va <= cp\(bn\)"),
    ("StringView", "operator>", r"const Char_T \*", r"va > cp\(bn\)"), ("StringView", "operator>=", r"const Char_T \*", r"va >= cp\(bn\)"),
    ("StringView", "IsEqual", r"SizeT length", r"va\.IsEqual\("),
    ("StringStream", "operator==", r"const StringStream &", r"ta == tb"), ("StringStream", "operator!=", r"const StringStream &", r"ta != tb"),
    ("StringStream", "operator==", r"const String<Char_T> &", r"ta == sb"), ("StringStream", "operator!=", r"const String<Char_T> &", r"ta != sb"),
    ("StringStream", "operator==", r"const StringView<Char_T> &", r"ta == vb"), ("StringStream", "operator!=", r"const StringView<Char_T> &", r"ta != vb"),
    ("StringStream", "operator==", r"const Char_T \*", r"ta == cp\(bn\)"), ("StringStream", "operator!=", r"const Char_T \*", r"ta != cp\(bn\)"),
    ("StringStream", "IsEqual", r"SizeT length", r"ta\.IsEqual\("),
    ("Value", "operator<", r"const Value &", r"#define SIX\(x, y\).*\(x\) < \(y\)"), ("Value", "operator>", r"const Value &", r"#define SIX.*\(x\) > \(y\)"),
    ("Value", "operator<=", r"const Value &", r"#define SIX.*\(x\) <= \(y\)"), ("Value", "operator>=", r"const Value &", r"#define SIX.*\(x\) >= \(y\)"),
    ("Value", "operator==", r"const Value &", r"#define SIX.*\(x\) == \(y\)"),
    ("Value", "Sort", r"bool ascend", r"arr\.Sort\(asc\)|v\.Sort\(asc\)"),
    ("Array", "Sort", r"bool ascend", r"arr\.GetArray\(\)->Sort\(asc\)"),
    ("HashTable", "Sort", r"bool ascend", r"h\.Sort\(asc\)"),
    ("HashTable", "GetKeyIndex", r"const Char_T \*str", r"GetKeyIndex\(idx, cp\(b\)"),
    ("HashTable", "GetKey", r"SizeT index", r"h\.GetKey\(idx\)"),
    ("HashTable", "Has", r"const Char_T \*key", r"h\.Has\(cp\(b\)"),
    ("HashTable", "Has", r"const Key_T &key", r"h\.Has\(key\)"),
    ("HashTable", "GetKeyIndex", r"const Key_T &key", r"h\.GetKeyIndex\(idx2, key\)"),
    ("Value", "GetKey", r"SizeT index", r"v\.GetKey\(idx\)"),
    ("HArray", "operator==", r"const HAItem_T &", r"h\.First\(\)\[idx\] == h\.First\(\)\[idx \+ 1\]"),
    ("HList", "operator==", r"const HLItem_T &", r"HList<VStr> h;.*h\.First\(\)\[idx\] == h\.First\(\)\[idx \+ 1\]"),
    ("HArray", "operator<", r"const HAItem_T &", r"tables\(h\.First\(\)"), ("HArray", "operator>", r"const HAItem_T &", r"tables\(h\.First\(\)"),
    ("HArray", "operator<=", r"const HAItem_T &", r"tables\(h\.First\(\)"), ("HArray", "operator>=", r"const HAItem_T &", r"tables\(h\.First\(\)"),
    ("HList", "operator<", r"const HLItem_T &", r"HList<VStr> h;"), ("HList", "operator>", r"const HLItem_T &", r"HList<VStr> h;"),
    ("HList", "operator<=", r"const HLItem_T &", r"HList<VStr> h;"), ("HList", "operator>=", r"const HLItem_T &", r"HList<VStr> h;"),
    ("Memory", "Sort", r"Type_T \*arr, Number_T start, Number_T end", r"Memory::Sort<true>\(a->Storage\(\), Number_T\(start\)"),
]

# declared but deliberately reached another way (with the reason)
EXCLUDED = {}

# forms a reader might expect that the headers do not declare (checked absent on every run)
ABSENT = [
    ("Value", r"operator!="), ("String", r"operator[<>=!]+\(const StringView"), ("StringView", r"operator[<>=!]+\(const String<"),
    ("String", r"friend\s+bool\s+operator"), ("StringView", r"friend\s+bool\s+operator"),
]


def public_api(header):
    src = open(os.path.join(core.INCLUDE, header)).read()
    cut = src.find("  private:")
    body = src if cut < 0 else src[:cut]
    cls = header[:-4]
    out = []
    for m in SIG.finditer(body):
        name, args = re.sub(r"\s+", "", m.group(1)), re.sub(r"\s+", " ", m.group(2).strip())
        if NAMES.match(name):
            out.append((cls, name, args))
    return out


def audit():
    text = open(os.path.join(core.HARNESS, HARNESS)).read()
    rows, uncovered = [], []
    for h in HEADERS:
        for cls, name, args in public_api(h):
            reason = EXCLUDED.get((cls, name, args))
            if reason:
                rows.append(("%s::%s" % (cls, name), args, "excluded: " + reason))
                continue
            hit = [d for d in DRIVEN if d[0] == cls and d[1] == name and re.search(d[2], args)]
            ok = bool(hit) and all(re.search(d[3], text, re.S) for d in hit)
            rows.append(("%s::%s" % (cls, name), args, "driven" if ok else "NOT DRIVEN"))
            if not ok:
                uncovered.append("%s::%s(%s)" % (cls, name, args))
    for cls, pat in ABSENT:
        src = open(os.path.join(core.INCLUDE, cls + ".hpp")).read()
        if re.search(pat, src):
            rows.append((cls, pat, "NOT DRIVEN (form listed as absent now exists)"))
            uncovered.append("%s: %s now declared" % (cls, pat))
    return rows, uncovered


if __name__ == "__main__":
    import sys
    sys.path.insert(0, core.VERIF)
    rows, unc = audit()
    for r in rows:
        print("| `%s` | `%s` | %s |" % r)
    print("uncovered:", unc)
