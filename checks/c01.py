"""C01 — rendering ANY template text with ANY value is memory-safe and terminates (four widths)."""
import json
import os
import re
import threading
import time
from concurrent.futures import ThreadPoolExecutor
from vlib import core
from checks import _tmpl_streams as T

META = {
    "property_id": "C01",
    "technique": "Lean 4 model of Finder / TemplateCore::parse / render with checked semantics (every read, slice and index is an Except-Fault accessor) + model/implementation correspondence on grammar-generated templates, a malformed stream (truncation at every offset, delimiter edits, splices, fragment soup, field-width boundaries, deep nesting) and value trees of all kinds, in four character widths, on exact-size heap buffers under ASan/UBSan/LSan",
    "level": "proof",
    "theorem": "Qentem.Props.C01.render_safe: for every content with length + 16 < 2^32 (SizeT), every value, formatter, escape switch, sort and group function: parse followed by render makes no out-of-range access; Qentem.Props.C01.parse_wf: the tag tree is well-formed. Side condition = the 32-bit SizeT of the code; proved for the code with 0a7719b/bce4ef4 (false without them: notes/witness-iif-startid.txt)",
    "design_ref": "DESIGN.md §6 C01",
    "text": "The same template text and value go to the real code (Template::Render on an exact-size buffer; ASan+UBSan+LSan, per-batch timeout) and to the compiled Lean model; the rendered text and the parsed tag tree must be identical, and the real code must never produce a sanitizer report, a signal or a hang.  Any fault of the real code is a C01 failure with the input line and the sanitizer stack as replay.",
    "note": "Trusted: Lean kernel for the theorems; g++ as translator of the pattern tables; the harness; ASan/UBSan semantics of 'fault'.  Compared domain: integer-valued math, group= through the GroupBy model of C18, no sort= (the model driver does not format reals nor sort); those constructs are still run on the real code for faults (stream g3).",
}

THEOREMS = ["Qentem.Props.C01." + t for t in [
    "tables_width_independent", "finder_safe_total", "expr_scan_safe", "render_safe_of_wf",
    "parse_wf_varraw", "render_safe_varraw", "parse_wf_inline", "render_safe_inline",
    "parse_text", "render_text", "checkLoopVariable_safe", "expr_scan_total", "parse_wf_loops", "render_safe_loops", "finder_facts", "parse_wf_blocks", "render_safe_blocks", "parse_wf", "parse_wf_ok", "render_safe", "parse_total", "render_total"]]
OPEN_STATEMENTS = ["none for the model: ParseSafe / RenderSafe are proved as parse_total / render_total (contents that fit SizeT; the bound check of 487b090 in getValue) - the scanner model returns a well-formed tag list and some render fuel returns a text; that the C++ follows the model is what every run of this check compares"]

# Work-around (vlib/core.py is shared and not edited here): core.classify_fault compares rc < 0
# before it tests rc == "timeout", which raises TypeError on a timed-out batch.
_orig_classify = core.classify_fault


def _classify_fault(rc, err):
    if rc == "timeout":
        return "timeout"
    return _orig_classify(rc, err)


core.classify_fault = _classify_fault

HERE = os.path.dirname(os.path.abspath(__file__))
CORPUS = os.path.join(os.path.dirname(HERE), "corpus", "C01")


def U(s):
    return [ord(c) for c in s]


def S(units):
    return "".join(chr(x) if 32 <= x < 127 else "\\u%04x" % x for x in units)


# ------------------------------------------------------------------------------------------------
# Input classes on which the Lean side (model / driver) is known to differ from the real code
# although the real code does not fault.  They are still run on the C++ (faults count); a
# disagreement that matches a predicate is excluded from the model comparison and counted in the
# evidence.  Each entry: (name, predicate(line, template_units, impl_out, model_out)).
#   -- keep every predicate as narrow as the diagnosed cause --
def _txt(units):
    return "".join(chr(x) if x < 0x110000 else "\ufffd" for x in units)


def _model_real_marker(line, units, impl, model):
    # The driver prints every Real as `?` (fmtReal); generators avoid reals, mutations of the
    # malformed stream can still create one.  Only when the model output has a `?` the template lacks.
    return model.startswith("R ") and model[2:].split(",").count("63") > units.count(63)


# GAP (lean/Qentem/Model/Expr.lean, evaluation; C04 area): a text literal (neither number nor
# {var:}) as an operand of an arithmetic / relational operator in an expression that also has
# == or != : the scanner of the C++ stores it as NotANumber, `left -= right` etc. ignore it
# (QExpression.hpp compound operators), so `{math:2-x==9}` renders `0` and `{math:1+x==1}`
# renders `1`; the model gives "no value" and echoes the tag.
_OPS = re.compile(r"(\|\||&&|==|!=|>=|<=|[><|&+\-*/%^])")
_NUM = re.compile(r"^-?\d+(?:\.\d+)?(?:[eE][+-]?\d+)?$")


def _expr_segments(t):
    segs = [m.group(1) for m in re.finditer(r"\{math:((?:[^{}]|\{var:[^{}]*\})*)\}", t)]
    segs += [m.group(2) for m in re.finditer(r"case\s*=\s*([\"'])(.*?)\1", t, re.S)]
    return segs


def _text_under_arith(seg):
    if "==" not in seg and "!=" not in seg:
        return False
    toks = _OPS.split(re.sub(r"\{var:[^{}]*\}", "1", seg).replace("(", " ").replace(")", " "))
    for j in range(0, len(toks), 2):
        o = toks[j].strip()
        if o and not _NUM.match(o):
            near = [toks[k] for k in (j - 1, j + 1) if 0 <= k < len(toks)]
            if any(x not in ("==", "!=") for x in near):
                return True
    return False


def _gap_text_arith(line, units, impl, model):
    return impl.startswith("R ") and model.startswith("R ") and any(_text_under_arith(x) for x in _expr_segments(_txt(units)))


def _gap_model_text_arith(line, units, impl, model):
    """the model itself says whether an expression of this template has a text operand under an
    arithmetic operator (driver op `tplta` = Tree.textArith, the documented domain restriction of
    the C04 model).  Asked only for lines that disagree."""
    if not (impl.startswith("R ") and model.startswith("R ")):
        return False
    import subprocess
    try:
        r = subprocess.run([core.driver_path()], input="tplta 1 %s\n" % (core.show_units(units)), capture_output=True, text=True, timeout=60)
        return r.stdout.strip() == "A 1"
    except Exception:
        return False


KNOWN_MODEL_GAPS = [
    ("driver-prints-reals-as-question-mark", _model_real_marker),
    ("expr-text-literal-under-arithmetic (model flag Tree.textArith)", _gap_model_text_arith),
]

# Two gaps found with this check were repaired in the model (commit edc53a4) and their predicates
# removed: the hoisted `(<- isEqualAt ..)` in parseIfCase/stepIif, and `<loop set=.. set=..>` keeping
# the IDLength/Level of the first assignment.

# ------------------------------------------------------------------------------------------------
# value trees:  ('u',) ('z',) ('t',) ('f',) ('n', int) ('i', int) ('s', [units]) ('a', [doc]) ('o', [(key units, doc)])

HTML = "<>&\"'"
PHRASES = ["{0}", "Hi {0} and {1}!", "{1}{0}", "{", "{x}", "{12}", "a{0", "{0}{0}{0}", "{9}", "<{2}>", "{3} & {0}",
           "{5", "}{0}{", "{0}}", "{{0}}", "{a}{1}", "plain", "", "{0} {1} {2} {3} {4} {5} {6} {7} {8} {9}", "{:}", "{/}"]
KEYS = ["a", "b", "c", "n", "m", "s", "o", "l", "ph", "num", "e", "eo", "u", "big", "ab", "l2", "p", "q", "k", "x1", "0", "1", "v"]
ODD_KEYS = ["a]", "a[", "[0]", "", "a b", "<k>", "k&", "A", "a[0]", "]", "é"]


def gen_string(rng):
    r = rng.random()
    if r < 0.25:
        n = rng.randrange(0, 8)
        return U("".join(rng.choice(HTML + "ab ") for _ in range(n)))
    if r < 0.5:
        return U(rng.choice(PHRASES))
    if r < 0.65:
        return U(rng.choice(["0", "1", "7", "12", "-3", "007", "100", "+5", " 4", "4 ", "1a", "--1"]))
    if r < 0.7:
        return []
    if r < 0.8:
        return U(rng.choice(["true", "false", "null", "{var:a}", "<loop>", "</if>", "{math:1+1}", "&amp;", "&lt"]))
    n = rng.randrange(1, 12)
    return [rng.choice([rng.randrange(32, 127), rng.randrange(1, 256), 60, 38, 123, 125]) for _ in range(n)]


def gen_scalar(rng, small=True):
    r = rng.random()
    if r < 0.30:
        return ("n", rng.randrange(0, 21) if (small or rng.random() < 0.8) else rng.choice([255, 256, 65535, 2 ** 32, 2 ** 63, 2 ** 64 - 1, 10 ** 19]))
    if r < 0.42:
        return ("i", rng.randrange(-20, 21) if (small or rng.random() < 0.8) else rng.choice([-2 ** 63, 2 ** 63 - 1, -1, -10 ** 18]))
    if r < 0.72:
        return ("s", gen_string(rng))
    if r < 0.80:
        return ("t",)
    if r < 0.88:
        return ("f",)
    if r < 0.95:
        return ("z",)
    return ("u",)


def gen_key(rng, used):
    for _ in range(20):
        k = rng.choice(KEYS) if rng.random() < 0.9 else rng.choice(ODD_KEYS)
        if k not in used:
            used.add(k)
            return U(k)
    k = "k%d" % len(used)
    used.add(k)
    return U(k)


def gen_tree(rng, depth, small=True):
    """a random doc of nesting depth <= depth"""
    if depth <= 0 or rng.random() < 0.45:
        return gen_scalar(rng, small)
    if rng.random() < 0.5:
        n = rng.choice([0, 1, 1, 2, 2, 3])
        return ("a", [gen_tree(rng, depth - 1, small) for _ in range(n)])
    n = rng.choice([0, 1, 2, 2, 3])
    used = set()
    return ("o", [(gen_key(rng, used), gen_tree(rng, depth - 1, small)) for _ in range(n)])


def gen_root(rng, big=False, few=False):
    """big: 64-bit extremes may sit anywhere (only for the stream that is not compared: signed
    overflow in {math:} is undefined behaviour in the C++ and wraps in the model);
    few: at most three members at the top (fragment soup nests set-less loops over the root)."""
    small = not big
    r = rng.random()
    if r < 0.04:
        return gen_scalar(rng, small)
    if r < 0.14:
        return ("a", [gen_tree(rng, 3, small) for _ in range(rng.randrange(0, 4 if few else 5))])
    # the usual shape: an object whose members the templates know about
    ms = []
    used = set()
    keep = 0.2 if few else 0.85

    def put(k, d):
        if k not in used and rng.random() < keep:
            used.add(k)
            ms.append((U(k), d if rng.random() < 0.93 else gen_tree(rng, 2, small)))
    put("a", gen_scalar(rng, small))
    put("b", ("s", gen_string(rng)))
    put("c", gen_scalar(rng, small))
    put("n", ("n", rng.randrange(0, 21)))
    put("m", ("i", rng.randrange(-20, 21)))
    put("s", ("s", U("".join(rng.choice(HTML + "xy") for _ in range(rng.randrange(1, 7))))))
    put("ph", ("s", U(rng.choice(PHRASES))))
    put("num", ("s", U(rng.choice(["3", "12", "0", "-4", "07"]))))
    if big:
        put("big", ("n", rng.choice([2 ** 64 - 1, 2 ** 63, 12345678901234567890, 4294967296])) if rng.random() < 0.7 else
            ("i", rng.choice([-2 ** 63, 2 ** 63 - 1, -10 ** 18])))
    put("ab", gen_scalar(rng, small))
    put("e", ("a", []))
    put("eo", ("o", []))
    put("u", ("u",))
    put("o", ("o", [(U("p"), gen_scalar(rng, small)), (U("q"), gen_scalar(rng, small)),
                    (U("l2"), ("a", [("o", [(U("k"), gen_scalar(rng, small))]) for _ in range(rng.randrange(0, 3))])),
                    (U("0"), gen_scalar(rng, small))][:rng.randrange(1, 5)]))
    put("l", ("a", [gen_tree(rng, 2, small) for _ in range(rng.randrange(0, 5))]))
    put("l2", ("a", [("a", [gen_scalar(rng, True) for _ in range(rng.randrange(0, 4))]) for _ in range(rng.randrange(0, 4))]))
    if rng.random() < 0.3:
        ms.append((gen_key(rng, used), gen_tree(rng, 3, small)))
    rng.shuffle(ms)
    if few:
        ms = ms[:3]
    return ("o", ms)


def enc(doc):
    k = doc[0]
    if k in "uztf":
        return k
    if k == "n" or k == "i":
        return "%s%d" % (k, doc[1])
    if k == "s":
        return "s" + ".".join(str(x) for x in doc[1])
    if k == "a":
        return ",".join(["a%d" % len(doc[1])] + [enc(d) for d in doc[1]])
    return ",".join(["o%d" % len(doc[1])] + ["k" + ".".join(str(x) for x in key) + "," + enc(d) for key, d in doc[1]])


def dec(tokens, i=0):
    t = tokens[i]
    k = t[0]
    if k in "uztf":
        return (k,), i + 1
    if k in "ni":
        return (k, int(t[1:])), i + 1
    if k == "s":
        return ("s", [int(x) for x in t[1:].split(".")] if len(t) > 1 else []), i + 1
    n = int(t[1:])
    i += 1
    if k == "a":
        xs = []
        for _ in range(n):
            d, i = dec(tokens, i)
            xs.append(d)
        return ("a", xs), i
    ms = []
    for _ in range(n):
        kt = tokens[i]
        key = [int(x) for x in kt[1:].split(".")] if len(kt) > 1 else []
        d, i = dec(tokens, i + 1)
        ms.append((key, d))
    return ("o", ms), i


def mask_doc(doc, mask):
    k = doc[0]
    if k == "s":
        return ("s", [x & mask for x in doc[1]])
    if k == "a":
        return ("a", [mask_doc(d, mask) for d in doc[1]])
    if k == "o":
        return ("o", [([x & mask for x in key], mask_doc(d, mask)) for key, d in doc[1]])
    return doc


def children(doc):
    if doc[0] == "a":
        return [(str(i), d) for i, d in enumerate(doc[1])]
    if doc[0] == "o":
        return [("".join(chr(x) for x in key), d) for key, d in doc[1]]
    return []


def safe_seg(seg):
    return seg != "" and all(c not in seg for c in "[]{}<>\"'=, ") and all(32 < ord(c) < 127 for c in seg)


# ------------------------------------------------------------------------------------------------
# G1: grammar-generated templates

TEXT = ["abc", " ", "\n", "x y", "<b>", "</b>", "&amp;", "a>b", "<i>", "<br/>", "1 < 2", ", ", ": ", "-", "Hello", "&", "\"q\"", "'",
        "<p class=\"c\">", "</p>", "\t", "0", "if", "loop", "var:", "=", "[0]", "()", "<l", "{ }", "{v}", "}", "{", "e<", "<e"]


class TG:
    """templates for one value tree.  g3 = also sort=/group=, division, remainder, power, decimals
    (not compared with the model)."""

    def __init__(self, rng, root, g3=False, nomath=False):
        self.rng = rng
        self.root = root
        self.g3 = g3
        self.nomath = nomath  # no expressions at all: for value trees with 64-bit extremes
        self.scope = []      # (value name, representative doc or None)
        self.nv = 0
        self.mult = 1        # product of the sizes of the enclosing loops' sets

    # ---- paths ------------------------------------------------------------------------------
    def walk(self, doc, maxseg):
        """segments of a path starting below doc; returns (segments, doc at the end or None)"""
        rng = self.rng
        segs = []
        cur = doc
        while cur is not None and len(segs) < maxseg:
            ch = [(s, d) for s, d in children(cur) if safe_seg(s)]
            if not ch or (segs and rng.random() < 0.35):
                break
            s, d = rng.choice(ch)
            r = rng.random()
            if r < 0.08:
                s, d = rng.choice(["zz", "9", "00", "k", "-1", "4294967296", "1x"]), None
            segs.append(s)
            cur = d
        if rng.random() < 0.07:     # one step too far (wrong kind / missing)
            segs.append(rng.choice(["0", "p", "k", "zz"]))
            cur = None
        return segs, cur

    def path(self, want=None):
        """text of a variable path + the doc it denotes (None = unknown / missing)"""
        rng = self.rng
        for _ in range(6):
            if self.scope and rng.random() < 0.6:
                name, rep = rng.choice(self.scope)
                if rep is None or rng.random() < 0.4:
                    txt, d = name, rep
                else:
                    segs, d = self.walk(rep, 3)
                    txt = name + "".join("[%s]" % s for s in segs)
            else:
                segs, d = self.walk(self.root, 4)
                if not segs:
                    segs, d = [rng.choice(KEYS)], None
                txt = segs[0] + "".join("[%s]" % s for s in segs[1:])
            if want is None or want(d):
                return txt, d
        return "zz", None

    @staticmethod
    def math_ok(d):
        """values that keep {math:} integer-valued and far from 64-bit overflow"""
        if d is None:
            return True
        if d[0] in ("n", "i"):
            return abs(d[1]) <= 100
        if d[0] == "s":
            t = "".join(chr(x) for x in d[1])
            return not any(c in t for c in ".eExX") or not any(c.isdigit() for c in t)
        return True

    @staticmethod
    def is_container(d):
        return d is not None and d[0] in ("a", "o")

    # ---- pieces -------------------------------------------------------------------------------
    def text(self):
        rng = self.rng
        return "".join(rng.choice(TEXT[:24] if rng.random() < 0.9 else TEXT) for _ in range(rng.choice([0, 1, 1, 2])))

    def sp(self):
        return self.rng.choice(["", "", "", " ", "  "])

    def var(self):
        return "{var:%s}" % self.path()[0]

    def raw(self):
        return "{raw:%s}" % self.path()[0]

    def atom(self, depth):
        rng = self.rng
        r = rng.random()
        if r < 0.45:
            if self.g3 and rng.random() < 0.3:
                return rng.choice(["1.5", "0.25", "2e2", "10.0", ".5", "3.", "0x10", "1e400", "9223372036854775807", "18446744073709551615", "18446744073709551616"])
            return str(rng.randrange(0, 21))
        if r < 0.8 or depth <= 0:
            return "{var:%s}" % self.path(None if self.g3 else self.math_ok)[0]
        return "(" + self.expr(depth - 1) + ")"

    def expr(self, depth=2):
        rng = self.rng
        ops = ["+", "-", "*", "==", "!=", "<", "<=", ">", ">=", "&&", "||"]
        if self.g3:
            ops = ops + ["/", "%", "^", "/", "%", "^", "&", "|"]
        n = rng.choice([1, 1, 2, 2, 3, 4])
        out = self.sp() + self.atom(depth)
        for _ in range(n - 1):
            out += self.sp() + rng.choice(ops) + self.sp() + self.atom(depth)
        return out + self.sp()

    def math(self):
        return "{math:%s}" % self.expr()

    def inline_piece(self, quote):
        """content of a true=/false= attribute"""
        rng = self.rng
        out = ""
        for _ in range(rng.choice([0, 1, 1, 2, 3])):
            r = rng.random()
            if r < 0.35:
                out += rng.choice(["Y", "N", "yes ", " no", "a b", "-", "&", "<b>", "1"])
            elif r < 0.6:
                out += self.var()
            elif r < 0.8:
                out += self.raw()
            else:
                out += self.math()
        return out.replace(quote, "")

    def iif(self):
        rng = self.rng
        q = rng.choice(["\"", "'"])
        atts = []
        qs = [q, q, q] if rng.random() < 0.8 else [rng.choice(["\"", "'"]) for _ in range(3)]
        case = self.expr(1).replace(qs[0], "")
        kinds = rng.choice([["true", "false"], ["false", "true"], ["true"], ["false"], ["true", "false"], ["false", "true"]])
        for j, kname in enumerate(kinds):
            atts.append("%s=%s%s%s" % (kname, qs[j + 1], self.inline_piece(qs[j + 1]), qs[j + 1]))
        sep = rng.choice([" ", " ", "  "])
        eq = rng.choice(["=", "=", " = ", "= "])
        return "{if%scase%s%s%s%s%s%s%s}" % (sep, eq, qs[0], case, qs[0], sep, sep.join(atts), self.sp())

    def svar(self):
        rng = self.rng
        ph, _ = self.path(lambda d: d is not None and d[0] == "s") if rng.random() < 0.85 else self.path()
        subs = []
        for _ in range(rng.choice([0, 1, 2, 2, 2, 3, 3, 4, 4, 10, 11])):
            r = rng.random()
            subs.append(self.var() if r < 0.45 else self.raw() if (r < 0.7 or self.nomath) else self.math())
        sep = rng.choice([", ", ",", " , "])
        return "{svar:%s%s}" % (ph, "".join(sep + s for s in subs))

    def loop(self, depth):
        rng = self.rng
        q = rng.choice(["\"", "'"])
        atts = []
        rep = None
        r = rng.random()
        if r < 0.8:
            p, d = self.path(self.is_container) if rng.random() < 0.85 else self.path()
            atts.append("set=%s%s%s" % (q, p, q))
            cont = d
        else:
            cont = self.root if self.is_container(self.root) else None
        size = 3
        if self.is_container(cont):
            ch = [d for _, d in children(cont) if d[0] != "u"]
            rep = rng.choice(ch) if ch else None
            size = max(1, len(children(cont)))
        if self.mult * size > 48:
            # keep the total number of iterations small (both sides are linear in it)
            return self.var()
        name = None
        if rng.random() < 0.9:
            self.nv += 1
            name = rng.choice(["v%d" % self.nv, "v%d" % self.nv, "item%d" % self.nv, "a", "x", "val-%d" % self.nv, "v"])
            atts.append("value=%s%s%s" % (q, name, q))
        if self.g3:
            if rng.random() < 0.5:
                atts.append("sort=%s%s%s" % (q, rng.choice(["ascend", "descend", "a", "", "x"]), q))
            if rng.random() < 0.4:
                atts.append("group=%s%s%s" % (q, rng.choice(["k", "p", "a", "0", "zz", ""]), q))
        elif rng.random() < 0.12:
            # group= is compared too: the driver's groupBy is the GroupBy model (Qentem.Value.groupByTmpl)
            atts.append("group=%s%s%s" % (q, rng.choice(["k", "p", "a", "0", "zz", ""]), q))
        rng.shuffle(atts)
        head = "<loop" + "".join(rng.choice([" ", " ", "  ", "\n"]) + a for a in atts) + self.sp() + ">"
        if name is not None:
            self.scope.append((name, rep))
        self.mult *= size
        body = self.body(depth - 1, inner=True)
        self.mult //= size
        if name is not None:
            self.scope.pop()
        return head + body + "</loop>"

    def ift(self, depth):
        rng = self.rng
        q = rng.choice(["\"", "'"])
        out = "<if%scase=%s%s%s%s>" % (rng.choice([" ", "  "]), q, self.expr(1).replace(q, ""), q, self.sp())
        out += self.body(depth - 1, inner=True)
        for _ in range(rng.choice([0, 0, 1, 1, 2])):
            q = rng.choice(["\"", "'"])
            kw = rng.choice(["<elseif", "<else if"])
            out += "%s case=%s%s%s%s" % (kw, q, self.expr(1).replace(q, ""), q, rng.choice([" />", ">", "/>", " >"]))
            out += self.body(depth - 1, inner=True)
        if rng.random() < 0.5:
            out += rng.choice(["<else />", "<else>", "<else/>"]) + self.body(depth - 1, inner=True)
        return out + "</if>"

    def body(self, depth, inner=False):
        rng = self.rng
        n = rng.choice([1, 1, 2, 2, 3]) if inner else rng.choice([1, 2, 2, 3, 4])
        out = self.text()
        for _ in range(n):
            r = rng.random()
            if self.nomath and (0.32 <= r < 0.44 or 0.54 <= r < 0.66 or r >= 0.84):
                r = 0.1
            if r < 0.22:
                out += self.var()
            elif r < 0.32:
                out += self.raw()
            elif r < 0.44:
                out += self.math()
            elif r < 0.54:
                out += self.svar()
            elif r < 0.66:
                out += self.iif()
            elif r < 0.84 and depth > 0:
                out += self.loop(depth)
            elif depth > 0:
                out += self.ift(depth)
            else:
                out += self.var()
            out += self.text()
        return out

    def template(self):
        self.scope = []
        self.nv = 0
        self.mult = 1
        return self.body(3)


# ------------------------------------------------------------------------------------------------
# G2: malformed templates

DELIMS = "{}<>\"'=[]/:"
FRAGMENTS = ["{var:", "{raw:", "{math:", "{svar:", "{if", "<loop", "</loop>", "<if", "</if>", "<else", "<elseif", "}", ">",
             "case=\"", "true=\"", "false=\"", "value=\"", "set=\"", "\"", "'", "a", "1", "[", "]", ",", " ", "+", "(", ")"]
FRAGMENTS_G3 = FRAGMENTS + ["sort=\"", "group=\"", "ascend", "descend", "/", "%", "^", ".", "0", "e", "-"]


def mutate_delim(rng, t):
    pos = [i for i, c in enumerate(t) if c in DELIMS]
    if not pos:
        return t + rng.choice(DELIMS)
    i = rng.choice(pos)
    r = rng.random()
    if r < 0.3:
        return t[:i] + t[i + 1:]
    if r < 0.55:
        return t[:i] + t[i] + t[i:]
    if r < 0.75 and i + 1 < len(t):
        return t[:i] + t[i + 1] + t[i] + t[i + 2:]
    if r < 0.9:
        return t[:i] + rng.choice(DELIMS) + t[i + 1:]
    return t[:i] + rng.choice(DELIMS) + t[i:]


def soup(rng, frags):
    return "".join(rng.choice(frags) for _ in range(rng.randrange(2, 26)))


def special_templates(rng, thorough):
    """hand-made families around index arithmetic and field widths; (template, doc-or-None)"""
    out = []
    names = ["a]", "[0]", "a[", "a[]", "a[0]x", "a[0][", "a[0]]", "a[[0]]", "]", "[", "[]", "a][", "a[0][1]]", "a]]", "o[p", "o[p]]",
             "o]p[", "l[1", "l[1]", "l[1]]", "l[1][", "v]", "v[", "v[]", "v[0]", "v[0]]", "v[k]", "v]k[", "vv", "v[", "a[0]a[1]", "[a]", "[[", "a[0] "]
    for nm in names:
        for pat in ("{var:%s}", "{raw:%s}", "{math:{var:%s}+1}", "{math:{var:%s}}", "{svar:%s, {var:a}}", "{svar:ph, {var:%s}}",
                    "{if case=\"{var:%s}\" true=\"T\" false=\"F\"}", "{if case=\"1\" true=\"{var:%s}\" false=\"{raw:%s}\"}",
                    "<if case=\"{var:%s}\">T<else />F</if>", "<loop set=\"%s\" value=\"w\">{var:w}</loop>"):
            out.append((pat.replace("%s", nm), None))
        for pat in ("<loop value=\"v\">{var:%s}</loop>", "<loop set=\"l\" value=\"v\">{var:%s}{raw:%s}</loop>",
                    "<loop set=\"o\" value=\"v\">{math:{var:%s}}</loop>", "<loop set=\"l2\" value=\"v\"><loop set=\"%s\" value=\"w\">{var:w}</loop></loop>",
                    "<loop value=\"%s\">{var:%s}</loop>"):
            out.append((pat.replace("%s", nm), None))
    # nesting 9+ (parent_storage starts with capacity 8; Level is 8 bits)
    for depth in ([9, 10, 12, 17] if not thorough else [9, 10, 12, 17, 33, 70, 130, 256, 257, 300]):
        opens = "".join("<loop set=\"%s\" value=\"v%d\">" % ("l" if i == 0 else "v%d" % (i - 1), i) for i in range(depth))
        # one iteration per level: the work of both sides is the product of the set sizes
        one = ("a", [("n", 1)])
        nested = ("n", 7)
        for _ in range(depth):
            nested = ("a", [nested])
        chain = ("o", [(U("l"), nested)])
        out.append((opens + "{var:v%d}" % (depth - 1) + "</loop>" * depth, chain))
        out.append((opens + "{var:v%d}" % (depth - 1) + "</loop>" * (depth - 1), chain))
        out.append((opens + "{var:v0}", chain))
        out.append(("<loop value=\"v\">" * depth + "{var:v}" + "</loop>" * depth, one))
        out.append(("<loop value=\"v\">" * depth + "{var:v}" + "</loop>" * (depth - 1), one))
        out.append(("<if case=\"1\">" * depth + "x{var:a}" + "</if>" * depth, None))
        out.append(("<if case=\"1\">" * depth + "x" + "</if>" * (depth // 2), None))
        out.append(("".join("<if case=\"1\"><loop value=\"v%d\">" % i for i in range(depth)) + "{var:v%d}" % (depth - 1) + "</loop></if>" * depth, one))
        out.append(("".join("<if case=\"0\">a<else />" for i in range(depth)) + "{var:a}" + "</if>" * depth, None))
        out.append(("{svar:ph, " * depth + "{var:a}" + "}" * depth, None))
        out.append(("{math:" * depth + "1" + "}" * depth, None))
        out.append(("{math:" + "(" * depth + "1+{var:n}" + ")" * depth + "}", None))
        out.append(("{math:" + "(" * depth + "1", None))
        out.append(("{math:" + "{var:" * depth + "n" + "}" * depth + "}", None))
        q = ["\"", "'"]
        t = "Z"
        for i in range(depth):
            t = "{if case=%s1%s true=%s%s%s}" % (q[i % 2], q[i % 2], q[i % 2], t, q[i % 2])
        out.append((t, None))
        out.append(("{if case=\"1\" true=\"" * depth + "x" + "\"}" * depth, None))
        out.append(("{if case=\"" * depth + "1" + "\"}" * depth, None))
    # names around the 8-bit field of the variable length / value length
    for L in (254, 255, 256, 257, 300, 511, 512, 513, 767, 768):
        nm = "n" * L
        doc = ("o", [(U(nm), ("n", 7)), (U(nm[:L & 0xFF]) if (L > 255 and (L & 0xFF) > 1) else U("q"), ("n", 8)), (U("n"), ("n", 9)), (U("l"), ("a", [("n", 1), ("n", 2)]))])
        for pat in ("{var:%s}", "{raw:%s}", "x{var:%s}y{var:n}", "{math:{var:%s}+1}", "{svar:%s, {var:n}}", "{svar:n, {var:%s}}",
                    "<loop set=\"%s\" value=\"v\">{var:v}</loop>", "<loop set=\"l\" value=\"%s\">[{var:%s}]</loop>",
                    "<loop set=\"l\" value=\"%s\">[{var:n}]</loop>", "{if case=\"{var:%s}\" true=\"{var:%s}\" false=\"N\"}",
                    "<if case=\"{var:%s}\">{var:%s}</if>", "{var:%s[0]}", "{var:l[%s]}", "<loop set=\"l\" value=\"v\">{var:v[%s]}</loop>"):
            out.append((pat.replace("%s", nm), doc))
    # attribute offsets beyond 8 bits (and, in the `huge` stream, 16 bits)
    for pad in (240, 250, 255, 256, 257, 300, 600):
        sp = " " * pad
        doc = ("o", [(U("l"), ("a", [("n", 1), ("n", 2)])), (U("n"), ("n", 3))])
        out.append(("<loop%svalue=\"v\">{var:v}</loop>" % sp, ("a", [("n", 1), ("n", 2)])))
        out.append(("<loop set=\"l\"%svalue=\"v\">{var:v},</loop>" % sp, doc))
        out.append(("<loop value=\"v\"%sset=\"l\">{var:v},</loop>" % sp, doc))
        out.append(("<loop set=\"l\" value=\"v\"%s>{var:v},</loop>" % sp, doc))
        out.append(("{if%scase=\"1\" true=\"T{var:n}\" false=\"F\"}" % sp, doc))
        out.append(("{if case=\"1\"%strue=\"T{var:n}\" false=\"F\"}" % sp, doc))
        out.append(("{if case=\"0\" true=\"T\"%sfalse=\"F{var:n}\"}" % sp, doc))
        out.append(("{if case=\"1\" true=\"%s{var:n}\" false=\"F\"}" % sp, doc))
        out.append(("<if case=\"1\"%s>{var:n}</if>" % sp, doc))
        out.append(("{math:%s1+{var:n}}" % sp, doc))
        out.append(("{svar:n%s, {var:n}}" % sp, doc))
    # closers without openers, openers whose `>` is borrowed, interleavings
    for t in ["</loop>", "</if>", "<else />", "<elseif case=\"1\" />", "}", "x<loop</loop>", "<loop><if case=\"1\"></loop>", "<if case=\"1\"><loop></if></loop>",
              "<loop value=\"v\"><if case=\"1\">{var:v}</loop></if>", "<if case=\"1\"><else<else>", "<if case=\"1\"><else", "<if case=\"1\"><else i", "<if case=\"1\"><else if",
              "<if case=\"1\"><else if case=\"", "<if case=\"1\"><else if case=\"1\"", "<if case=\"1\"><elseif case=\"1\"", "<if", "<if ", "<if case", "<if case=", "<if case=\"",
              "<if case=\"1", "<if case=\"1\"", "<if case=\"1\">", "<if case=\"\">x</if>", "<if case=''>x<else />y</if>", "<if>x</if>", "<if >x</if>",
              "<if case=\"1\">a<else if>b</if>", "<if case=\"1\">a<elseif>b</if>", "<if case=\"0\">a<else if case=\"\">b</if>", "<if case=\"0\">a<elseif />b<else />c</if>",
              "{svar:x, <loop value=\"v\">}", "{svar:ph, <if case=\"1\">}", "{svar:ph, {if case=\"1\" true=\"a\"}}", "{svar:ph, {svar:ph, {var:a}}}", "{svar:ph}", "{svar:}", "{svar:,}",
              "{svar:,{var:a}}", "{svar:ph,{var:a}", "{svar:ph,{var:a}</loop>}", "{if case=\"1\" true=\"<loop value='v'>{var:v}</loop>\"}", "{if case=\"1\" true=\"<if case='1'>x</if>\"}",
              "{if case=\"1\" true=\"{svar:ph, {var:a}}\" false=\"x\"}", "{if case=\"1\" true=\"a}b\" false=\"c\"}", "{if case=\"1\" true=\"a\" false=\"b}c\"}", "{if case=\"1}\" true=\"a\"}",
              "{if case=\"1\" true=\"{var:a}\" false=\"{var:b}\" true=\"{var:c}\"}", "{if case=\"{var:n}\" false=\"{var:a}\" false=\"{var:b}\"}", "{if case=\"1\"}", "{if case=\"1\" }",
              "{if case=\"1\" true=}", "{if case=\"1\" true=\"}", "{if case=\"1\" true=\"a}", "{if case=\"1\" true}", "{if case=\"1\" t}", "{if case=\"1\" f}", "{if case=\"1\" true =  \"a\"   false   =\"b\"}",
              "{if case=}", "{if case= }", "{if case=\"}", "{if case}", "{if }", "{if}", "{if case=\"1\" true=\"a\" false=\"b\"", "{if case=\"1\" true=\"{var:a\" false=\"b\"}",
              "{if case=\"1\" true=\"{math:1+1\" false=\"b\"}", "{if case=\"0\" true=\"a\" false=\"{raw:b\"}", "{var:}", "{raw:}", "{math:}", "{var:", "{raw:", "{math:", "{svar:", "{if",
              "{var:a", "{var:a{var:b}}", "{var:{var:a}}", "{math:{var:a}", "{math:{raw:a}}", "{math:{math:1}}", "{math:1}}", "{math:{", "{math:}}", "abc{math:<else", "{math:<loop", "{math:</if>",
              "{math:{var:}", "{math:{var:}}", "{math:1+{var:n}+}", "{math:()}", "{math:(}", "{math:)}", "{math:1+}", "{math:+}", "{math:1 1}", "{math:==}", "{math:1==}", "{math:&&}",
              "<loop", "<loop ", "<loop>", "<loop></loop>", "<loop >x</loop>", "<loop value>x</loop>", "<loop value=>x</loop>", "<loop value=\">x</loop>", "<loop value=\"\">x</loop>",
              "<loop set=\"\" value=\"\">{var:}</loop>", "<loop value=\"v\"", "<loop value=\"v\">", "<loop value=\"v\">{var:v}", "<loop value=\"v\">{var:v}</loop", "<loop value=\"v\">{var:v}</loo",
              "<loop s v g>x</loop>", "<loop set value>x</loop>", "<loop set= value= >x</loop>", "<loop set='l\" value=\"v'>{var:v}</loop>", "<loop set=l value=v>{var:v}</loop>",
              "<loop value=\"v\"set=\"l\">{var:v}</loop>", "<loop  set = \"l\"  value = \"v\" >{var:v}</loop>", "<loop set=\"l\" set=\"o\" value=\"v\" value=\"w\">{var:v}{var:w}</loop>",
              "<loop value=\"v\"><loop value=\"v\">{var:v}</loop>{var:v}</loop>{var:v}", "<loop set=\"l2\" value=\"v\"><loop set=\"v\" value=\"vv\">{var:vv}{var:v}</loop></loop>",
              "<loop set=\"l2\" value=\"vv\"><loop set=\"vv\" value=\"v\">{var:vv}{var:v}</loop></loop>", "<loop value=\"v\">{var:v}</loop><loop value=\"w\">{var:v}{var:w}</loop>",
              "<loop set=\"l\" value=\"v\">{if case=\"{var:v}\" true=\"{var:v}\" false=\"-\"}</loop>", "<loop set=\"l\" value=\"v\">{svar:ph, {var:v}, {var:v}}</loop>",
              "<loop set=\"o\" value=\"v\">{var:v}={var:v[k]};</loop>", "<loop set=\"eo\" value=\"v\">x</loop>", "<loop set=\"e\" value=\"v\">x</loop>", "<loop set=\"u\" value=\"v\">x</loop>",
              "<loop set=\"n\" value=\"v\">x</loop>", "<loop set=\"b\" value=\"v\">x</loop>", "<loop set=\"zz\" value=\"v\">x</loop>"]:
        out.append((t, None))
    return out


def widen(rng, units, w):
    """mix a few units beyond 8 bits into a template for the wide builds"""
    if not units:
        return [0x100 + 123]
    u = list(units)
    top = 0xFFFF if w == "2" else 0x7FFFFFFF if w == "W" else 0xFFFFFFFF
    for _ in range(rng.choice([1, 1, 2, 3])):
        i = rng.randrange(len(u))
        r = rng.random()
        if r < 0.35:
            u[i] = (u[i] + 0x100) & top
        elif r < 0.5:
            u[i] = (u[i] + 0x10000) & top
        elif r < 0.65:
            u.insert(i, rng.choice([0x100 + 123, 0x100 + 60, 0x10000 + 60, 0x3A + 0xFF00, 0x5D + 0x100, 0x20AC, 0xD800, 0xFFFF, top, 0x80, 0xFF, 0x7D00 + 0x7D]) & top)
        elif r < 0.8:
            u[i] = rng.randrange(0x80, top + 1)
        else:
            u.insert(i, rng.randrange(0x100, top + 1))
    return u


# ------------------------------------------------------------------------------------------------
# running both sides

def line_units(line):
    t = line.split(" ")[-1]
    return [] if t == "-" else [int(x) for x in t.split(",")]


def mk_line(op, w, doc, units):
    if op == "tpltags":
        return "tpltags %s %s" % (w, core.show_units(units))
    return "%s %s %s %s" % (op, w, doc, core.show_units(units))


def run_both(exe, drv, lines, jobs=12, timeout=None):
    """C++ and model concurrently; returns (impl, faults, model)"""
    res = {}
    if timeout is None:
        # per batch (= one chunk of len/jobs lines): generous for the model (about 3 ms per line), still a hang detector
        timeout = 300 + int(0.03 * len(lines) / jobs)

    def a():
        res["impl"] = core.run_lines_parallel(exe, lines, jobs=jobs, timeout_per_batch=timeout, on_fault=note_full_stderr)

    def b():
        res["model"] = core.run_lines_parallel(drv, lines, jobs=jobs, env=None, timeout_per_batch=timeout)
    ta, tb = threading.Thread(target=a), threading.Thread(target=b)
    ta.start(); tb.start(); ta.join(); tb.join()
    impl, faults = res["impl"]
    model, _ = res["model"]
    return impl, faults, model


def locate_leaks(exe, lines, faults):
    """LeakSanitizer reports at exit, so the fault index is the last line of a chunk: bisect."""
    out = []
    for i, kind, err in faults:
        if not kind.startswith("lsan"):
            out.append((i, kind, err))
            continue
        # the chunk that ended at i: walk back while the harness still leaks
        lo = max(0, i - 20000)
        cand = list(range(lo, i + 1))
        while len(cand) > 1:
            half = cand[:len(cand) // 2]
            _, f = core.run_lines(exe, [lines[j] for j in half], timeout_per_batch=300)
            if any(k.startswith("lsan") for _, k, _ in f):
                cand = half
            else:
                cand = cand[len(cand) // 2:]
        _, f = core.run_lines(exe, [lines[cand[0]]], timeout_per_batch=60)
        if any(k.startswith("lsan") for _, k, _ in f):
            out.append((cand[0], kind, f[0][2]))
        else:
            out.append((i, kind, err))
    return out


def model_faults(out):
    return out.startswith("F") and not out.startswith("FAULT")


_FRAME = re.compile(r"TemplateCore<[^()]*?>::(\w+)\(")
_SUMMARY = re.compile(r"SUMMARY: \w+: \S+ (\S+?):\d+(?::\d+)? in ([^\n]*)")


def _func_name(sig):
    """`Qentem::TemplateCore<char, ...>::evaluate(Qentem::QExpression&, ...) const` -> evaluate"""
    sig = sig.split("(")[0]
    while True:
        t = re.sub(r"<[^<>]*>", "", sig)
        if t == sig:
            break
        sig = t
    return sig.strip().split("::")[-1].strip()
FULL_STDERR = {}      # tail of a sanitizer report (what core.run_lines keeps) -> key computed from the full report


def fault_key(kind, err):
    """stable key of a fault class: sanitizer kind without operand values, the function of the
    SUMMARY line and the innermost TemplateCore functions of the faulting stack"""
    k = kind
    if k.startswith("ubsan:"):
        # "signed_integer_overflow:_-4_+_-92..." / "negation_of_-92.._cannot_be.." -> without operands
        k = "ubsan:" + re.split(r"[:_]+-?\d", k[6:])[0].strip("_:")
    err = err or ""
    if err in FULL_STDERR:
        return FULL_STDERR[err]
    where = ""
    m = _SUMMARY.search(err)
    if m:
        where = os.path.basename(m.group(1)) + ":" + _func_name(m.group(2))
    # only the faulting stack (the report goes on with the allocation stack)
    cut = min([x for x in (err.find("is located"), err.find("allocated by"), err.find("SUMMARY")) if x >= 0] or [len(err)])
    fr = []
    for m in _FRAME.finditer(err[:cut]):
        if m.group(1) not in fr:
            fr.append(m.group(1))
        if len(fr) == 2:
            break
    return k + ("@" + where if where else "") + ("@" + "<".join(fr) if fr else "")


def note_full_stderr(i, kind, se):
    FULL_STDERR[se[-4000:]] = fault_key(kind, se)


def differs(kind, impl, model):
    if kind == "fault":
        return impl.startswith("FAULT")
    return (not impl.startswith("FAULT")) and impl != model


def minimise(exe, drv, line, kind, budget=40, family=None, seconds=45):
    """ddmin on the template units, then greedy simplification of the value tree; `kind` is
    'fault' (the real code faults) or 'diff' (outputs differ).  Returns the minimal line."""
    tok = line.split(" ")
    op, w = tok[0], tok[1]
    doc = tok[2] if op != "tpltags" else None
    units = line_units(line)

    def run1(l):
        keys = []
        o, _ = core.run_lines(exe, [l], timeout_per_batch=30, on_fault=lambda i, k, se: keys.append(fault_key(k, se)))
        return o[0], (keys[0] if keys else None)

    def test(cands_units, cands_doc):
        ls = [mk_line(op, w, d, u) for u, d in zip(cands_units, cands_doc)]
        if not ls:
            return []
        with ThreadPoolExecutor(max_workers=12) as ex:
            res1 = list(ex.map(run1, ls))
        impl = [r[0] for r in res1]
        if kind == "fault":
            return [o.startswith("FAULT") and (family is None or k == family) for o, k in res1]
        model, _ = core.run_lines(drv, ls, env=None, timeout_per_batch=120)
        return [differs(kind, i, m) for i, m in zip(impl, model)]

    n = 2
    rounds = 0
    t_end = time.time() + seconds
    while len(units) >= 2 and rounds < budget and time.time() < t_end:
        rounds += 1
        size = (len(units) + n - 1) // n
        starts = list(range(0, len(units), size))
        cands = [units[:i] + units[i + size:] for i in starts]
        res = test(cands, [doc] * len(cands))
        hits = [i for i, r in zip(starts, res) if r]
        if hits:
            # try to drop every individually removable chunk at once, else only the first
            if len(hits) > 1:
                drop = set(j for i in hits for j in range(i, i + size))
                allgone = [x for j, x in enumerate(units) if j not in drop]
                if test([allgone], [doc])[0]:
                    units = allgone
                    n = 2
                    continue
            units = units[:hits[0]] + units[hits[0] + size:]
            n = max(n - 1, 2)
        elif size == 1:
            break
        else:
            n = min(len(units), n * 2)
    if doc is not None:
        for _ in range(12):
            if time.time() > t_end:
                break
            tree, _ = dec(doc.split(","))
            cands = []

            def shrink(d):
                """all one-step simplifications of d"""
                k = d[0]
                res = []
                if k in ("a", "o"):
                    xs = d[1]
                    for i in range(len(xs)):
                        res.append((k, xs[:i] + xs[i + 1:]))
                    for i in range(len(xs)):
                        sub = xs[i] if k == "a" else xs[i][1]
                        for s2 in shrink(sub):
                            res.append((k, xs[:i] + [s2 if k == "a" else (xs[i][0], s2)] + xs[i + 1:]))
                    if k == "o":
                        for i in range(len(xs)):
                            if len(xs[i][0]) > 1:
                                res.append((k, xs[:i] + [(xs[i][0][:1], xs[i][1])] + xs[i + 1:]))
                    res.append(("n", 1))
                elif k == "s":
                    if d[1]:
                        res.append(("s", d[1][1:]))
                        res.append(("s", d[1][:-1]))
                    res.append(("n", 1))
                elif k in ("n", "i") and d[1] not in (0, 1):
                    res.append(("n", 1))
                return res
            cands = [enc(c) for c in shrink(tree)][:200]
            res = test([units] * len(cands), cands)
            hit = next((c for c, r in zip(cands, res) if r), None)
            if hit is None:
                break
            doc = hit
    return mk_line(op, w, doc, units)


def describe(line):
    tok = line.split(" ")
    return "%s w=%s %s template=%r" % (tok[0], tok[1], tok[2] if tok[0] != "tpltags" else "", S(line_units(line)))


# ------------------------------------------------------------------------------------------------

# ---- block tags nested 7..13 deep (Level = number of enclosing block tags): loops at the 8/9 boundary ----
_DEEPVARS = ["Xa", "Xb", "Xc", "Xd"]


def deep_template(rng):
    depth = rng.choice([7, 8, 8, 9, 9, 9, 10, 10, 11, 12, 13])
    n_outer = rng.randrange(2, 4)
    outer = ("a", [("n", rng.randrange(0, 30)) for _ in range(n_outer)]) if rng.random() < 0.6 else \
        ("o", [(U(k), ("n", rng.randrange(0, 30))) for k in rng.sample(["p", "q", "k", "d"], n_outer)])
    inner = ("a", [("s", U(rng.choice(["x", "y", "<z>", "w"]))) for _ in range(rng.randrange(1, 4))])
    doc = ("o", [(U("l"), outer), (U("m"), inner), (U("n"), ("n", rng.randrange(1, 9)))])
    mid = ["I"] * (depth - 2)
    for pos in rng.sample(range(depth - 2), rng.randrange(0, 3)):
        mid[pos] = "L"
    kinds = ["L"] + mid + ["L"]
    names, j = [], 0
    for k in kinds:
        names.append(_DEEPVARS[j] if k == "L" else None)
        j += (k == "L")
    used = [v for v in names if v]

    def build(i):
        if i == len(kinds):
            return "[" + "".join("{var:%s}" % v for v in used) + "]"
        body = build(i + 1) + ("{var:%s};" % names[0] if rng.random() < 0.7 else "")
        if kinds[i] == "L":
            st = "l" if i == 0 else ("m" if i == len(kinds) - 1 or rng.random() < 0.5 else "l")
            return '<loop set="%s" value="%s">%s</loop>' % (st, names[i], body)
        return '<if case="%s">%s</if>' % (rng.choice(["1", "{var:n}", "2 > 1", "{var:%s} >= 0" % names[0]]), body)
    return build(0), doc


# ---- super-variable phrases with `{u}`, u a non-digit unit whose low byte is 0x30..0x39 ----
_WIDE16 = [0x0130, 0x0131, 0x0430, 0x0431, 0x0433, 0x0439, 0x0630, 0x0633, 0x0639, 0x3030, 0x3031, 0xFF30, 0xFF35]
_WIDE32 = [0x10030, 0x10031, 0x1F630, 0x10FF39]


def wide_phrase_item(rng, w):
    pool = _WIDE16 + (_WIDE32 if w in ("4", "W") else [])
    phrase = []
    for _ in range(rng.randrange(1, 4)):
        x = rng.random()
        if x < 0.6:
            phrase += [123, rng.choice(pool), 125]
        elif x < 0.8:
            phrase += [123, 48 + rng.randrange(0, 6), 125]
        else:
            phrase += [rng.choice(pool), rng.choice([97, 32, 123, 125])]
    nargs = rng.randrange(4, 10)
    doc = ("o", [(U("ph"), ("s", phrase)), (U("a"), ("n", 7)), (U("b"), ("s", U("B")))])
    t = "{svar:ph" + "".join(", " + rng.choice(["{var:a}", "{raw:b}", "{math:1+1}"]) for _ in range(nargs)) + "}"
    return (w, enc(doc), U(t))


def gen_streams(ctx):
    """returns {stream: [(w, doc string, units)]} for the compared streams and the C++-only ones"""
    rng = ctx.rng
    th = ctx.thorough
    N1 = 4500 if not th else 12000
    well, mal, g3, tagtree = [], [], [], []
    base = []          # (template string, doc) of G1
    root = None
    for i in range(N1):
        if i % 3 == 0:
            root = gen_root(rng)
        t = TG(rng, root).template()
        base.append((t, root))
        well.append(("1", enc(root), U(t)))
    # printing of 64-bit extremes ({var:}/{raw:}/{svar:}/loops only: signed overflow in an
    # expression is undefined behaviour in the C++ and wraps in the model)
    for i in range(N1 // 12):
        if i % 3 == 0:
            root = gen_root(rng, big=True)
        well.append(("1", enc(root), U(TG(rng, root, nomath=True).template())))
    for _ in range(400 if not th else 3000):
        t, d = deep_template(rng)
        well.append(("1", enc(d), U(t)))
        base.append((t, d))
    # a few templates against every kind of root
    for t, _ in base[:60]:
        for d in (("u",), ("z",), ("t",), ("n", 5), ("i", -5), ("s", U("x{0}")), ("a", []), ("o", []), ("a", [("u",)]), ("o", [(U("a"), ("u",))])):
            well.append(("1", enc(d), U(t)))

    # ---- malformed ----
    def m(t, d):
        mal.append(("1", enc(d), U(t)))
    for k, (t, d) in enumerate(base):
        if (th and k % 20 == 0) or (not th and k % 25 == 0):
            offs = range(len(t)) if th else sorted(rng.sample(range(len(t)), min(len(t), 36)))
            for o in offs:
                m(t[:o], d)
        for _ in range(2 if not th else 4):
            m(mutate_delim(rng, t), d)
        if k % 2 == 0 or th:
            t2, _ = rng.choice(base)
            m(t[:rng.randrange(len(t) + 1)] + t2[rng.randrange(len(t2) + 1):], d)
        if k % 4 == 0:
            x = mutate_delim(rng, mutate_delim(rng, t))
            m(x[:rng.randrange(len(x) + 1)], d)
    root = gen_root(rng, few=True)
    for _ in range(9000 if not th else 50000):
        if rng.random() < 0.1:
            root = gen_root(rng, few=True)
        m(soup(rng, FRAGMENTS), root)
    dflt = ("o", [(U("a"), ("n", 5)), (U("a]"), ("n", 6)), (U("b"), ("s", U("<b>"))), (U("n"), ("n", 3)), (U("ph"), ("s", U("{0}-{1}"))),
                  (U("o"), ("o", [(U("p"), ("n", 1)), (U("k"), ("s", U("K")))])), (U("l"), ("a", [("n", 1), ("s", U("two")), ("a", [("n", 3)]), ("o", [(U("k"), ("n", 4))])])),
                  (U("l2"), ("a", [("a", [("n", 1), ("n", 2)]), ("a", [("n", 3)])])), (U("e"), ("a", [])), (U("eo"), ("o", [])), (U("u"), ("u",)), (U("v"), ("n", 9)),
                  (U("[0]"), ("n", 7)), (U("]"), ("n", 8))])
    arr = ("a", [("n", 1), ("a", [("n", 2), ("n", 3)]), ("o", [(U("k"), ("n", 4))]), ("u",), ("s", U("&"))])
    arr3 = ("a", [("o", [(U("k"), ("n", 4)), (U("a"), ("s", U("<")))]), ("n", 2), ("a", [("n", 3)])])
    for t, d in special_templates(rng, th):
        m(t, d if d is not None else dflt)
        if d is None:
            m(t, arr)
    # ---- G3 (C++ only) ----
    few = gen_root(rng, big=True, few=True)
    for i in range(1200 if not th else 6000):
        if i % 3 == 0:
            root = gen_root(rng, big=True)
            few = gen_root(rng, big=True, few=True)
        t = TG(rng, root, g3=True).template()
        g3.append(("1", enc(root), U(t)))
        g3.append(("1", enc(root), U(mutate_delim(rng, t))))
        g3.append(("1", enc(root), U(t[:rng.randrange(len(t) + 1)])))
        if i % 2 == 0:
            g3.append(("1", enc(few), U(soup(rng, FRAGMENTS_G3))))
            g3.append(("1", enc(arr3), U(soup(rng, FRAGMENTS_G3))))
    for t in ["{math:1/0}", "{math:1%0}", "{math:0/0}", "{math:-9223372036854775808%-1}", "{math:{var:m}%0}", "{math:5%{var:z}}", "{math:2^-1}", "{math:0^-1}", "{math:2^64}", "{math:2^1024}",
              "{math:1.5}", "{math:1e308*10}", "{math:9223372036854775807+1}", "{math:18446744073709551615+1}", "{math:18446744073709551615*18446744073709551615}", "{math:0-9223372036854775808}",
              "<loop set=\"l\" value=\"v\" sort=\"ascend\">{var:v}</loop>", "<loop set=\"l\" value=\"v\" sort=\"descend\">{var:v}</loop>", "<loop set=\"o\" value=\"v\" sort=\"ascend\">{var:v}</loop>",
              "<loop set=\"l\" value=\"v\" group=\"k\">{var:v}</loop>", "<loop set=\"l\" value=\"v\" group=\"k\" sort=\"descend\"><loop set=\"v\" value=\"w\">{var:w[k]}</loop></loop>",
              "<loop value=\"v\" sort=\"\">{var:v}</loop>", "<loop value=\"v\" sort=\"", "<loop value=\"v\" sort=>x</loop>", "<loop value=\"v\" group=\"\">{var:v}</loop>", "<loop sort=\"a\" group=\"k\"></loop>"]:
        g3.append(("1", enc(dflt), U(t)))
        g3.append(("1", enc(arr), U(t)))
        g3.append(("1", enc(("a", [("o", [(U("k"), ("n", 2)), (U("x"), ("n", 1))]), ("o", [(U("k"), ("n", 1))]), ("o", [(U("k"), ("s", U("z")))]), ("o", [(U("j"), ("n", 1))]), ("n", 1)])), U(t)))

    # ---- widths ----
    def wide(src, step):
        out = []
        for k, (w1, d, u) in enumerate(src):
            if k % step == 0:
                for w in ("2", "4", "W"):
                    mask = 0xFFFF if w == "2" else 0x7FFFFFFF if w == "W" else 0xFFFFFFFF
                    tree, _ = dec(d.split(","))
                    if rng.random() < 0.3:
                        tree = mask_doc(widen_doc(rng, tree, w), mask)
                    uu = widen(rng, u, w) if rng.random() < 0.8 else u
                    out.append((w, enc(tree), [x & mask for x in uu]))
        return out
    well_w = wide(well, 5 if not th else 1)
    for _ in range(600 if not th else 4000):
        well_w.append(wide_phrase_item(rng, rng.choice("24W")))
    mal_w = wide(mal, 5 if not th else 4)
    g3_w = wide(g3, 5 if not th else 3)
    # negative wchar_t units (>= 0x80000000) are outside the generated domain; two probes on the real
    # code only: `content[index] - '0'` in renderSuperVariable overflows a signed wchar_t
    for ph in ([123, 0x80000000, 125], [123, 0x8000002F, 125, 123, 0xFFFFFFFF, 125]):
        g3_w.append(("W", enc(("o", [(U("ph"), ("s", ph)), (U("n"), ("n", 3))])), U("{svar:ph, {var:n}}")))
    # ---- tag trees (width 1 and a few wide) ----
    tg = [(w, None, u) for (w, _, u) in (well[::3] + mal[::4])] if not th else [(w, None, u) for (w, _, u) in (well + mal[::3])]
    tg += [(w, None, u) for (w, _, u) in (well_w[::9] + mal_w[::9])]
    # ---- huge offsets (>= 65536): few lines, slow on the model side ----
    huge = []
    for pad in ([65536, 65600] if not th else [65535, 65536, 65537, 65600, 70000, 131072 + 20]):
        sp = " " * pad
        huge.append(("1", enc(arr), U("<loop%svalue=\"v\">{var:v}</loop>" % sp)))
        huge.append(("1", enc(dflt), U("{if case=\"1\"%strue=\"T{var:n}\" false=\"F\"}{var:a}" % sp)))
        if th or pad == 65536:
            # FalseOffset is a 16-bit field: the value range moves away from its {var:n}
            huge.append(("1", enc(dflt), U("{if case=\"0\" true=\"T\"%sfalse=\"F{var:n}\"}" % sp)))
        if th:
            huge.append(("1", enc(dflt), U("<loop set=\"l\" value=\"v\">%s{var:v}</loop>{var:a}" % sp)))
            huge.append(("4", enc(dflt), U("x" * pad + "{var:a}<loop set=\"l\" value=\"v\">{var:v}</loop>")))
    return {"wellformed": well, "malformed": mal, "wellformed-wide": well_w, "malformed-wide": mal_w, "g3": g3 + g3_w, "tagtree": tg, "huge": huge}


def widen_doc(rng, doc, w):
    k = doc[0]
    if k == "s":
        return ("s", widen(rng, doc[1], w)) if rng.random() < 0.5 else doc
    if k == "a":
        return ("a", [widen_doc(rng, d, w) for d in doc[1]])
    if k == "o":
        # keys stay distinct: only values are widened
        return ("o", [(key, widen_doc(rng, d, w)) for key, d in doc[1]])
    return doc


def to_lines(op, items):
    return [mk_line(op, w, d, u) for (w, d, u) in items]


def read_corpus():
    lines = []
    if os.path.isdir(CORPUS):
        for fn in sorted(os.listdir(CORPUS)):
            if fn.endswith(".txt"):
                for ln in open(os.path.join(CORPUS, fn)):
                    ln = ln.rstrip("\n")
                    if ln and not ln.startswith("#"):
                        lines.append(ln)
    return lines


def nontrivial(line):
    u = line.split(" ")[-1].split(",")
    return "123" in u or "60" in u


def compare(ctx, exe, drv, streams, minimise_max=int(os.environ.get("C01_MINIMISE", "3"))):
    """streams: [(name, lines, compared?)].  All lines are shuffled into one batch so that the
    parallel chunks are balanced; results are split per stream again."""
    rng = ctx.rng
    allx = [(si, li) for si, (_, ls, _) in enumerate(streams) for li in range(len(ls))]
    rng.shuffle(allx)
    flat = [streams[si][1][li] for si, li in allx]
    t0 = time.time()
    impl, faults, model = run_both(exe, drv, flat)
    core.log("  [c01] %d lines on both sides: %.1fs" % (len(flat), time.time() - t0))
    faults = locate_leaks(exe, flat, faults)
    # ---- faults of the real code: C01 failures ----
    by_key = {}
    for i, kind, err in faults:
        name = streams[allx[i][0]][0]
        key = fault_key(kind, err)
        by_key.setdefault(key, []).append(i)
        ctx.fail("fault:" + key, "fault (%s) of the real code in stream %s on %s" % (kind, name, describe(flat[i])[:600]),
                 {"line": flat[i], "stderr": err, "stream": name, "model": model[i][:200]})
    nmin = 0
    for key, idx in sorted(by_key.items()):
        i = min(idx, key=lambda j: len(flat[j]))
        msg = "FAULT %s: %d inputs (model faults too on %d of them)" % (key, len(idx), sum(1 for j in idx if model_faults(model[j])))
        if not (key.startswith("lsan") or key.startswith("timeout")) and nmin < minimise_max:
            nmin += 1
            try:
                ml = minimise(exe, drv, flat[i], "fault", family=key)
                o, f = core.run_lines(exe, [ml], timeout_per_batch=60, on_fault=note_full_stderr)
                m1, _ = core.run_lines(drv, [ml], env=None, timeout_per_batch=120)
                msg += "; minimal: %s :: %s :: model=%s" % (describe(ml), ml, m1[0][:200])
                if f:
                    ctx.fail("fault:" + fault_key(f[0][1], f[0][2]), "minimised fault (%s) of the real code on %s" % (f[0][1], describe(ml)),
                             {"line": ml, "stderr": f[0][2], "minimised_from": flat[i], "model": m1[0][:200]})
            except Exception as e:  # minimisation is best effort
                msg += "; minimisation failed: %r" % (e,)
        ctx.notes.append(msg)
        core.log("  " + msg[:1500])
    core.log("  [c01] faults classified/minimised: %.1fs" % (time.time() - t0))
    # ---- per stream ----
    per = {}
    for k, (si, li) in enumerate(allx):
        per.setdefault(si, []).append(k)
    for si, (name, ls, compared) in enumerate(streams):
        idx = per.get(si, [])
        if not compared:
            nf = sum(1 for k in idx if impl[k].startswith("FAULT"))
            ctx.count(name + "(faults only)", len(idx), len(set(flat[k] for k in idx if nontrivial(flat[k]))),
                      sample={"stream": name, "input": flat[idx[0]][:300], "impl": impl[idx[0]][:300]} if idx else None)
            ctx.notes.append("stream %s: %d lines on the real code only, %d faults" % (name, len(idx), nf))
            continue
        keep = []
        gaps = {}
        both = 0
        for k in idx:
            if impl[k].startswith("FAULT") and model_faults(model[k]):
                both += 1          # reported through ctx.fail; the model agrees that the input is unsafe
                continue
            if impl[k] != model[k] and not impl[k].startswith("FAULT"):
                u = line_units(flat[k])
                g = next((gname for gname, pred in KNOWN_MODEL_GAPS if pred(flat[k], u, impl[k], model[k])), None)
                if g is not None:
                    gaps[g] = gaps.get(g, 0) + 1
                    continue
            keep.append(k)
        for g, c in sorted(gaps.items()):
            ctx.notes.append("stream %s: %d disagreements skipped as known model gap '%s'" % (name, c, g))
        if both:
            ctx.notes.append("stream %s: %d inputs fault on the real code AND in the model (checked semantics)" % (name, both))
        bad = ctx.correspond(name, [flat[k] for k in keep], [impl[k] for k in keep], [model[k] for k in keep], nontrivial=nontrivial)
        bad = [keep[b] for b in bad if not impl[keep[b]].startswith("FAULT")]
        # minimise a few (shortest first, distinct first tokens of the outputs)
        bad.sort(key=lambda k: len(flat[k]))
        done = 0
        for k in bad:
            if done >= minimise_max:
                break
            try:
                ml = minimise(exe, drv, flat[k], "diff")
                i1, _ = core.run_lines(exe, [ml], timeout_per_batch=60)
                m1, _ = core.run_lines(drv, [ml], env=None, timeout_per_batch=120)
                msg = "DISAGREEMENT[%s] minimal: %s :: %s :: impl=%s (%r) model=%s (%r)" % (
                    name, describe(ml), ml, i1[0][:400], S(line_units(i1[0])) if i1[0].startswith("R ") else "", m1[0][:400], S(line_units(m1[0])) if m1[0].startswith("R ") else "")
                ctx.notes.append(msg)
                core.log("  " + msg[:1500])
            except Exception as e:
                ctx.notes.append("minimisation failed on %s: %r" % (flat[k][:200], e))
            done += 1
    return impl, model, flat


def run(ctx):
    ctx.gen_constants(["Expr", "Tmpl", "Escape"])
    if os.path.exists(os.path.join(core.LEAN_DIR, "Qentem", "Props", "C01.lean")):
        ctx.prove(["Qentem.Props.C01"], THEOREMS, OPEN_STATEMENTS)
    drv = ctx.build_driver()
    # own tag: build_cpp deletes other binaries of the same harness+tag (C02/C17 build the same source;
    # a scratch QENTEM_REPO must not evict the binary of a concurrent run on /repo)
    import hashlib
    exe = ctx.build_harness("template_harness.cpp", tag="c01" + hashlib.sha256(core.REPO.encode()).hexdigest()[:6])
    if not (drv and exe):
        return
    # ---- replay of a recorded failure ----
    if getattr(ctx, "replay", None) and os.path.exists(ctx.replay):
        js = json.load(open(ctx.replay))
        lines = [f["replay"]["line"] for f in js.get("failures", []) if "line" in f.get("replay", {})]
        lines += [e["input"] for b in js.get("broken_correspondence", []) for e in b.get("examples", [])]
        compare(ctx, exe, drv, [("replay", lines, True)])
        return
    # ---- corpus first ----
    corpus = read_corpus()
    streams = [("corpus", corpus, True)]
    t0 = time.time()
    gen = gen_streams(ctx)
    core.log("  [c01] generated %d cases: %.1fs" % (sum(len(v) for v in gen.values()), time.time() - t0))
    huge_lines = to_lines("tplrender", gen["huge"])
    huge_res = {}

    def run_huge():
        with ThreadPoolExecutor(max_workers=len(huge_lines) or 1) as ex:
            huge_res["impl"] = list(ex.map(lambda l: core.run_lines(exe, [l], timeout_per_batch=600), huge_lines))
            huge_res["model"] = list(ex.map(lambda l: core.run_lines(drv, [l], env=None, timeout_per_batch=900), huge_lines))
    ht = threading.Thread(target=run_huge)
    ht.start()
    for name in ("wellformed", "malformed", "wellformed-wide", "malformed-wide"):
        streams.append((name, to_lines("tplrender", gen[name]), True))
    streams.append(("tail-echo", to_lines("tplrender", T.c01_tail_echo(ctx)), True))   # unresolved {var:n&me} ending the buffer (round c)
    nf = T.c01_narrow_fields(ctx, drv)                 # every 8/16-bit tag field at limit-1 / limit / limit+1 (round g)
    streams.append(("narrow-fields", to_lines("tplrender", nf["compared"]) + to_lines("tpltags", nf["tags"]), True))
    T.c01_narrow_big(ctx, exe, nf["faults-only"])
    streams.append(("tagtree", to_lines("tpltags", gen["tagtree"]), True))
    streams.append(("g3", to_lines("tplrender", gen["g3"]), False))
    # the cache entry point (C17 uses the verdict; here only faults count)
    cache_src = (gen["wellformed"][::7] + gen["malformed"][::9] + gen["malformed-wide"][::11])
    cache_lines = to_lines("tplcache", cache_src)
    streams.append(("cache", cache_lines, False))
    impl, model, flat = compare(ctx, exe, drv, streams)
    # scalar / SSE2 / AVX2 builds: the same lines (malformed and truncated ones included), same answers, no fault
    step = 6 if not ctx.thorough else 2
    core.simd_builds(ctx, "template_harness.cpp", flat[::step], impl[::step], "template parse+render", tag="c01")
    ndiff = sum(1 for l, o in zip(flat, impl) if l.startswith("tplcache") and o.startswith("C diff"))
    ctx.notes.append("tplcache: %d lines, %d 'C diff' (reported under C17, not a C01 failure)" % (len(cache_lines), ndiff))
    # ---- the open statement ParseWF, evaluated: `wf` (Model/Tmpl/WF.lean) of what the model's parse returns,
    # on every distinct width-1 template of the compared streams.  `render_safe_of_wf` (proved) then
    # covers the rendering of each of them for every value.
    seen, wf_lines = set(), []
    for l in flat:
        t = l.split(" ")
        if t[0] == "tplrender" and t[1] == "1" and t[3] not in seen:
            seen.add(t[3])
            wf_lines.append("tplwf 1 " + t[3])
    wf_out, _ = core.run_lines_parallel(drv, wf_lines, jobs=12, env=None)
    not_wf = [l for l, o in zip(wf_lines, wf_out) if o != "W 1"]
    ctx.count("parse-wf-evaluated", len(wf_lines), len(wf_lines),
              sample={"stream": "parse-wf", "input": wf_lines[0][:200] if wf_lines else "", "model": wf_out[0] if wf_out else ""})
    ctx.notes.append("ParseWF evaluated on %d distinct templates: %d not well-formed or faulting in the model" % (len(wf_lines), len(not_wf)))
    if not_wf:
        ctx.corr_broken.append({"stream": "parse-wf (open statement ParseWF has a counterexample in the model)", "count": len(not_wf),
                                "examples": [{"input": l[:2000], "impl": "", "model": o} for l, o in list(zip(wf_lines, wf_out)) if o != "W 1"][:5]})
    ht.join()
    h_impl = [r[0][0] for r in huge_res["impl"]]
    h_model = [r[0][0] for r in huge_res["model"]]
    for l, r in zip(huge_lines, huge_res["impl"]):
        for _, kind, err in r[1]:
            ctx.fail("fault:" + fault_key(kind, err), "fault (%s) of the real code on a template with a >= 65536-unit attribute offset (%d units)" % (kind, len(line_units(l))),
                     {"line": l[:300] + "...", "stderr": err, "stream": "huge"})
    hk = [j for j in range(len(huge_lines)) if not (h_impl[j].startswith("FAULT") and model_faults(h_model[j]))]
    if len(hk) < len(huge_lines):
        ctx.notes.append("stream huge: %d inputs fault on the real code AND in the model (checked semantics)" % (len(huge_lines) - len(hk)))
    ctx.correspond("huge", [huge_lines[j][:120] + "...(%d units)" % len(line_units(huge_lines[j])) for j in hk], [h_impl[j] for j in hk], [h_model[j] for j in hk])
    ctx.assumptions += [
        "code units modelled as Nat; the four widths are exercised by the harness, units are masked to the width by the generator",
        "compared domain: integer-valued math, group= (GroupBy model of C18), no sort= (run on the real code only, stream g3)",
        "recursion depth of parse/render (stack exhaustion) and allocation failure are not exhibited (nesting <= 17 quick / 300 thorough)",
    ]


FINISH = dict(level="proof",
              rule="every 6th (quick) / 2nd (thorough) line repeated in SSE2 and AVX2 builds of the harness; grammar-generated templates (all seven tag kinds, nesting <= 3, both quote kinds and attribute orders) x value trees of all kinds; malformed: truncation at sampled (quick) / every (thorough) offset, delete/duplicate/swap/replace one delimiter, splices, fragment soup, bracket/index edge names, nesting 9..17 (..300 thorough), names of 254..768 units, attribute padding 240..600 and >= 65536; every line in width 1, every 5th (quick) / all (thorough) in widths 2, 4, wchar_t with units beyond 8 bits; narrow-fields: the round-g boundary templates (tplrender + tag dump against the model, which truncates with the generated widths; >= 20k units on the real code only in the quick tier) with truncated variants; tail-echo: unresolved {var:NAME} with & / partial entities in NAME ending the exact-size buffer, four widths; tag trees compared textually; non-trivial = the template contains '{' or '<'",
              checker_cmd="cd lean && lake build Qentem.Props.C01 && lake env lean <#print axioms of the listed theorems>")
