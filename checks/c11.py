"""C11 — every finite double survives format(17 digits) then parse bit-for-bit; every float survives 9."""
import os
from vlib import core
from checks import _numtostr as N

META = {
    "property_id": "C11",
    "technique": "Lean 4 theorems roundtrip17 / roundtrip9 (formatter model ∘ parser model = identity on bit patterns, every finite double / float) + correspondence of both models with the real code; round trip executed on the real code (NumberToString(17|9) then StringToNumber, bits in = bits out) over boundary sets and uniform bit patterns, all 2^32 floats in the thorough tier; the formatter half is cross-checked against the Lean model and an exact-rational reference reading (IEEE 754 round-half-even of the decimal value); Lean theorems: the formatter half in full (17/9-digit text = reference text for every bit pattern; 17/9 correctly rounded digits identify the value), the decomposition, integers below 2^53 through the real parser model, and the whole round trip through the real parser model for doubles (roundtrip17) and floats (roundtrip9)",
    "level": "proof",
    "design_ref": "DESIGN.md §6 C11, notes/design-numtostr.md",
    "text": "Proved (kernel-checked): the formatter half in full (identifies17 / identifies9: no fault, text = reference %.17g / %.9g text, which read exactly and rounded to nearest-even is the original bits), and for DOUBLES the whole property through the real parser model: roundtrip17 : RoundTrip17 parseDouble - for every finite double NumberToString(17) raises no fault and StringToNumber plus the callers' conversion returns the original bits (parsesExactly17: shape and 1/32-ulp margin of every %.17g text - shape17_format, marginText_format, text17_format - and the parser-side theorem parse_exact17 of the StrToNum area, which covers every mantissa: analytic error bound above a width threshold, a kernel-evaluated table of 16 996 (mantissa, exponent) pairs below it). Three numerals, 1e-273, 1e-286, 1e-292, are parsed one ulp low although 0.04-0.07 ulp from the tie (within C09's one-ulp bound); they are not %.17g outputs (exc_bits: the nearest doubles print as 1.0000000000000001e-273, ...). For FLOATS likewise: roundtrip9 : RoundTrip9 (parseDouble then float(double)) - every %.9g text is a Text17 (shape9_format), the parser is within one double ulp of the correctly rounded double on every such text for every mantissa (parse_close17), which is below 1/64 float ulp (close_value, parsesClose9), and that suffices (roundtrip9_of_close). Nothing of the statement is left open; what is trusted is the correspondence of the two Lean models with the C++ (tested) and the callers' conversions (double(integer), float(double)) taken as IEEE round-to-nearest-even. The executed round trip is the second line: quick = boundary sets (powers of two and ten +-2 ulp, every binade, subnormals, short mantissas, short decimals) and 200k uniform doubles under ASan/UBSan plus 3.2M uniform doubles and 16M floats unsanitized; thorough = 24M doubles and all 2^32 float bit patterns (exhaustive, unsanitized -O2 build).",
    "note": "The theorems are about the NumberToString and StringToNumber models (tied to the code by the C09/C10 correspondence streams run here too); the sweep on the real code is testing and labelled so. Trusted: the harness, g++/libc for nothing but memcpy of bits; the Lean reference reading (FmtSpec.readBits) is used only to attribute a failure to the formatter or the parser half. The exhaustive float sweep runs on a non-sanitized -O2 build of the same headers.",
}

THEOREMS = [
    "Qentem.Props.C11.roundtrip17_of_halves",
    "Qentem.Props.C11.roundtrip9_of_halves",
    "Qentem.Props.C11.identifies17_zero",
    "Qentem.Props.C11.identifies9_zero",
    "Qentem.Props.C11.roundtrip_small_int",
    "Qentem.Props.C11.roundtrip17_integers_parser",
    "Qentem.Props.C11.roundtrip17_of_gap",
    "Qentem.Props.C11.format17_is_reference",
    "Qentem.Props.C11.format9_is_reference",
    "Qentem.Props.C11.identifies17_of_spec",
    "Qentem.Props.C11.identifies9_of_spec",
    "Qentem.Props.C11.roundtrip17_reduced",
    "Qentem.Props.C11.roundtrip9_reduced",
    "Qentem.Props.C11.spec_identifies17",
    "Qentem.Props.C11.spec_identifies9",
    "Qentem.Props.C11.identifies17",
    "Qentem.Props.C11.identifies9",
    "Qentem.Props.C11.roundtrip17_of_parser",
    "Qentem.Props.C11.roundtrip9_of_parser",
    "Qentem.Props.C11.text_margin17",
    "Qentem.Props.C11.text_margin9",
    "Qentem.Props.C11.exc_bits",
    "Qentem.Props.C11.text17_format",
    "Qentem.Props.C11.parsesExactly17",
    "Qentem.Props.C11.roundtrip17",
    "Qentem.Props.C11.roundtrip9_of_close",
    "Qentem.Props.C11.parsesClose9",
    "Qentem.Props.C11.roundtrip9",
    "Qentem.Props.C11.identifies_boundary_instances",
]
OPEN = [
]


def run(ctx):
    ctx.gen_constants(["NumToStr"])
    ctx.prove(["Qentem.Props.C11", "Qentem.Props.C11Closed"], THEOREMS, open_statements=OPEN)
    drv = ctx.build_driver()
    exe = ctx.build_harness("numtostr_harness.cpp")
    fast = ctx.build_harness("numtostr_harness.cpp", flags=core.FAST_FLAGS, tag="fast")
    if not (drv and exe and fast):
        return
    rng = ctx.rng
    lines = list(N.corpus_lines("C11"))
    if getattr(ctx, "replay", None):
        import json
        try:
            for f in json.load(open(ctx.replay)).get("failures", []):
                ln = f.get("replay", {}).get("line")
                if ln:
                    lines.insert(0, ln)
        except Exception as e:
            ctx.infra_errors.append("cannot read replay %s: %s" % (ctx.replay, e))
    dist = {}
    for g, vals in N.double_values(rng, ctx.thorough):
        fin = [b for b in vals if N.finite_d(b)]
        dist["d:" + g] = len(fin)
        lines += ["n2srt d %016x" % b for b in fin]
    # doubles nearest to short decimal numerals m·10^e (their 17-digit text is often short again, which sends
    # the parser down its small-mantissa / small-exponent paths): every e in -40..40, mantissas of 1-7 digits
    import struct
    sd = []
    for e in range(-40, 41):
        for m in ([1, 2, 3, 5, 7, 9, 14, 25, 99, 123, 1234567] + [rng.randrange(1, 10 ** rng.randrange(1, 8)) for _ in range(40 if ctx.thorough else 12)]):
            sd.append(struct.unpack("<Q", struct.pack("<d", float("%de%d" % (m, e))))[0])
            sd.append(struct.unpack("<Q", struct.pack("<d", float("%d.%de%d" % (m, rng.randrange(0, 1000), e))))[0])
    dist["d:short-decimals-all-exponents"] = len(sd)
    lines += ["n2srt d %016x" % b for b in sd if N.finite_d(b)]
    extra = 1000000 if ctx.thorough else 185000
    lines += ["n2srt d %016x" % b for b in (rng.getrandbits(64) for _ in range(extra)) if N.finite_d(b)]
    dist["d:uniform-extra"] = extra
    for g, vals in N.float_values(rng, ctx.thorough):
        fin = [b for b in vals if N.finite_f(b)]
        dist["f:" + g] = len(fin)
        lines += ["n2srt f %08x" % b for b in fin]
    lines = N._dedupe(lines)
    impl, faults = N.run_guarded(ctx, exe, lines, "roundtrip")
    for i, kind, err in faults:
        ln = lines[i] if i is not None else "(stream abandoned)"
        ctx.fail("fault:" + kind, "sanitizer fault in the round trip on " + ln, {"line": ln, "stderr": err[-3000:]})
    if impl is None:
        return
    bad = []
    for l, o in zip(lines, impl):
        if o.startswith("FAULT"):
            continue
        t = o.split(" ")
        if t[1] != l.split(" ")[2]:
            bad.append((l, o))
    ctx.count("roundtrip(line protocol, ASan/UBSan)", len(lines), len(lines),
              sample={"input": lines[len(lines) // 2], "impl": impl[len(lines) // 2][:200]})
    # attribute failures: is the text's exact reading the original bits (formatter fine, parser wrong) or not
    if bad:
        rl = ["n2sread %s %s" % (l.split(" ")[1], o.split(" ")[2]) for l, o in bad]
        rd, _ = core.run_lines(drv, rl, env=None)
        for (l, o), r in zip(bad, rd):
            t = o.split(" ")
            half = "parser" if r == l.split(" ")[2] else "formatter"
            ctx.fail("roundtrip:" + half, "%s -> text '%s' -> %s %s (exact reading of the text gives %s)" % (l, N.text(t[2]), t[0], t[1], r),
                     {"line": l, "text": N.text(t[2]), "bits_out": t[1], "reference_reading": r})
    # formatter half against the model and the reference reading, on a subsample (Lean side)
    sub = lines[:len(N.corpus_lines("C11"))] + rng.sample(lines, min(len(lines), 40000 if ctx.thorough else 6000))
    model, _ = core.run_lines_parallel(drv, sub, jobs=14, env=None)
    pos = {l: i for i, l in enumerate(lines)}
    impl_text = [impl[pos[l]].split(" ")[2] if not impl[pos[l]].startswith("FAULT") else impl[pos[l]] for l in sub]
    model_text = [m.split(" ")[1] if " " in m and not m.startswith("FAULT") else m for m in model]
    ctx.correspond("format17/9 text: C++ vs model", sub, impl_text, model_text)
    n_id = 0
    for l, m in zip(sub, model):
        if m.startswith("FAULT"):
            continue
        if m.split(" ")[0] != l.split(" ")[2]:
            n_id += 1
            ctx.fail("roundtrip:formatter", "the exact reading of the model's %s-digit text of %s is %s" % ("17" if " d " in l else "9", l, m.split(" ")[0]),
                     {"line": l, "model": m})
    ctx.count("formatter half by exact reading (Lean reference)", len(sub), len(set(sub)))

    # ---- bulk, unsanitized: uniform doubles; floats exhaustive in the thorough tier -------------
    per = 1500000 if ctx.thorough else 200000
    sets = [("--rt-doubles", ctx.seed * 7919 + k, per) for k in range(16)]
    if ctx.thorough:
        step = (1 << 32) // 64
        sets += [("--rt-floats", k * step, (k + 1) * step) for k in range(64)]
    else:
        # 16 windows of 2^20 consecutive float patterns at seeded offsets
        for k in range(16):
            lo = rng.randrange(0, (1 << 32) - (1 << 20))
            sets.append(("--rt-floats", lo, lo + (1 << 20)))
    tested = {"--rt-doubles": 0, "--rt-floats": 0}
    for a, rc, out in N.run_bulk(fast, sets, timeout=3000 if ctx.thorough else 400):
        done = [l for l in out.split("\n") if l.startswith("done")]
        if rc != 0 or not done:
            ctx.infra_errors.append("bulk round-trip run %s failed rc=%s: %s" % (a, rc, out[-500:]))
            continue
        for l in out.split("\n"):
            if l.startswith("fail "):
                t = l.split(" ")
                ctx.fail("roundtrip:bulk", "round trip changes the bits: " + l, {"line": "n2srt %s %s" % (t[1], t[2]), "detail": l})
        tested[a[0]] += int(done[0].split("tested=")[1].split(" ")[0])
    ctx.count("roundtrip doubles (uniform, -O2 unsanitized)", tested["--rt-doubles"], tested["--rt-doubles"])
    ctx.count("roundtrip floats (%s, -O2 unsanitized)" % ("all 2^32 bit patterns" if ctx.thorough else "16 windows of 2^20 patterns"),
              tested["--rt-floats"], tested["--rt-floats"])
    ctx.cov["value_distribution"] = dist
    ctx.assumptions += ["a parsed Natural/Integer result is converted to double as the library's Value/JSON layers do; a float is obtained by (float)double"]
    ctx.notes += ["level: exploration - proved: formatter half (identifies17/9) and the whole round trip through the real parser model for doubles (roundtrip17) and floats (roundtrip9); the executed round trips test the model correspondence"]


FINISH = dict(level="proof",
              rule="bits in = bits out through the real NumberToString(17|9) and StringToNumber: specials, every power of two and ten (+-ulps), every binade, subnormals, short mantissas, short decimals, uniform bit patterns; thorough: 24M uniform doubles and all 2^32 floats",
              checker_cmd="cd lean && lake build Qentem.Props.C11 && lake env lean <#print axioms of the listed theorems>")
