"""C02 — rendering a well-formed template yields the documented expansion.

Reference = lean/Qentem/Model/Tmpl/Spec.lean (`expand`, written from Documentation/Template.md) run by
the driver op `tplspec` on a generated template TREE; the driver also prints the tree (`printTpl`); the
printed text goes to the real `Template::Render` (harness/template_harness.cpp) on an exact-size buffer.
"""
import os
from vlib import core
from checks import _tmpl_streams as T

META = {
    "property_id": "C02",
    "technique": "Lean reference interpreter of Documentation/Template.md (Tpl, printTpl, expand) evaluated on generated template trees x value trees; kernel-checked theorems for tag-free text, the finder, the expression semantics used by {math:}/case (C04 evaluate_eq_tree) and rendering safety of well-formed tag trees",
    "level": "proof",
    "design_ref": "DESIGN.md §6 C02, notes/design-tmpl.md",
    "text": "For generated well-formed templates (text, var, raw, math, super variable, inline if, if/elseif/else chains, nested loops over arrays and objects) and value trees the text appended by the real renderer equals the documented expansion computed by the Lean reference interpreter. Proved in Lean (parse + render of the printed template = expand, for every value, number reader, formatter and escape switch): render_parse_print_loops / render_parse_print_wf — trees of segment runs (text, {var:}, {raw:}, {math:} over literals and {var:path} operands), inline {if case= true= false=} tags (either value optional), super variables {svar:path, a1..an} (1..10 var/raw/math arguments; {i} replacement in the phrase, escaping of the literal stretches), <if>/<elseif>/<else /> chains and <loop [set=S] value=V> loops nested in any order to any depth (loop variables in var/raw/math/case operands, super variable arguments and inner set= paths, shadowing; arrays, objects, anything else; undefined members), i.e. every node kind of the template grammar of the model, under the side conditions of the statement (ok / pathV / caseV: the semantic conditions are that a path starting with an enclosing loop's value name is that loop's variable, that a super variable's path does not start with such a name, and that the units of the strings in the value are below 2^32). render_parse_print_instance discharges every hypothesis on a concrete template and value (loop over the root, super variable with a loop variable and an expression as arguments) and has the kernel evaluate the reference expansion. Earlier stages (text, segments, block trees, one top-level loop) are special cases kept as separate theorems. Outside the proved class: sort=/group= attributes (C15/C18), real-number formatting (C10) and templates that break the side conditions; those are decided per run by this check.",
    "note": "Side conditions of well-formed templates are explicit in the generator (names free of delimiters, loop value names not a prefix of any other name, attribute texts free of their quote, integers only: real formatting is C10, sort/group are C15/C18).",
}

THEOREMS = ["Qentem.Props.C02.render_parse_print_text", "Qentem.Props.C02.parse_segs", "Qentem.Props.C02.render_parse_print_segs", "Qentem.Props.C02.getValue_eq_resolve", "Qentem.Props.C02.scan_eval_relocatable", "Qentem.Props.C02.render_parse_print_blocks", "Qentem.Props.C02.render_parse_print_tree", "Qentem.Props.C02.render_parse_print_loop_partial", "Qentem.Props.C02.render_parse_print_loops", "Qentem.Props.C02.render_parse_print_wf", "Qentem.Props.C02.render_parse_print_instance", "Qentem.Props.C02.expandList_text", "Qentem.Props.C01.render_text", "Qentem.Props.C01.parse_text", "Qentem.Props.C01.finder_safe_total",
            "Qentem.Props.C01.render_safe_of_wf", "Qentem.Props.C04.evaluate_eq_tree",
            "Qentem.Props.C03.escape_no_raw_special"]
OPEN = ["Qentem.Props.C02.RenderParsePrint: the statement with an unspecified WellFormed (statement only). Proved for the explicit class WellFormedT (all node kinds) as render_parse_print_wf; not proved: that every template of the generator of this check lies in WellFormedT, and the group= stream (C18); decided per run by this check"]


def U(s):
    return [ord(c) for c in s]


def dots(u):
    return ".".join(str(x) for x in u)


def enc(doc):
    k = doc[0]
    if k in "uztf":
        return k
    if k in "ni":
        return "%s%d" % (k, doc[1])
    if k == "s":
        return "s" + dots(doc[1])
    if k == "p":
        return "p," + enc(doc[1])
    if k == "a":
        return ",".join(["a%d" % len(doc[1])] + [enc(d) for d in doc[1]])
    return ",".join(["o%d" % len(doc[1])] + ["k" + dots(key) + "," + enc(d) for key, d in doc[1]])


HTML = "<>&\"'"
PHRASES = ["{0}", "Hi {0} and {1}!", "{1}{0}", "a{0", "{0}{0}", "{9}", "<{2}>", "{3} & {0}", "plain", "", "{x}", "{12}", "}{0}{"]
KEYS = ["a", "b", "c", "n", "m", "s", "o", "l", "ph", "num", "p", "q", "k", "d"]
LOOPVARS = ["X1", "X2", "X3"]


class Gen:
    def __init__(self, rng):
        self.rng = rng

    # ---- values
    def string(self):
        r = self.rng
        x = r.random()
        if x < 0.35:
            return U("".join(r.choice(HTML + "ab xy") for _ in range(r.randrange(0, 7))))
        if x < 0.6:
            return U(r.choice(PHRASES))
        if x < 0.8:
            return U(r.choice(["0", "1", "7", "12", "-3", "abc", "true", "&amp;", "&lt"]))
        return U("".join(chr(r.randrange(33, 127)) for _ in range(r.randrange(1, 6))))

    def scalar(self):
        r = self.rng
        x = r.random()
        if x < 0.3:
            return ("n", r.randrange(0, 30))
        if x < 0.42:
            return ("i", r.randrange(-20, 21))
        if x < 0.75:
            return ("s", self.string())
        return (r.choice("tfz"),)

    def tree(self, depth):
        r = self.rng
        if depth <= 0 or r.random() < 0.5:
            return self.scalar()
        if r.random() < 0.5:
            return ("a", [self.tree(depth - 1) for _ in range(r.randrange(0, 4))])
        keys = r.sample(KEYS, r.randrange(0, 4))
        return ("o", [(U(k), self.tree(depth - 1) if r.random() < 0.9 else ("u",)) for k in keys])

    def root(self):
        r = self.rng
        ms = [("a", self.scalar()), ("b", ("s", self.string())), ("n", ("n", r.randrange(0, 12))),
              ("m", ("i", r.randrange(-9, 10))), ("s", ("s", self.string())), ("ph", ("s", U(r.choice(PHRASES)))),
              ("num", ("s", U(r.choice(["3", "12", "0", "-4"])))),
              ("o", ("o", [(U("p"), self.scalar()), (U("q"), self.scalar()), (U("k"), self.tree(2))][:r.randrange(1, 4)])),
              ("l", ("a", [self.tree(2) for _ in range(r.randrange(0, 4))])),
              ("d", ("a", [("o", [(U("k"), self.scalar()), (U("p"), self.scalar())]) for _ in range(r.randrange(0, 3))]))]
        ms = [(U(k), v) for k, v in ms if r.random() < 0.9]
        r.shuffle(ms)
        return ("o", ms)

    # ---- templates (token code of lean/Qentem/Driver/Tmpl.lean, op tplspec)
    def text(self, attr=False):
        r = self.rng
        pool = "abc xyz.,:;-!&>'" if not attr else "abc xyz.,:;-!&>"
        return "".join(r.choice(pool) for _ in range(r.randrange(0, 6)))

    def path(self, scope):
        r = self.rng
        x = r.random()
        if scope and x < 0.5:
            v = r.choice(scope)
            return v + r.choice(["", "", "[k]", "[p]", "[0]", "[1]", "[k][p]"])
        return r.choice(["a", "b", "n", "m", "s", "num", "o[p]", "o[q]", "o[k]", "l[0]", "l[1]", "l[2]", "d[0][k]", "d[1][p]",
                         "zz", "o[zz]", "l", "o", "a[0]", "ph"])

    def expr(self, scope, depth=2):
        r = self.rng
        if depth <= 0 or r.random() < 0.4:
            x = r.random()
            if x < 0.5:
                return str(r.randrange(0, 12))
            if x < 0.9:
                return "{var:%s}" % r.choice(["n", "m", "a", "num", "o[p]"] + [v for v in scope])
            return "(%s)" % self.expr(scope, max(depth - 1, 1))
        op = r.choice(["+", "-", "*", "==", "!=", "<", ">", "<=", ">=", "&&", "||"])
        sp = r.choice(["", " "])
        return self.expr(scope, depth - 1) + sp + op + sp + self.expr(scope, depth - 1)

    def case(self, scope):
        r = self.rng
        x = r.random()
        if x < 0.7:
            return self.expr(scope)
        if x < 0.8:
            return "{var:%s}" % r.choice(["s", "b", "a", "zz"])
        if x < 0.9:
            return "{var:%s} == %s" % (r.choice(["s", "b", "num"]), r.choice(["abc", "12", "3", "true"]))
        return r.choice(["1", "0", "2 > 1", "1 / 0", "5 % 0"])

    def inline(self, scope):
        r = self.rng
        x = r.random()
        if x < 0.45:
            return "v" + dots(U(self.path(scope)))
        if x < 0.65:
            return "r" + dots(U(self.path(scope)))
        return "m" + dots(U(self.expr(scope)))

    def part(self, scope):
        r = self.rng
        n = r.randrange(0, 4)
        toks = []
        for _ in range(n):
            toks.append("x" + dots(U(self.text(attr=True))) if r.random() < 0.5 else self.inline(scope))
        return toks

    def node(self, scope, depth):
        r = self.rng
        x = r.random()
        if x < 0.22:
            return ["x" + dots(U(self.text()))]
        if x < 0.5:
            return [self.inline(scope)]
        if x < 0.58:
            args = [self.inline(scope) for _ in range(r.randrange(1, 4))]
            return ["s%s:%d" % (dots(U(r.choice(["ph", "b", "s", "a", "zz"]))), len(args))] + args
        if x < 0.70:
            t = self.part(scope) if r.random() < 0.8 else None
            f = self.part(scope) if (r.random() < 0.6 or t is None) else None
            return ["q%s:%s:%s" % (dots(U(self.case(scope))), len(t) if t is not None else "-", len(f) if f is not None else "-")] + \
                (t or []) + (f or [])
        if depth <= 0:
            return ["x" + dots(U(self.text()))]
        if x < 0.85:
            nb = r.randrange(1, 4)
            toks = []
            cnt = 0
            for i in range(nb):
                body = self.nodes(scope, depth - 1)
                if i == nb - 1 and nb > 1 and r.random() < 0.6:
                    toks += ["e", "b%d" % len(body[0])] + body[1]
                else:
                    toks += ["c" + dots(U(self.case(scope))), "b%d" % len(body[0])] + body[1]
                cnt += 1
            return ["i%d" % cnt] + toks
        var = LOOPVARS[len(scope)] if len(scope) < len(LOOPVARS) else None
        if var is None:
            return ["x" + dots(U(self.text()))]
        if scope and r.random() < 0.6:
            st = r.choice(scope) + r.choice(["", "[k]", "[0]"])
        else:
            st = r.choice(["l", "o", "d", "l[0]", "o[k]", "zz", "a", ""])
        body = self.nodes(scope + [var], depth - 1)
        return ["l%s:%s:%d" % (dots(U(st)), dots(U(var)), len(body[0]))] + body[1]

    def nodes(self, scope, depth):
        n = self.rng.randrange(1, 5)
        tops, toks = [], []
        for _ in range(n):
            t = self.node(scope, depth)
            tops.append(t)
            toks += t
        return tops, toks


DEEPVARS = ["Xa", "Xb", "Xc", "Xd", "Xe", "Xf", "Xg", "Xh", "Xi", "Xj", "Xk", "Xm", "Xn", "Xo"]
# units whose LOW BYTE is an ASCII digit (0x30..0x39) but which are not digits
WIDE_DIGITS_16 = [0x0130, 0x0131, 0x0430, 0x0431, 0x0433, 0x0439, 0x0630, 0x0633, 0x0639, 0x3030, 0x3031, 0xFF30, 0xFF35]
WIDE_DIGITS_32 = [0x10030, 0x10031, 0x1F630, 0x10FF39]


def deep_case(rng, depth=None):
    """block tags nested `depth` deep (loops and ifs mixed; Level = number of enclosing block tags):
    an outer loop with >= 2 items, an inner loop whose Level is depth - 1 (the 8/9 boundary of a
    pre-sized loop-item array is inside 6..13), outer variables used inside and AFTER the inner loop."""
    depth = depth or rng.choice([7, 8, 8, 9, 9, 9, 10, 10, 11, 12, 13])
    n_outer = rng.randrange(2, 4)
    outer = ("a", [("n", rng.randrange(0, 30)) for _ in range(n_outer)]) if rng.random() < 0.6 else \
        ("o", [(U(k), ("n", rng.randrange(0, 30))) for k in rng.sample(["p", "q", "k", "d"], n_outer)])
    inner = ("a", [("s", U(rng.choice(["x", "y", "<z>", "w"]))) for _ in range(rng.randrange(1, 4))])
    doc = ("o", [(U("l"), outer), (U("m"), inner), (U("n"), ("n", rng.randrange(1, 9)))])
    # positions of the loops among the `depth` block tags: the first and the last are loops, others random
    mid = ["I"] * (depth - 2)
    for pos in rng.sample(range(depth - 2), rng.randrange(0, 3)):   # at most 4 loops: the work is a product
        mid[pos] = "L"
    kinds = ["L"] + mid + ["L"]
    vars_, j = [], 0
    for k in kinds:
        vars_.append(DEEPVARS[j] if k == "L" else None)
        j += (k == "L")
    def build(i):
        if i == len(kinds):
            used = [v for v in vars_ if v]
            return ["x" + dots(U("["))] + ["v" + dots(U(v)) for v in used] + ["x" + dots(U("]"))]
        body = build(i + 1)
        tail = ["v" + dots(U(vars_[0])), "x" + dots(U(";"))] if rng.random() < 0.7 else []
        inner_toks = body + tail
        cnt = count_nodes(inner_toks)
        if kinds[i] == "L":
            st = "l" if i == 0 else ("m" if i == len(kinds) - 1 or rng.random() < 0.5 else "l")
            return ["l%s:%s:%d" % (dots(U(st)), dots(U(vars_[i])), cnt)] + inner_toks
        case = rng.choice(["1", "{var:n}", "2 > 1", "{var:%s} >= 0" % vars_[0]])
        return ["i1", "c" + dots(U(case)), "b%d" % cnt] + inner_toks
    return doc, build(0)


def count_nodes(toks):
    """number of top-level nodes in a token list of the tplspec code"""
    i, n = 0, 0
    def skip(i):
        t = toks[i]
        k = t[0]
        if k in "xvrm":
            return i + 1
        if k == "s":
            c = int(t.split(":")[1]); i += 1
            for _ in range(c):
                i = skip(i)
            return i
        if k == "q":
            _, a, b = t[1:].split(":"); i += 1
            for c in (a, b):
                if c != "-":
                    for _ in range(int(c)):
                        i = skip(i)
            return i
        if k == "i":
            nb = int(t[1:]); i += 1
            for _ in range(nb):
                i += 1          # c.. or e
                c = int(toks[i][1:]); i += 1
                for _ in range(c):
                    i = skip(i)
            return i
        if k == "l":
            c = int(t.split(":")[2]); i += 1
            for _ in range(c):
                i = skip(i)
            return i
        raise ValueError(t)
    while i < len(toks):
        i = skip(i)
        n += 1
    return n


def wide_svar_case(rng, w):
    """a super-variable phrase with `{u}` where u is a NON-digit unit whose low byte is 0x30..0x39"""
    pool = WIDE_DIGITS_16 + (WIDE_DIGITS_32 if w in ("4", "W") else [])
    phrase = []
    for _ in range(rng.randrange(1, 4)):
        x = rng.random()
        if x < 0.6:
            phrase += [123, rng.choice(pool), 125]
        elif x < 0.8:
            phrase += [123, 48 + rng.randrange(0, 6), 125]
        else:
            phrase += [rng.choice(pool), rng.choice([97, 32, 123, 125])]
    nargs = rng.randrange(4, 10)
    doc = ("o", [(U("ph"), ("s", phrase)), (U("a"), ("n", 7)), (U("b"), ("s", U("B")))])
    toks = ["s%s:%d" % (dots(U("ph")), nargs)] + [rng.choice(["v" + dots(U("a")), "r" + dots(U("b")), "m" + dots(U("1+1"))]) for _ in range(nargs)]
    return doc, toks


# keys that are not a plain decimal index of an array (Value::GetValue(key, length) must find nothing: the tag is
# reproduced verbatim) next to keys that are one ("00", "007", "10", "2", ten digits with leading zeros)
BAD_INDEX = [[], U(":"), U("/"), U("1a"), U(" 1"), U("+1"), U("-0"), U("4294967295"), U("4294967296"), U("4294967297"),
             U("99999999999"), U("00000000001"), U("a"), U("1 "), U("0x1"), U("1.0")]
GOOD_INDEX = [U("00"), U("007"), U("10"), U("2"), U("0000000001"), U("0")]
WIDE_INDEX = [[0x0661], [0x0131], [0xFF11], [0x0031, 0x0660], [0x0130]]          # digit look-alikes, widths 2 / 4 / W only


def array_index_case(rng, w):
    """{var:l[<key>]} / {raw:l[<key>]} / nested d[<key>][k] on arrays of 3, 11 and 12 elements."""
    n = rng.choice([3, 11, 12])
    doc = ("o", [(U("l"), ("a", [("n", 10 * (i + 1)) for i in range(n)])),
                 (U("d"), ("a", [("o", [(U("k"), ("n", 7 + i))]) for i in range(rng.choice([1, 11]))]))])
    pool = BAD_INDEX + BAD_INDEX + GOOD_INDEX + (WIDE_INDEX if w != "1" else [])
    key = rng.choice(pool)
    x = rng.random()
    if x < 0.6:
        path = U("l[") + key + U("]")
    elif x < 0.8:
        path = U("d[") + key + U("][k]")
    else:
        path = U("l[") + key + U("][0]")
    toks = ["x" + dots(U("<")), rng.choice("vr") + dots(path), "x" + dots(U(">"))]
    return doc, toks


def narrow_field_probe(ctx, exe):
    """The tag records keep name lengths / attribute offsets in 8- and 16-bit fields. Names of 256 units and
    more are derivable from the documented grammar; the documented expansion of `{var:<name>}` with the key
    present is the value. Probed on the real code with fixed witnesses (recorded finding when it fails)."""
    lines, exp = [], []
    for n in (255, 256, 300):
        key = [97 + (i % 26) for i in range(n)]
        doc = "o1,k%s,s118" % ".".join(str(x) for x in key)                       # {"<key>": "v"}
        tpl = [ord(c) for c in "{var:"] + key + [125]
        lines.append("tplrender 1 %s %s" % (doc, core.show_units(tpl))); exp.append("118")
        doc2 = "o1,k%s,a1,s118" % ".".join(str(x) for x in key)                   # {"<key>": ["v"]}
        tpl2 = [ord(c) for c in '<loop set="'] + key + [ord(c) for c in '" value="x">{var:x}</loop>']
        lines.append("tplrender 1 %s %s" % (doc2, core.show_units(tpl2))); exp.append("118")
    impl, faults = core.run_lines(exe, lines)
    for i, kind, err in faults:
        ctx.fail("fault:" + kind, "fault rendering a long name: " + lines[i][:200], {"line": lines[i], "stderr": err})
    for l, a, e in zip(lines, impl, exp):
        got = a.split(" ")[-1] if a and not a.startswith("FAULT") else a
        if got != e and not a.startswith("FAULT"):
            ctx.fail("name-of-256-units-or-more", "a name of >= 256 units is not resolved although the key exists (8/16-bit tag fields): %s... -> %s" % (l[:80], a[-60:]),
                     {"line": l, "impl": a, "expected_text_units": e})
    ctx.count("narrow-field-probe", len(lines), len(lines))


def run(ctx):
    ctx.gen_constants(["Expr", "Tmpl", "Escape"])
    mods = ["Qentem.Props.C02", "Qentem.Props.C01", "Qentem.Props.C04", "Qentem.Props.C03"]
    ctx.prove(mods, THEOREMS, OPEN)
    drv = ctx.build_driver()
    exe = ctx.build_harness("template_harness.cpp")
    if not (drv and exe):
        return
    narrow_field_probe(ctx, exe)
    g = Gen(ctx.rng)
    N = 30000 if not ctx.thorough else 300000
    spec_lines, widths = [], []
    for k in range(N):
        doc = g.root()
        _, toks = g.nodes([], 3)
        spec_lines.append("tplspec 1 %s %s" % (enc(doc), ",".join(toks)))
        widths.append("1" if k % 10 else ctx.rng.choice("24W"))
    for _ in range(N // 20):          # nesting 7..13 block tags deep (Level 6..12)
        doc, toks = deep_case(ctx.rng)
        spec_lines.append("tplspec 1 %s %s" % (enc(doc), ",".join(toks)))
        widths.append(ctx.rng.choice("1112W"))
    # block tags nested >= 256 deep: the loop record's Level must not wrap (repaired defect: Level was
    # SizeT8(parent_storage.Size()); an inner loop at container depth 256 overwrote the outer loop's
    # current item; /repo commit "fix: loop nesting level is not truncated to 8 bits").
    for d in [257, 257, 258, 513] + ([300, 769, 1025] if ctx.thorough else []):
        import sys
        sys.setrecursionlimit(max(sys.getrecursionlimit(), 4 * d + 200))
        doc, toks = deep_case(ctx.rng, depth=d)
        spec_lines.append("tplspec 1 %s %s" % (enc(doc), ",".join(toks)))
        widths.append("1")
    for _ in range(N // 20):          # wide units with an ASCII-digit low byte inside {..} of a phrase
        w = ctx.rng.choice("24W")
        doc, toks = wide_svar_case(ctx.rng, w)
        spec_lines.append("tplspec 1 %s %s" % (enc(doc), ",".join(toks)))
        widths.append(w)
    for _ in range(N // 20):          # keyed reads of arrays with keys that are / are not a plain decimal index
        w = ctx.rng.choice("11124W")
        doc, toks = array_index_case(ctx.rng, w)
        spec_lines.append("tplspec 1 %s %s" % (enc(doc), ",".join(toks)))
        widths.append(w)
    for _ in range(N // 15):          # non-Latin-1 units that are a special character under a mask, on every escaped path (round c)
        w = ctx.rng.choice("24W")
        doc, toks = T.c02_wide_escape_case(ctx.rng, w, enc)
        spec_lines.append("tplspec 1 %s %s" % (enc(doc), ",".join(toks)))
        widths.append(w)
    spec_out, _ = core.run_lines_parallel(drv, spec_lines, jobs=12, env=None)
    lines, expected, keep = [], [], []
    bad_spec = 0
    for l, o, w in zip(spec_lines, spec_out, widths):
        t = o.split(" ")
        if len(t) != 4 or t[0] != "P" or t[2] != "E":
            bad_spec += 1
            continue
        if "63" in t[3].split(",") and "63" not in t[1].split(","):
            continue   # a real number was formatted ('?'): outside this check
        dcode = l.split(" ")[2]
        if len(lines) % 6 == 5:
            # the same document with some containers (also the root) reached through 1-3 pointer-to-value hops:
            # a pointer is transparent for every read, so the expected text is unchanged
            import re as _re
            dcode = ",".join((ctx.rng.choice(["p,", "p,", "p,p,", "p,p,p,"]) + tk) if _re.match(r"^[ao]\d+$", tk) and ctx.rng.random() < 0.4 else tk
                             for tk in dcode.split(","))
        lines.append("tplrender %s %s %s" % (w, dcode, t[1]))
        expected.append("R " + t[3])
        keep.append(l)
    if bad_spec:
        ctx.infra_errors.append("%d tplspec lines were not answered (driver/generator protocol)" % bad_spec)
    impl, faults = core.run_lines_parallel(exe, lines, jobs=12)
    for i, kind, err in faults:
        ctx.fail("fault:" + kind, "sanitizer fault rendering a well-formed template: " + lines[i][:300], {"line": lines[i], "stderr": err})
    # the same renders in SSE2 and AVX2 builds ("the result is the same for every ... SIMD build")
    step = 5 if not ctx.thorough else 2
    core.simd_builds(ctx, "template_harness.cpp", lines[::step], impl[::step], "template render")
    n_tags = sum(1 for l in keep if any(t[0] in "vrmsqil" for t in l.split(" ")[3].split(",")))
    ctx.count("documented-expansion", len(lines), n_tags)
    mism = [i for i in range(len(lines)) if impl[i] != expected[i] and not impl[i].startswith("FAULT")]
    for i in mism[:400]:
        show = lambda u: "".join(chr(int(x)) if 32 <= int(x) < 127 else "\\x%02x" % int(x) for x in u.split(",")) if u not in ("-", "") else ""
        tmpl = show(lines[i].split(" ")[3])
        ctx.fail("expansion-differs", "render != documented expansion: template %r value %s: real %r expected %r" % (
            tmpl, lines[i].split(" ")[2][:200], show(impl[i][2:]), show(expected[i][2:])),
            {"line": lines[i], "spec_line": keep[i], "impl": impl[i], "expected": expected[i]})
    if lines:
        k = ctx.rng.randrange(len(lines))
        ctx.cov["samples"].append({"stream": "documented-expansion", "input": lines[k][:300], "impl": impl[k][:200], "expected": expected[k][:200]})
    ctx.notes.append("templates: %d generated, %d compared, %d mismatches" % (N, len(lines), len(mism)))
    T.c02_copies(ctx, exe, lines, expected)          # the same through a copy of the parsed tag array (round c)
    T.c02_group(ctx, drv, exe, enc)                  # <loop group=> on items with differing member orders (round c)
    T.c02_narrow_fields(ctx, drv, exe)               # every 8/16-bit tag field at limit-1 / limit / limit+1 (round g)
    ctx.assumptions += ["well-formedness side conditions are those of the generator (see META.note)",
                        "number formatting of reals, sort=, group= are decided by C10 / C15 / C18"]


FINISH = dict(level="proof",
              rule="every 5th (quick) / 2nd (thorough) render repeated in SSE2 and AVX2 builds and compared with the scalar build; generated template trees (text, var, raw, math, svar, inline if, if chains, loops nested <= 3; block tags nested 7..13 deep with loops at the 8/9 boundary; super-variable phrases with wide units whose low byte is an ASCII digit) x generated value trees, widths 1/2/4/wchar_t; printed by the Lean printer, rendered by the real code on exact-size buffers under ASan/UBSan, compared with the Lean reference expansion; round g: every 8/16-bit field of the tag records and every SizeT8/SizeT16 cast of Template.hpp driven to limit-1 / limit / limit+1 (255/256/257, 65535/65536/65537) by the template quantity behind it, in every tag kind and position, alone and nested once (inventory re-derived from the headers each run; judged when all driven quantities are below their limits, else under the finding name-of-256-units-or-more); round c: non-Latin-1 units that are a special character under a mask on every escaped path (widths 2/4/W), every 9th line again through a copy of the parsed tags, <loop group=> over objects with differing member orders against the Lean grouping specification; non-trivial = contains at least one tag",
              checker_cmd="cd lean && lake build Qentem.Props.C01 Qentem.Props.C04 Qentem.Props.C03 && lake env lean <#print axioms>")
