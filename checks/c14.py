"""C14 — Array, String, StringStream and StringView behave as plain sequences; Memory::Copy /
SetToZero give identical results for every length and alignment in scalar, SSE2 and AVX2 builds."""
import itertools
import os
import re
from vlib import core

META = {
    "property_id": "C14",
    "technique": "Lean 4 refinement theorems (container models -> plain List specification, lifted to every operation sequence by induction) + block-loop/scalar-tail = plain copy for every block shift and size; model/implementation correspondence on exhaustive short programs and random long programs under ASan/UBSan with exact-fit growth; Memory::Copy/SetToZero at every length x 32x32 misalignments in three SIMD builds",
    "level": "proof",
    "design_ref": "DESIGN.md §6 C14, notes/design-seq.md",
    "text": "Kernel-checked: every operation of the Array/String/StringStream/StringView models refines its List specification on a table of objects (aliasing and moved-from objects included), size <= capacity and String termination are invariants of every operation sequence, appends keep the old content as a prefix, capacity changes keep the content; Memory::Copy and SetToZero models (vector block loop + scalar tail, checked accesses) equal the plain copy / fill for every block shift, size and buffer, never touching bytes outside [0,size).",
    "note": "Trusted: Lean kernel; axioms subset of {propext, Quot.sound, Classical.choice}; the correspondence harness (ASan/UBSan, exact-fit stream growth hook, std::vector shadow); sizes are Nat in the model (no 32-bit wrap-around).",
}

THEOREMS = [
    "Qentem.Props.C14.copyBlocks_eq",
    "Qentem.Props.C14.zeroBlocks_eq",
    "Qentem.Props.C14.copy_same_in_all_builds",
]
try:  # the list of sequence theorems lives next to the check so that it can grow with the proofs
    from checks._c14_theorems import SEQ_THEOREMS
    THEOREMS += SEQ_THEOREMS
except ImportError:
    pass

# ------------------------------------------------------------------------------------------------
# units


def unit_pool(w):
    base = [32, 9, 10, 13, 97, 98, 65, 90, 1, 127, 48]
    if w == "2":
        base += [128, 255, 256, 0xD800, 0xFFFF]
    if w == "4":
        base += [128, 255, 256, 0x10000, 0x10FFFF, 0xFFFFFFFF]
    return base


def rand_units(rng, w, maxlen=6, zero=False):
    n = rng.choice([0, 0, 1, 1, 2, 3, rng.randrange(0, maxlen + 1)])
    pool = unit_pool(w)
    hi = {"1": 127, "2": 0xFFFF, "4": 0xFFFFFFFF}[w]
    u = []
    for _ in range(n):
        r = rng.random()
        if zero and r < 0.08:
            u.append(0)
        elif r < 0.7:
            u.append(rng.choice(pool))
        else:
            u.append(rng.randrange(1, hi + 1))
    return u


def su(u):
    return core.show_units(u)


def pick_regs(rng):
    r = rng.randrange(3)
    s = r if rng.random() < 0.25 else rng.randrange(3)
    return r, s


def near(rng, n):
    """boundary-biased operand around the current length n"""
    c = [0, 1, n, n + 1, max(n - 1, 0), rng.randrange(0, 9)]
    return rng.choice(c)


MAXLEN = 48

# ------------------------------------------------------------------------------------------------
# Array programs


def gen_array(rng, nops, kind, flags):
    ln = [0, 0, 0]
    ops = []
    while len(ops) < nops:
        r, s = pick_regs(rng)
        k = rng.choice(["push"] * 6 + ["pushi"] * 3 + ["appc"] * 3 + ["appm"] * 2 + ["asgc", "asgm", "ctorc", "ctorm", "ctorn", "clear", "reset",
                                                                     "detach", "reserve", "resize", "resize", "resizei", "expect",
                                                                     "compress", "drop", "drop"])
        if k == "push":
            ops.append("push:%d:%d" % (r, rng.choice([0, 1, 7, 42, 1000, rng.randrange(0, 100000)]))); ln[r] += 1
        elif k == "pushi":
            # the argument is an item of the array itself (const&), at every fill level incl. exactly full
            if not flags["array_alias_item"] or ln[r] == 0 or ln[r] >= MAXLEN:
                continue
            ops.append("pushi:%d:%d" % (r, rng.choice([0, ln[r] - 1, rng.randrange(ln[r]), ln[r]]))); ln[r] += 1
        elif k == "appc":
            if r == s and not flags["array_self_appc"] and ln[r] > 0:
                continue
            if ln[r] + ln[s] > MAXLEN:
                continue
            ops.append("appc:%d:%d" % (r, s)); ln[r] += ln[s]
        elif k == "appm":
            if r == s and kind == "s":
                continue     # Array<owning> += Move(itself) leaks its items (documented observation, not modelled)
            if ln[r] + ln[s] > MAXLEN:
                continue
            ops.append("appm:%d:%d" % (r, s)); v = ln[r] + ln[s]; ln[s] = 0; ln[r] = v if r != s else 0
        elif k == "asgc":
            ops.append("asgc:%d:%d" % (r, s)); ln[r] = ln[s]
        elif k == "asgm":
            ops.append("asgm:%d:%d" % (r, s))
            if r != s:
                ln[r] = ln[s]; ln[s] = 0
        elif k == "ctorc":
            ops.append("ctorc:%d:%d" % (r, s)); ln[r] = ln[s]
        elif k == "ctorm":
            ops.append("ctorm:%d:%d" % (r, s)); v = ln[s]; ln[s] = 0; ln[r] = v
        elif k == "ctorn":
            n = rng.randrange(0, 9); i = rng.randrange(2)
            ops.append("ctorn:%d:%d:%d" % (r, n, i)); ln[r] = n if i else 0
        elif k in ("clear", "reset", "detach"):
            ops.append("%s:%d" % (k, r)); ln[r] = 0
        elif k == "reserve":
            n = rng.randrange(0, 9); i = rng.randrange(2)
            ops.append("reserve:%d:%d:%d" % (r, n, i)); ln[r] = n if i else 0
        elif k == "resize":
            n = near(rng, ln[r]); ops.append("resize:%d:%d" % (r, n)); ln[r] = min(ln[r], n)
        elif k == "resizei":
            n = min(near(rng, ln[r]), MAXLEN); ops.append("resizei:%d:%d" % (r, n)); ln[r] = n
        elif k == "expect":
            ops.append("expect:%d:%d" % (r, rng.randrange(0, 9)))
        elif k == "compress":
            ops.append("compress:%d" % r)
        elif k == "drop":
            n = near(rng, ln[r]); ops.append("drop:%d:%d" % (r, n))
            if n <= ln[r]:
                ln[r] -= n
    return ";".join(ops)


def array_alphabet(flags):
    a = ["push:0:7", "push:1:8", "appc:0:1", "appm:0:1", "appm:1:0", "asgc:0:1", "asgc:0:0", "asgm:0:1", "asgm:0:0",
         "ctorc:1:0", "ctorm:1:0", "ctorm:0:0", "ctorn:0:3:1", "ctorn:1:2:0", "clear:0", "reset:0", "detach:0", "reserve:0:2:1",
         "resize:0:1", "resize:0:3", "resizei:0:3", "resizei:0:0", "expect:0:2", "compress:0", "drop:0:1", "drop:0:0"]
    if flags["array_self_appc"]:
        a.append("appc:0:0")
    if flags["array_alias_item"]:
        a += ["pushi:0:0", "pushi:0:1", "pushi:1:0"]
    return a


# ------------------------------------------------------------------------------------------------
# String programs


def gen_string(rng, nops, w, flags):
    ln = [0, 0, 0]
    ops = []
    while len(ops) < nops:
        r, s = pick_regs(rng)
        t = rng.randrange(3)
        k = rng.choice(["ctoru", "ctoru", "ctorf", "adopt", "ctorc", "ctorm", "asgc", "asgm", "asgu", "appc", "appc", "appm", "appu", "appu",
                        "appch", "appch", "appo", "appo", "asgo", "plus", "plusm", "plusu", "trim", "trim", "stepback", "stepback", "reverse", "insertat",
                        "insertat", "reset", "detach", "cmp", "cmp", "cmpu"])
        if k in ("ctoru", "ctorf", "adopt"):
            u = rand_units(rng, w, zero=(k != "ctoru" or rng.random() < 0.2)); ops.append("%s:%d:%s" % (k, r, su(u))); ln[r] = len(u)
        elif k == "ctorc":
            ops.append("ctorc:%d:%d" % (r, s)); ln[r] = ln[s]
        elif k == "ctorm":
            ops.append("ctorm:%d:%d" % (r, s)); v = ln[s]; ln[s] = 0; ln[r] = v
        elif k == "asgc":
            ops.append("asgc:%d:%d" % (r, s)); ln[r] = ln[s]
        elif k == "asgm":
            ops.append("asgm:%d:%d" % (r, s))
            if r != s:
                ln[r] = ln[s]; ln[s] = 0
        elif k == "asgu":
            u = rand_units(rng, w); ops.append("asgu:%d:%s" % (r, su(u))); ln[r] = len(u)
        elif k == "appc":
            if ln[r] + ln[s] > MAXLEN:
                continue
            ops.append("appc:%d:%d" % (r, s)); ln[r] += ln[s]
        elif k == "appm":
            if ln[r] + ln[s] > MAXLEN:
                continue
            ops.append("appm:%d:%d" % (r, s)); v = ln[r] + ln[s]; ln[s] = 0; ln[r] = v if r != s else 0
        elif k == "appu":
            v = rng.randrange(3); u = rand_units(rng, w, zero=(v == 2)); ops.append("appu:%d:%d:%s" % (v, r, su(u))); ln[r] += len(u)
        elif k == "appch":
            c = rng.choice(unit_pool(w) + [0]); ops.append("appch:%d:%d" % (r, c)); ln[r] += 1
        elif k == "appo":
            # Write / += / << with a pointer into the string's own block: front, middle, end, overlapping its tail
            if not flags["string_write_own"]:
                continue
            off = rng.choice([0, 0, ln[r] // 2, max(ln[r] - 1, 0), ln[r], near(rng, ln[r])]); n = rng.choice([0, 1, ln[r], near(rng, ln[r])])
            if 2 * ln[r] > MAXLEN:
                continue
            ops.append("appo:%d:%d:%d:%d" % (rng.randrange(3), r, off, n)); ln[r] += ln[r]
        elif k == "asgo":
            if not flags["string_asg_own"]:
                continue
            ops.append("asgo:%d:%d" % (r, rng.choice([0, 1, ln[r] // 2, ln[r], near(rng, ln[r])])))
        elif k in ("plus", "plusm"):
            if ln[s] + ln[t] > MAXLEN:
                continue
            ops.append("%s:%d:%d:%d" % (k, r, s, t)); v = ln[s] + ln[t]
            if k == "plusm":
                ln[t] = 0
            ln[r] = v
        elif k == "plusu":
            u = rand_units(rng, w); ops.append("plusu:%d:%d:%s" % (r, s, su(u))); ln[r] = ln[s] + len(u)
        elif k == "trim":
            ops.append("trim:%d:%d" % (r, s)); ln[r] = ln[s]
        elif k == "stepback":
            n = near(rng, ln[r])
            if n == 0 and not flags["string_stepback0"]:
                continue
            ops.append("stepback:%d:%d" % (r, n))
            if n <= ln[r]:
                ln[r] -= n
        elif k == "reverse":
            ops.append("reverse:%d:%d" % (r, near(rng, ln[r]) if rng.random() < 0.5 else 0))
        elif k == "insertat":
            ops.append("insertat:%d:%d:%d" % (r, rng.choice(unit_pool(w)), near(rng, ln[r]))); ln[r] += 1
        elif k in ("reset", "detach"):
            ops.append("%s:%d" % (k, r)); ln[r] = 0
        elif k == "cmp":
            ops.append("cmp:%d:%d:%d" % (rng.randrange(6), r, s))
        elif k == "cmpu":
            kk = rng.randrange(7); u = rand_units(rng, w, zero=(kk == 6)); ops.append("cmpu:%d:%d:%s" % (kk, r, su(u)))
    return ";".join(ops)


def string_alphabet(flags):
    a = ["ctoru:0:97,32", "ctoru:1:32,98,32", "ctorf:0:99,100", "ctorf:0:-", "adopt:1:101", "ctorc:1:0", "ctorm:1:0", "ctorm:0:0",
         "asgc:0:1", "asgc:0:0", "asgm:0:1", "asgm:0:0", "asgu:0:120", "asgu:0:-", "appc:0:1", "appc:0:0", "appm:0:1", "appm:0:0",
         "appu:0:0:121,122", "appu:2:0:-", "appch:0:65", "appch:0:0", "plus:0:0:1", "plus:0:0:0", "plus:0:1:1", "plusm:0:1:1", "plusm:1:0:1",
         "plusu:1:0:-", "plusu:1:0:32", "trim:0:1", "trim:0:0", "stepback:0:1", "stepback:0:2", "reverse:0:0", "reverse:0:1",
         "insertat:0:66:0", "insertat:0:66:1", "reset:0", "detach:0", "cmp:0:0:1", "cmp:2:0:1", "cmp:5:0:1", "cmpu:0:0:97,32", "cmpu:6:0:-"]
    if flags["string_stepback0"]:
        a.append("stepback:0:0")
    if flags["string_write_own"]:
        a += ["appo:0:0:1:2", "appo:1:0:0:0", "appo:2:0:2:0", "appo:0:0:0:9"]
    if flags["string_asg_own"]:
        a += ["asgo:0:0", "asgo:0:1", "asgo:0:9"]
    return a


# ------------------------------------------------------------------------------------------------
# StringStream programs


def gen_stream(rng, nops, w, flags):
    ln = [0, 0, 0]
    ops = []
    while len(ops) < nops:
        r, s = pick_regs(rng)
        k = rng.choice(["ctorn", "ctorc", "ctorm", "asgc", "asgm", "asgu", "pushch", "pushch", "pushch", "apps", "apps", "shls", "appu", "appu", "appu",
                        "appo", "appo", "appo", "asgo",
                        "clear", "reset", "detach", "stepback", "stepback", "reverse", "insertat", "insertat", "setlen", "buffer", "expect",
                        "reserve", "getstr", "getview", "insnull", "eqs", "equ"])
        if k == "ctorn":
            ops.append("ctorn:%d:%d" % (r, rng.randrange(0, 10))); ln[r] = 0
        elif k == "ctorc":
            ops.append("ctorc:%d:%d" % (r, s)); ln[r] = ln[s]
        elif k == "ctorm":
            ops.append("ctorm:%d:%d" % (r, s)); v = ln[s]; ln[s] = 0; ln[r] = v
        elif k == "asgc":
            ops.append("asgc:%d:%d" % (r, s)); ln[r] = ln[s]
        elif k == "asgm":
            ops.append("asgm:%d:%d" % (r, s))
            if r != s:
                ln[r] = ln[s]; ln[s] = 0
        elif k == "asgu":
            v = rng.randrange(3); u = rand_units(rng, w, zero=(v != 2)); ops.append("asgu:%d:%d:%s" % (v, r, su(u))); ln[r] = len(u)
        elif k == "pushch":
            ops.append("pushch:%d:%d:%d" % (rng.randrange(2), r, rng.choice(unit_pool(w) + [0]))); ln[r] += 1
        elif k in ("apps", "shls"):
            if k == "shls" and r == s and not flags["stream_self_shl"]:
                continue
            if ln[r] + ln[s] > MAXLEN:
                continue
            ops.append("%s:%d:%d" % (k, r, s)); ln[r] += ln[s]
        elif k == "appu":
            v = rng.randrange(7); u = rand_units(rng, w, zero=True); ops.append("appu:%d:%d:%s" % (v, r, su(u))); ln[r] += len(u)
        elif k == "appo":
            # Write / += / << with a range, a view or a C string inside the stream's own buffer (the call usually grows it)
            if not flags["stream_alias_write"] or 2 * ln[r] > MAXLEN:
                continue
            off = rng.choice([0, 0, ln[r] // 2, max(ln[r] - 1, 0), ln[r], near(rng, ln[r])]); n = rng.choice([0, 1, ln[r], near(rng, ln[r])])
            ops.append("appo:%d:%d:%d:%d" % (rng.randrange(6), r, off, n)); ln[r] += ln[r]
        elif k == "asgo":
            ops.append("asgo:%d:%d:%d:%d" % (rng.randrange(2), r, rng.choice([0, 1, ln[r] // 2, ln[r]]), rng.choice([0, 1, ln[r], near(rng, ln[r])])))
        elif k in ("clear", "reset", "detach", "getstr"):
            ops.append("%s:%d" % (k, r)); ln[r] = 0
        elif k == "stepback":
            n = near(rng, ln[r]); ops.append("stepback:%d:%d" % (r, n))
            if n <= ln[r]:
                ln[r] -= n
        elif k == "reverse":
            ops.append("reverse:%d:%d" % (r, near(rng, ln[r]) if rng.random() < 0.5 else 0))
        elif k == "insertat":
            i = near(rng, ln[r]); ops.append("insertat:%d:%d:%d" % (r, rng.choice(unit_pool(w)), i))
            if i < ln[r]:
                ln[r] += 1
        elif k == "setlen":
            n = min(near(rng, ln[r]), MAXLEN); f = [rng.choice(unit_pool(w) + [0]) for _ in range(n)]
            ops.append("setlen:%d:%d:%s" % (r, n, su(f))); ln[r] = n
        elif k == "buffer":
            f = rand_units(rng, w, zero=True); ops.append("buffer:%d:%s" % (r, su(f))); ln[r] += len(f)
        elif k == "expect":
            ops.append("expect:%d:%d" % (r, rng.randrange(0, 12)))
        elif k == "reserve":
            ops.append("reserve:%d:%d" % (r, rng.randrange(0, 12))); ln[r] = 0
        elif k in ("getview", "insnull"):
            ops.append("%s:%d" % (k, r))
        elif k == "eqs":
            ops.append("eqs:%d:%d:%d" % (rng.randrange(2), r, s))
        elif k == "equ":
            ops.append("equ:%d:%d:%d:%s" % (rng.randrange(4), rng.randrange(2), r, su(rand_units(rng, w, zero=True))))
    return ";".join(ops)


def stream_alphabet(flags):
    a = ["ctorn:0:3", "ctorn:1:0", "ctorc:1:0", "ctorm:1:0", "ctorm:0:0", "asgc:0:1", "asgc:0:0", "asgm:0:1", "asgm:0:0", "asgu:0:0:120,121",
         "asgu:2:0:-", "pushch:0:0:65", "pushch:1:1:66", "apps:0:1", "apps:0:0", "shls:0:1", "appu:0:0:97,98", "appu:4:0:99", "appu:5:1:100,101,102",
         "appu:6:0:-", "clear:0", "reset:0", "detach:0", "stepback:0:1", "stepback:0:0", "reverse:0:0", "reverse:0:1", "insertat:0:66:0",
         "insertat:0:66:1", "setlen:0:1:7", "setlen:0:4:7,8,9,10", "buffer:0:5,6", "expect:0:3", "reserve:0:2", "getstr:0", "getview:0",
         "insnull:0", "eqs:0:0:1", "equ:0:0:0:97,98", "equ:2:1:0:-"]
    if flags["stream_self_shl"]:
        a.append("shls:0:0")
    a += ["asgo:0:0:1:2", "asgo:1:0:1:0"]
    if flags["stream_alias_write"]:
        a += ["appo:0:0:1:2", "appo:1:0:0:9", "appo:2:0:2:1", "appo:3:0:1:0", "appo:4:0:0:0", "appo:5:0:0:0"]
    return a


# ------------------------------------------------------------------------------------------------
# StringView programs


def gen_view(rng, nops, w):
    ops = []
    for _ in range(nops):
        r, s = pick_regs(rng)
        k = rng.choice(["ctorp", "ctorp", "ctorz", "ctorz", "ctorc", "ctorm", "asgc", "asgm", "asgz", "reset", "cmp", "cmp", "cmp", "cmpu"])
        if k == "ctorp":
            b = rand_units(rng, w, zero=True); ops.append("ctorp:%d:%s:%d" % (r, su(b), rng.randrange(0, len(b) + 1)))
        elif k in ("ctorz", "asgz"):
            ops.append("%s:%d:%s" % (k, r, su(rand_units(rng, w, zero=True))))
        elif k in ("ctorc", "ctorm", "asgc", "asgm"):
            ops.append("%s:%d:%d" % (k, r, s))
        elif k == "reset":
            ops.append("reset:%d" % r)
        elif k == "cmp":
            ops.append("cmp:%d:%d:%d" % (rng.randrange(6), r, s))
        else:
            kk = rng.randrange(7); ops.append("cmpu:%d:%d:%s" % (kk, r, su(rand_units(rng, w, zero=(kk == 6)))))
    return ";".join(ops)


VIEW_ALPHABET = ["ctorp:0:97,98,99:2", "ctorp:1:97,98:2", "ctorp:0:-:0", "ctorz:0:97,98", "ctorz:1:97,0,98", "ctorc:1:0", "ctorm:1:0", "ctorm:0:0",
                 "asgc:0:1", "asgc:0:0", "asgm:0:1", "asgm:0:0", "asgz:0:97", "reset:0", "cmp:0:0:1", "cmp:1:0:1", "cmp:2:0:1", "cmp:3:0:1",
                 "cmp:4:0:1", "cmp:5:0:1", "cmpu:0:0:97,98", "cmpu:2:0:97,98,99", "cmpu:6:0:97,98"]


# ------------------------------------------------------------------------------------------------
# Trimming: white space is exactly {space, \t, \n, \r} as code-unit values, for every width.

WS = [32, 9, 10, 13]


def trim_units(w):
    """Every unit a classifier could confuse with white space.  char: all 256 values (a signed char makes
    every byte >= 0x80 negative, i.e. `<= ' '`); wide: the aliases of the four values modulo 64 / 0x100 /
    0x10000 and with high bits set.  Deterministic (no PRNG): each value stands at both ends at least once."""
    if w == "1":
        return list(range(256))
    u = list(range(0, 130)) + [x + 64 * j for x in WS for j in range(1, 8)] + [x + k * 0x100 for x in WS for k in range(1, 256)]
    u += [0x8000 | x for x in WS] + [0xFF00 | x for x in WS]
    if w == "4":
        u += [x + k * 0x10000 for x in WS for k in list(range(1, 64)) + [0x100, 0x7FFF, 0xFFFF]]
        u += [h | x for x in WS for h in (0x80000000, 0xFFFFFF00, 0xFFFF0000, 0x7FFFFFC0)]
    seen, out = set(), []
    for x in u:
        if x not in seen:
            seen.add(x); out.append(x)
    return out


def trim_programs(w):
    progs = []
    for c in trim_units(w):
        progs.append("ctoru:0:%d,120,%d;trim:1:0;trim:0:0;trim:0:0" % (c, c))
        progs.append("ctoru:0:32,%d,120,121,%d,9;trim:1:0;appch:1:%d;trim:2:1" % (c, c, c))
        progs.append("ctoru:0:%d;trim:1:0;ctoru:2:%d,%d,10;trim:2:2" % (c, c, c))
    return progs


def trim_direct_lines(ctx, w):
    """StringUtils::TrimLeft / TrimRight / Trim called directly with cursors."""
    lines = []
    for c in trim_units(w):
        lines.append("seq-trim %s l 0 3 %d,120,%d" % (w, c, c))
        lines.append("seq-trim %s r 0 3 %d,120,%d" % (w, c, c))
        lines.append("seq-trim %s t 0 3 %d,120,%d" % (w, c, c))
        lines.append("seq-trim %s l 1 4 120,%d,32,%d,9" % (w, c, c))
        lines.append("seq-trim %s r 1 4 9,%d,32,%d,120" % (w, c, c))
        lines.append("seq-trim %s t 1 3 32,%d,13,%d,10" % (w, c, c))
        lines.append("seq-trim %s t 0 1 %d" % (w, c))
    pool = trim_units(w)
    rng = ctx.rng
    for _ in range(1500 if not ctx.thorough else 40000):
        n = rng.randrange(0, 10)
        u = [rng.choice(WS) if rng.random() < 0.5 else rng.choice(pool) for _ in range(n)]
        v = rng.choice("lrt")
        off = rng.randrange(0, n + 1)
        e = rng.randrange(off, n + 1) if v != "t" else rng.randrange(0, n - off + 1)
        lines.append("seq-trim %s %s %d %d %s" % (w, v, off, e, su(u)))
    return lines


def run_trim_direct(ctx, exe, drv):
    for w in ("1", "2", "4"):
        lines = trim_direct_lines(ctx, w)
        impl, faults = core.run_lines_parallel(exe, lines, jobs=12)
        impl = [o.split(" ##L ")[0] for o in impl]
        model, _ = core.run_lines_parallel(drv, lines, jobs=12, env=None)
        for i, k, err in faults:
            ctx.fail("fault:" + k, "sanitizer fault (%s) in StringUtils::Trim* on %s" % (k, lines[i]), {"line": lines[i], "stderr": err})
        keep = [i for i in range(len(lines)) if not impl[i].startswith("FAULT")]
        ctx.correspond("StringUtils::Trim*<%s>" % w, [lines[i] for i in keep], [impl[i] for i in keep], [model[i] for i in keep])
        spec, _ = core.run_lines_parallel(drv, [lines[i].replace("seq-trim ", "seq-trim-spec ", 1) for i in keep], jobs=12, env=None)
        nfail = 0
        for j, i in enumerate(keep):
            if impl[i] != spec[j] and nfail < 12:
                nfail += 1
                ctx.fail("oracle:trim-not-whitespace-only", "StringUtils::Trim* moved a cursor over a unit that is not space/tab/LF/CR (or stopped at one): %s -> %s, plain reading %s" % (lines[i], impl[i], spec[j]),
                         {"line": lines[i], "impl_output": impl[i], "list_spec": spec[j]})


def exhaustive(alphabet, depth, prologues):
    out = []
    for p in prologues:
        for n in range(1, depth + 1):
            for t in itertools.product(alphabet, repeat=n):
                out.append(";".join(([p] if p else []) + list(t)))
    return out


# ------------------------------------------------------------------------------------------------
# S3: the plain-sequence predicate evaluated on what the C++ returned


def to_spec_format(kind, impl_line):
    """Strip capacity / terminator / last fields from an implementation dump, checking the local
    invariants on the way.  Returns (spec-format string, list of local problems)."""
    problems = []
    steps = []
    for step in impl_line.split("|"):
        if "!" in step:
            problems.append("marker " + step[step.index("!"):])
            step = step[:step.index("!")]
        outp = ""
        if "=" in step:
            step, outp = step.split("=", 1)
            outp = "=" + outp
        regs = []
        for rg in step.split("/"):
            f = rg.split(":")
            if f[0] == "N":
                if f[1] != "0":
                    problems.append("null storage with length " + f[1])
                regs.append("%s:-" % f[1])
                continue
            if kind in ("array", "stream"):
                ln, cap, el, last = f
                if int(ln) > int(cap):
                    problems.append("size %s > capacity %s" % (ln, cap))
            elif kind == "string":
                ln, term, el, last = f
                if term != "0":
                    problems.append("not NUL-terminated (cell after the last unit = %s)" % term)
            else:
                ln, el, last = f
            items = [] if el == "-" else el.split(",")
            if len(items) != int(ln):
                problems.append("length field %s but %d items" % (ln, len(items)))
            if last != (items[-1] if items else "-"):
                problems.append("Last() = %s but last item = %s" % (last, items[-1] if items else "-"))
            regs.append("%s:%s" % (ln, el))
        steps.append("/".join(regs) + outp)
    return "|".join(steps), problems


def find_leaks(exe, lines):
    """LeakSanitizer reports at exit: bisect to the lines that leak."""
    out, faults = core.run_lines(exe, lines)
    if not any(k.startswith("lsan") for _, k, _ in faults):
        return []
    if len(lines) == 1:
        return [(lines[0], faults[0][2])]
    h = len(lines) // 2
    return find_leaks(exe, lines[:h]) + find_leaks(exe, lines[h:])


def run_stream_of_programs(ctx, name, kind, exe, drv, lines, jobs=12):
    spec_cmd = lines[0].split(" ")[0] + "-spec" if lines else ""
    impl, faults = core.run_lines_parallel(exe, lines, jobs=jobs)
    model, _ = core.run_lines_parallel(drv, lines, jobs=jobs, env=None)
    leaks_checked = False
    for i, k, err in faults:
        if k.startswith("lsan"):
            if not leaks_checked:
                leaks_checked = True
                for ln, e in find_leaks(exe, lines)[:5]:
                    ctx.fail("fault:lsan:leak", "memory leaked by the program " + ln, {"line": ln, "stderr": e[-3000:]})
            continue
        ctx.fail("fault:" + k, "sanitizer fault (%s) in the program %s" % (k, lines[i]), {"line": lines[i], "stderr": err})
    keep = [i for i in range(len(lines)) if not impl[i].startswith("FAULT")]
    ctx.correspond(name, [lines[i] for i in keep], [impl[i] for i in keep], [model[i] for i in keep])
    # S3 oracle
    slines = [lines[i].replace(spec_cmd[:-5], spec_cmd, 1) for i in keep]
    spec, _ = core.run_lines_parallel(drv, slines, jobs=jobs, env=None)
    nfail = 0
    for j, i in enumerate(keep):
        if impl[i] in ("bad-op", "cfg-mismatch"):
            ctx.infra_errors.append("harness answered %s to %s" % (impl[i], lines[i][:300]))
            continue
        got, problems = to_spec_format(kind, impl[i])
        if problems and nfail < 20:
            nfail += 1
            ctx.fail("oracle:%s-invariant" % kind, "%s: %s on %s" % (kind, "; ".join(problems[:3]), lines[i]), {"line": lines[i], "impl_output": impl[i]})
        if got != spec[j] and nfail < 20:
            nfail += 1
            ctx.fail("oracle:%s-not-plain-sequence" % kind, "%s content differs from the List specification on %s" % (kind, lines[i]),
                     {"line": lines[i], "impl_output": impl[i], "list_spec": spec[j]})
    ctx.count(name + ":list-spec-oracle", len(keep), len(set(slines)))
    return impl, model


# ------------------------------------------------------------------------------------------------
# Memory::Copy / SetToZero


def mem_sizes(ctx):
    if ctx.thorough:
        return list(range(0, 4097))
    s = set(range(0, 132))
    for b in (16, 32, 64):
        for k in range(1, 4096 // b + 1):
            if k <= 10 or k % 17 == 0 or k * b >= 4000:
                for d in (-1, 0, 1):
                    s.add(k * b + d)
    for _ in range(40):
        s.add(ctx.rng.randrange(132, 4097))
    s.update([4095, 4096, 2047, 2048, 2049, 1023, 1024, 1025])
    return sorted(x for x in s if 0 <= x <= 4096)


MEM_LARGE = [4097, 8191, 8192, 16384, 32767, 32768, 32769, 65536, 100000, 1048576]
MEM_BUILDS = [("scalar", [], 0, 0), ("sse2", ["-DQENTEM_SSE2=1", "-msse2"], 1, 4), ("avx2", ["-DQENTEM_AVX2=1", "-mavx2"], 1, 5)]


def run_mem(ctx, drv):
    sizes = mem_sizes(ctx)
    seed = ctx.rng.randrange(1, 1000)
    have_avx2 = "avx2" in open("/proc/cpuinfo").read()
    for name, extra, simd, shift in MEM_BUILDS:
        if name == "avx2" and not have_avx2:
            ctx.notes.append("CPU without AVX2: AVX2 build not run")
            continue
        exe = ctx.build_harness("mem_harness.cpp", flags=core.SAN_FLAGS + extra, tag="san_" + name)
        if not exe:
            continue
        cfg, _ = core.run_lines(exe, ["seqmem cfg 0 0 0 0"])
        want = "simd=%d shift=%d block=%d" % (simd, shift, (1 << shift) if simd else 0)
        if cfg[0] != want:
            ctx.corr_broken.append({"stream": "mem-config(%s)" % name, "count": 1, "examples": [{"input": "cfg", "impl": cfg[0], "model": want}]})
            continue
        lines = ["seqmem %s %d %d %d %d" % (w, simd, shift, n, seed) for w in ("copy", "zero") for n in sizes]
        impl, faults = core.run_lines_parallel(exe, lines, jobs=12)
        model, _ = core.run_lines_parallel(drv, lines, jobs=12, env=None)
        for i, k, err in faults:
            ctx.fail("fault:" + k, "sanitizer fault (%s) in Memory::%s, %s build, %s" % (k, lines[i].split(" ")[1], name, lines[i]), {"line": lines[i], "build": name, "stderr": err})
        keep = [i for i in range(len(lines)) if not impl[i].startswith("FAULT")]
        ctx.correspond("memory(%s)" % name, [lines[i] for i in keep], [impl[i] for i in keep], [model[i] for i in keep],
                       nontrivial=lambda l: int(l.split(" ")[4]) > 0)
        # S3: plain copy / fill (Lean List spec) vs the real code; the harness already compared with memcmp and a byte loop
        slines = [lines[i].replace("seqmem ", "seqmem spec-", 1) for i in keep]
        spec, _ = core.run_lines_parallel(drv, slines, jobs=12, env=None)
        for j, i in enumerate(keep):
            if impl[i] != spec[j]:
                ctx.fail("oracle:memory-not-plain-copy", "Memory::%s differs from a plain copy/fill in the %s build: %s -> %s" % (lines[i].split(" ")[1], name, lines[i], impl[i]),
                         {"line": lines[i], "build": name, "impl_output": impl[i], "list_spec": spec[j]})
        ctx.cov["streams"]["memory(%s)" % name]["alignments_per_case"] = "copy 32x32, zero 32"
        # large blocks (the containers reach them: a 40000-unit append): sparse lengths x 5x5 misalignments.
        # Oracle = the plain copy / fill (proved equal to the block model for every size); the block model itself
        # is run only up to 8192 bytes (it is quadratic on lists).
        llines = ["seqmem %sL %d %d %d %d" % (w, simd, shift, n, seed) for w in ("copy", "zero") for n in MEM_LARGE]
        limpl, lfaults = core.run_lines_parallel(exe, llines, jobs=12)
        for i, k, err in lfaults:
            ctx.fail("fault:" + k, "sanitizer fault / crash (%s) in Memory::%s on a large block, %s build, %s" % (k, llines[i].split(" ")[1][:-1], name, llines[i]), {"line": llines[i], "build": name, "stderr": err})
        lkeep = [i for i in range(len(llines)) if not limpl[i].startswith("FAULT")]
        lspec, _ = core.run_lines_parallel(drv, [llines[i].replace("seqmem ", "seqmem spec-", 1) for i in lkeep], jobs=12, env=None)
        for j, i in enumerate(lkeep):
            if limpl[i] != lspec[j]:
                ctx.fail("oracle:memory-not-plain-copy", "Memory::%s differs from a plain copy/fill on a large block in the %s build: %s -> %s" % (llines[i].split(" ")[1][:-1], name, llines[i], limpl[i]),
                         {"line": llines[i], "build": name, "impl_output": limpl[i], "list_spec": lspec[j]})
        small = [i for i in lkeep if int(llines[i].split(" ")[4]) <= 8192]
        lmodel, _ = core.run_lines_parallel(drv, [llines[i] for i in small], jobs=12, env=None)
        ctx.correspond("memory-large(%s)" % name, [llines[i] for i in small], [limpl[i] for i in small], lmodel)
        ctx.count("memory-large(%s):plain-copy-oracle" % name, len(lkeep), len(lkeep))


# ------------------------------------------------------------------------------------------------


def corpus_lines():
    d = os.path.join(core.VERIF, "corpus", "C14")
    out = []
    if os.path.isdir(d):
        for fn in sorted(os.listdir(d)):
            for ln in open(os.path.join(d, fn)):
                ln = ln.strip()
                if ln and not ln.startswith("#"):
                    out.append(ln)
    return out


# Operations whose argument lies inside the container's own storage while the call reallocates it.
# Each family is probed alone first: a failing probe is a failing input of the property (ctx.fail with
# the family's key) and the family is then left out of the generated programs (it would end every batch).
ALIAS_PROBES = {
    "array-alias-item": ("array_alias_item", [
        "seq-array i push:0:1;push:0:2;pushi:0:0;pushi:0:2;pushi:0:1;pushi:0:0;pushi:0:4",
        "seq-array s push:0:1;push:0:2;pushi:0:1;pushi:0:0;pushi:0:2;pushi:0:3;pushi:0:1",
        "seq-array s ctorn:0:3:0;push:0:7;pushi:0:0;pushi:0:0;pushi:0:2"]),
    "stream-alias-write": ("stream_alias_write", [
        "seq-stream 1 x appu:2:0:97,98,99,100,101,102,103,104;appo:0:0:2:4;appo:0:0:0:12",
        "seq-stream 2 x appu:2:0:97,98,99;appo:1:0:1:2;appo:2:0:0:5",
        "seq-stream 4 x appu:2:0:97,98,99;appo:3:0:1:0;appo:4:0:0:0",
        "seq-stream 1 x appu:2:0:97,98,99;appo:5:0:0:0;appo:5:0:0:0"]),
    "string-assign-own-pointer": ("string_asg_own", [
        "seq-string 1 ctoru:0:97,98,99,100;asgo:0:2;asgo:0:0;asgo:0:2",
        "seq-string 2 ctoru:0:97,98,99;asgo:0:1;asgo:0:3"]),
    "string-write-own-pointer": ("string_write_own", [
        "seq-string 1 ctoru:0:97,98,99,100;appo:0:0:1:2;appo:1:0:0:0;appo:2:0:5:0;appo:0:0:0:99",
        "seq-string 4 ctoru:0:97,98,99;appo:1:0:3:0;appo:0:0:2:1;appo:2:0:1:0"]),
}
_alias_cache = {}


def alias_flags(ctx, exe, drv, report=True):
    key = (exe, core.include_hash())
    if key not in _alias_cache:
        res = {}
        for fkey, (flag, lines) in ALIAS_PROBES.items():
            bad = None
            for ln in lines:
                impl, faults = core.run_lines(exe, [ln])
                kind = ln.split(" ")[0][4:]
                spec, _ = core.run_lines(drv, [ln.replace("seq-" + kind, "seq-" + kind + "-spec", 1)], env=None)
                out = impl[0].split(" ##L ")[0]
                if faults:
                    bad = (ln, "sanitizer fault %s" % faults[0][1], faults[0][2], out, spec[0])
                else:
                    got, problems = to_spec_format(kind, out)
                    if problems or got != spec[0]:
                        bad = (ln, "result differs from the List specification (%s)" % "; ".join(problems[:2]), "", out, spec[0])
                if bad:
                    break
            res[flag] = (fkey, bad)
        _alias_cache[key] = res
    flags = {}
    for flag, (fkey, bad) in _alias_cache[key].items():
        flags[flag] = bad is None
        if bad and report:
            ctx.fail(fkey, "%s when the argument lies inside the container's own storage: %s" % (bad[1], bad[0]),
                     {"line": bad[0], "stderr": bad[2][-3000:], "impl_output": bad[3], "list_spec": bad[4]})
        if report:
            ctx.count("probe:" + fkey, len(ALIAS_PROBES[fkey][1]), len(ALIAS_PROBES[fkey][1]))
    return flags


def build_driver_all_areas(ctx):
    """The driver imports every area's Generated module (git-ignored); C14 has no constants of its
    own, so make sure the others exist before `lake build qdriver` (a fresh checkout has none)."""
    from vlib import constants
    for a in constants.area_names():
        if not os.path.exists(os.path.join(core.LEAN_DIR, "Qentem", "Generated", a + ".lean")):
            constants.generate(a)
    return ctx.build_driver()


def doubled(op, reg, times):
    return ";".join(["%s:%d:%d" % (op, reg, reg)] * times)


def large_programs():
    """Programs whose copies are far above the 4 KiB of the memory sweep (a 40 000-unit append behind "abc"):
    big content is built by self-append doubling (short lines), then appended / assigned / copied at starts
    that are not vector-aligned.  Run in the scalar, SSE2 and AVX2 builds of the harness."""
    ten = "101,102,103,104,105,106,107,108,109,110"
    out = []
    for w, n in (("1", 12), ("2", 11), ("4", 11)):
        out.append("seq-string %s ctoru:1:%s;%s;ctoru:0:97,98,99;appc:0:1;asgc:2:0;appch:2:65;plus:1:2:0;reset:1;appu:2:2:%s;asgm:0:2;reset:0" % (w, ten, doubled("appc", 1, n), ten))
        out.append("seq-stream %s x appu:0:1:%s;%s;appu:0:0:97,98,99;apps:0:1;ctorc:2:0;pushch:0:2:66;asgc:1:2;reset:2;shls:0:1;getstr:0;reset:1" % (w, ten, doubled("apps", 1, n)))
    out.append("seq-array i push:1:5;push:1:6;push:1:7;%s;push:0:1;ctorc:2:1;appm:0:1;expect:2:5;push:2:9;compress:2;reset:0;reserve:1:9000:1;resizei:2:40000;reset:2;ctorn:0:20000:1" % doubled("appc", 1, 13))
    out.append("seq-array p push:1:5;push:1:6;push:1:7;%s;push:0:1;appm:0:1;reset:0;reserve:1:9000:1;resizei:1:20000" % doubled("appc", 1, 12))
    return out


def run_area(ctx):
    ctx.prove(["Qentem.Props.C14"], THEOREMS)
    drv = build_driver_all_areas(ctx)
    # all harness builds at once (g++ runs outside the GIL)
    from concurrent.futures import ThreadPoolExecutor
    no_hook = [f for f in core.SAN_FLAGS if not f.startswith("-D" + core.GUARD)]
    have_avx2 = "avx2" in open("/proc/cpuinfo").read()
    with ThreadPoolExecutor(max_workers=4) as ex_:
        f_x = ex_.submit(ctx.build_harness, "seq_harness.cpp", None, "san_exact")
        f_s = ex_.submit(ctx.build_harness, "seq_harness.cpp", no_hook, "san_std")
        f_sse = ex_.submit(ctx.build_harness, "seq_harness.cpp", core.SAN_FLAGS + ["-DQENTEM_SSE2=1", "-msse2"], "san_sse2")
        f_avx = ex_.submit(ctx.build_harness, "seq_harness.cpp", core.SAN_FLAGS + ["-DQENTEM_AVX2=1", "-mavx2"], "san_avx2") if have_avx2 else None
        h_x, h_s, h_sse, h_avx = f_x.result(), f_s.result(), f_sse.result(), (f_avx.result() if f_avx else None)
    if not (drv and h_x and h_s and h_sse):
        return
    rng = ctx.rng
    flags = {"array_self_appc": True, "stream_self_shl": True, "string_stepback0": True}   # all repaired (5f6da32, c1884a5, 6bc11c7)
    flags.update(alias_flags(ctx, h_x, drv))
    ctx.c14_flags = flags
    from checks import _c14_api
    ctx.notes.append({"public_api_not_driven": _c14_api.audit()[1], "alias_families_enabled": {k: v for k, v in flags.items()}})
    T = ctx.thorough
    corpus = corpus_lines()

    def of_kind(prefix):
        return [l for l in corpus if l.startswith(prefix + " ")]

    # ---- Array<int>, Array<String<char>> --------------------------------------------------------
    alpha = array_alphabet(flags)
    ex = exhaustive(alpha, 3 if not T else 4, ["push:0:1;push:0:2;push:1:3"]) + exhaustive(alpha, 2 if not T else 3, [""])
    # kinds: int; String<char> (owning); Plain = trivially copyable struct whose value-initialised state is not
    # all-zero bytes (default member initialisers) — every initialising operation must construct, not zero-fill
    init_ops = ["ctorn:0:3:1;push:0:9;resizei:0:6;reserve:1:4:1;appc:0:1;resizei:0:2;resizei:0:5",
                "reserve:0:5:1;push:0:1;ctorc:1:0;resizei:1:9;ctorn:2:1:1;appm:2:1;compress:2;resizei:2:12",
                "push:0:4;resizei:0:1;resizei:0:3;asgc:1:0;reserve:0:2:1;appc:1:0;ctorn:0:7:1;pushi:1:2" if flags["array_alias_item"] else "push:0:4;resizei:0:3"]
    for kind in ("i", "s", "p"):
        progs = list(ex) if kind == "i" or T else ex[::3]
        if kind == "s":
            progs = [p for p in progs if "appm:0:0" not in p]
        for _ in range((3000 if kind != "p" else 1200) if not T else 40000):
            progs.append(gen_array(rng, rng.choice([3, 8, 20, 40] if not T else [8, 20, 60, 120]), kind, flags))
        lines = [l for l in of_kind("seq-array") if l.split(" ")[1] == kind] + ["seq-array %s %s" % (kind, p) for p in init_ops + progs]
        run_stream_of_programs(ctx, "array<%s>" % {"i": "int", "s": "String<char>", "p": "Plain{x=7,y=0x5A5A}"}[kind], "array", h_x, drv, lines)
    # ---- String ---------------------------------------------------------------------------------
    alpha = string_alphabet(flags)
    for w in ("1", "2", "4"):
        depth = (3 if w == "1" else 2) if not T else 3
        progs = exhaustive(alpha, depth - 1, ["ctoru:0:32,97,98,32;ctoru:1:99"]) + exhaustive(alpha, 2, [""])
        if w == "1" or T:
            progs += exhaustive(alpha[::2], depth, ["ctoru:0:32,97,98,32;ctoru:1:99"])
        for _ in range(2500 if not T else 30000):
            progs.append(gen_string(rng, rng.choice([3, 8, 20, 40] if not T else [8, 20, 60, 120]), w, flags))
        progs += trim_programs(w)     # every unit value (char) / every white-space alias (wide) at both ends of a trimmed string
        lines = [l for l in of_kind("seq-string") if l.split(" ")[1] == w] + ["seq-string %s %s" % (w, p) for p in progs]
        run_stream_of_programs(ctx, "string<%s>" % w, "string", h_x, drv, lines)
    # ---- StringStream, both capacity policies ---------------------------------------------------
    alpha = stream_alphabet(flags)
    for pol, exe in (("x", h_x), ("s", h_s)):
        for w in ("1", "2", "4"):
            progs = exhaustive(alpha, 2, ["appu:0:0:97,98,99;pushch:0:1:100", ""])
            if (w == "1" and pol == "x") or T:
                progs += exhaustive(alpha[::2], 3, ["appu:0:0:97,98,99;pushch:0:1:100"])
            for _ in range((2500 if pol == "x" else 800) if not T else 30000):
                progs.append(gen_stream(rng, rng.choice([3, 8, 20, 40] if not T else [8, 20, 60, 120]), w, flags))
            lines = [l for l in of_kind("seq-stream") if l.split(" ")[1] == w and l.split(" ")[2] == pol] + ["seq-stream %s %s %s" % (w, pol, p) for p in progs]
            run_stream_of_programs(ctx, "stream<%s>(%s)" % (w, "exact-fit" if pol == "x" else "shipped policy"), "stream", exe, drv, lines)
    # ---- StringView -----------------------------------------------------------------------------
    for w in ("1", "2", "4"):
        progs = exhaustive(VIEW_ALPHABET, 2 if not T else 3, ["ctorp:0:97,98,99:3;ctorz:1:97,98", ""])
        for _ in range(1500 if not T else 20000):
            progs.append(gen_view(rng, rng.choice([3, 8, 20]), w))
        lines = [l for l in of_kind("seq-view") if l.split(" ")[1] == w] + ["seq-view %s %s" % (w, p) for p in progs]
        run_stream_of_programs(ctx, "view<%s>" % w, "view", h_x, drv, lines)
    # ---- large copies inside the containers, scalar / SSE2 / AVX2 builds ---------------------------
    big = large_programs()
    for bname, exe in (("scalar", h_x), ("sse2", h_sse), ("avx2", h_avx)):
        if not exe:
            continue
        for kind in ("array", "string", "stream"):
            lines = [l for l in big if l.startswith("seq-" + kind + " ")]
            run_stream_of_programs(ctx, "large-%s(%s)" % (kind, bname), kind, exe, drv, lines, jobs=1)
    # ---- StringUtils::TrimLeft / TrimRight / Trim called directly --------------------------------
    run_trim_direct(ctx, h_x, drv)
    # ---- Memory::Copy / SetToZero ---------------------------------------------------------------
    run_mem(ctx, drv)
    ctx.assumptions += ["sizes are Nat in the model: no 32-bit SizeT wrap-around (all sizes in the runs are < 2^13)",
                        "char comparisons use units < 128 (signedness of char is C15's subject)",
                        "cells handed out uninitialised (String(len), Buffer, SetLength) are written by the caller before they are read",
                        "Array<owning> += Move(itself) is not exercised (it leaks its items; self-move is outside the modelled contract)"]


def run(ctx):
    run_area(ctx)
    from checks import _arraytree
    _arraytree.run(ctx)


FINISH = dict(level="proof",
              rule="programs over a table of three objects: exhaustive over a 25-45 operation alphabet up to depth 3 (quick) / 4 (thorough) from empty and non-empty prologues, then random programs of 3-40 (quick) / 8-120 (thorough) boundary-biased operations; dump of every register after every step; Array<int>, Array<String<char>>, String/StringStream/StringView x char/char16_t/char32_t, StringStream under exact-fit and shipped capacity policy; Memory::Copy/SetToZero: boundary-heavy lengths (quick) / all lengths 0..4096 (thorough) x 32x32 misalignments x scalar/SSE2/AVX2",
              checker_cmd="cd lean && lake build Qentem.Props.C14 && lake env lean <#print axioms of the listed theorems>")
