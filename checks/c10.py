"""C10 — number to text equals the reference formatting for every value and precision."""
from vlib import core
from checks import _numtostr as N

META = {
    "property_id": "C10",
    "technique": "Lean 4 model of Digit::NumberToString (integers, realToString, the three layouts, in-place rounding with checked writes) + a reference formatter written from ISO C / IEEE 754 (exact rational arithmetic); kernel-checked theorems for the integer path, tables, special values and append-only; model = implementation = reference compared on boundary-biased samples x precision 0..40 x 3 formats",
    "level": "proof",
    "design_ref": "DESIGN.md §6 C10, notes/design-numtostr.md",
    "text": "Proved for every input (kernel-checked): FormatEqSpec holds (theorem format_eq_spec) - for every double and every float bit pattern, every precision 0..40, each of Default/Fixed/SemiFixed and any prior stream contents, the model of Digit::NumberToString appends exactly the reference text (%.{p}g, %.{p}f, %.{p}f stripped; inf/-inf/nan) written from IEEE 754 / ISO C in exact rational arithmetic, and no guarded access faults. Also: the integer path prints exactly the decimal digits of every 8/16/32/64-bit value incl. the minimum values; the tables are the exact powers of five / digit pairs; the digit estimate equals the digit count of 2^e; the digit run handed to the formatters is the exact decimal expansion cut at a known place plus a sticky flag (digits_exact_or_sticky). What a run adds: model = C++ text on the sampled domain (correspondence), C++ text = Lean reference and = snprintf on millions of patterns.",
    "note": "Trusted: Lean kernel; axioms within {propext, Quot.sound, Classical.choice}; g++ as table translator; the correspondence harness (ASan/UBSan, exact-fit stream growth so a poke or read past the stream's capacity is a sanitizer report) for model = implementation; the reference FmtSpec as the reading of printf. BigInt word arithmetic is taken as exact integer arithmetic (property C19). Precision > 40 is outside the statement.",
}

THEOREMS = [
    "Qentem.Props.C10.tables_ok_digits",
    "Qentem.Props.C10.tables_ok_powers",
    "Qentem.Props.C10.tables_ok_real_info",
    "Qentem.Props.C10.tables_ok_strings",
    "Qentem.Props.C10.int_to_string_exact_unsigned",
    "Qentem.Props.C10.int_to_string_exact_signed",
    "Qentem.Props.C10.int_to_string_reversed",
    "Qentem.Props.C10.big_int_to_string_exact",
    "Qentem.Props.C10.append_only_int",
    "Qentem.Props.C10.append_only_real",
    "Qentem.Props.C10.special_values",
    "Qentem.Props.C10.special_values_text",
    "Qentem.Props.C10.format_eq_spec_partial",
    "Qentem.Props.C10.format_eq_spec_integers",
    "Qentem.Props.C10.integer_valued_of_big",
    "Qentem.Props.C10.format_eq_spec_integers32",
    "Qentem.Props.C10.integer_valued_of_big32",
    "Qentem.Props.C10.format_eq_spec_short_fractions",
    "Qentem.Props.C10.format_eq_spec_integers_default",
    "Qentem.Props.C10.format_eq_spec_integers_default_all",
    "Qentem.Props.C10.format_eq_spec_fixed_ge1",
    "Qentem.Props.C10.format_eq_spec_default_large",
    "Qentem.Props.C10.format_eq_spec_default_ge1",
    "Qentem.Props.C10.format_eq_spec_ge1",
    "Qentem.Props.C10.format_eq_spec_fixed_all",
    "Qentem.Props.C10.format_eq_spec_double",
    "Qentem.Props.C10.format_eq_spec_float",
    "Qentem.Props.C10.format_eq_spec",
    "Qentem.Props.C10.digit_estimate_exact",
    "Qentem.Props.C10.digits_exact_or_sticky",
    "Qentem.Props.C10.digits_exact_or_sticky32",
    "Qentem.Props.C10.format_eq_spec_witnesses",
]
OPEN = []


def real_line(kind, bits, w="1", pre=None):
    return "n2sra %s %0*x %s %s" % (kind, 16 if kind == "d" else 8, bits, w, core.show_units(pre or []))


def single(kind_hex_w_pre, p, f):
    t = kind_hex_w_pre.split(" ")
    return "n2sr %s %s %d %d %s %s" % (t[1], t[2], p, f, t[3], t[4])


def oracle_reals(ctx, drv, lines, impl, label):
    """S3: the C++ text against the Lean reference formatter (FmtSpec) for every (precision, format)."""
    idx = [i for i, o in enumerate(impl) if not o.startswith("FAULT")]
    slines = ["n2sspeca %s %s" % tuple(lines[i].split(" ")[1:3]) for i in idx]
    spec, _ = core.run_lines_parallel(drv, slines, jobs=14, env=None)
    bad = 0
    for j, i in enumerate(idx):
        if impl[i] == spec[j]:
            continue
        a, b = impl[i].split(";"), spec[j].split(";")
        for k in range(max(len(a), len(b))):
            x = a[k] if k < len(a) else "<missing>"
            y = b[k] if k < len(b) else "<missing>"
            if x != y:
                p, f = k // 3, k % 3
                bad += 1
                key = "stream:prefix-disturbed" if x == "prefix-disturbed" else "spec:" + N.FMT_NAMES[f]
                ctx.fail(key, "%s precision %d of %s: C++ prints '%s', the reference (ISO C %%.%d%s%s) is '%s'" % (
                    N.FMT_NAMES[f], p, lines[i].split(" ")[1] + ":" + lines[i].split(" ")[2], N.text(x), p, "g" if f == 0 else "f",
                    " stripped" if f == 2 else "", N.text(y)),
                    {"line": single(lines[i], p, f), "expected_units": y, "actual_units": x, "expected": N.text(y), "actual": N.text(x)})
                break
    ctx.count("oracle:" + label, len(idx) * N.NPF, len(set(slines)) * N.NPF)
    return bad


def pinpoint_fault(exe, line):
    """an n2sra line died under the sanitizer: find the first (precision, format) that does"""
    singles = [single(line, p, f) for p in range(41) for f in range(3)]
    first = []

    def stop(i, kind, err):
        first.append((i, kind, err))
        raise N.TooManyFaults()
    try:
        core.run_lines(exe, singles, timeout_per_batch=90, on_fault=stop)
    except N.TooManyFaults:
        i, kind, err = first[0]
        return singles[i], kind, err
    return line, None, ""


def check_local_literals(ctx):
    """Function-local literals the compiler cannot reflect: the BigInt width expression of realToString
    and the mid-loop shift bound are read from the source text and compared with what the dumper /
    the model assume.  A difference breaks the tie (the run then relies on S2/S3 only)."""
    import os
    import re
    src = open(os.path.join(core.INCLUDE, "Digit.hpp")).read()
    m = re.search(r"using\s+BigIntSys\s*=\s*BigInt<SystemIntType,\s*\(\(Info_T::Bias \+ 1U\) \+ \(number_size \* 8U \* (\d+)U\)\)>", src)
    gen = open(os.path.join(core.LEAN_DIR, "Qentem", "Generated", "NumToStr.lean")).read()
    g = re.search(r"def bigIntWidthFactor : Nat := (\d+)", gen)
    if not m or not g or m.group(1) != g.group(1):
        ctx.proof_broken.append("realToString's BigInt width expression is not the one the constants dumper repeats (source factor %s, dumper %s)" % (
            m.group(1) if m else "?", g.group(1) if g else "?"))
    if not re.search(r"const SizeT32 max_index = b_int\.MaxIndex\(\);", src):
        ctx.proof_broken.append("realToString's mid-loop shift bound (max_index) is not b_int.MaxIndex() as modelled")
    if not re.search(r"\(\(\(exp_actual_value \* 30103U\) / 100000\) \+ 1U\)", src):
        ctx.proof_broken.append("realToString's digits estimate is not (exp*30103)/100000+1 as modelled")


def run(ctx):
    ctx.gen_constants(["NumToStr"])
    check_local_literals(ctx)
    ctx.prove(["Qentem.Props.C10"], THEOREMS, open_statements=OPEN)
    drv = ctx.build_driver()
    exe = ctx.build_harness("numtostr_harness.cpp")
    fast = ctx.build_harness("numtostr_harness.cpp", flags=core.FAST_FLAGS, tag="fast")
    # the same headers configured with a 64-bit size type (QENTEM_SIZE_T is an override point of QCommon.hpp)
    exe64 = ctx.build_harness("numtostr_harness.cpp", flags=core.FAST_FLAGS + ["-DQENTEM_SIZE_T=unsigned long long"], tag="size64")
    if not (drv and exe and fast):
        return
    rng = ctx.rng

    # ---- corpus (witnesses of the repaired defects) first -------------------------------------
    corpus = N.corpus_lines("C10")
    if getattr(ctx, "replay", None):
        import json
        try:
            rp = json.load(open(ctx.replay))
            for f in rp.get("failures", []):
                ln = f.get("replay", {}).get("line")
                if ln:
                    corpus.insert(0, ln)
            for b in rp.get("broken_correspondence", []):
                for e in b.get("examples", []):
                    corpus.insert(0, e["input"])
        except Exception as e:  # a replay file we cannot read is an infrastructure error, not a pass
            ctx.infra_errors.append("cannot read replay %s: %s" % (ctx.replay, e))

    def run_real_lines(lines, label):
        impl, faults = N.run_guarded(ctx, exe, lines, label)
        if impl is None:
            for _, kind, err in faults[:3]:
                ctx.fail("fault:" + kind, "sanitizer fault / hang in NumberToString during stream " + label, {"stream": label, "stderr": err[-3000:]})
            return ["FAULT abandoned"] * len(lines)
        model, _ = core.run_lines_parallel(drv, lines, jobs=14, env=None)
        for i, kind, err in faults:
            ln, k2, e2 = (lines[i], kind, err)
            if lines[i].startswith("n2sra"):
                ln, k2, e2 = pinpoint_fault(exe, lines[i])
                k2 = k2 or kind
                e2 = e2 or err
            ctx.fail("fault:" + k2, "sanitizer fault in NumberToString on " + ln, {"line": ln, "stderr": e2[-3000:]})
        ctx.correspond(label, lines, impl, model)
        ctx.cov["evaluations"] += len(lines) * (N.NPF - 1)
        return impl

    clines_a = [l for l in corpus if l.startswith("n2sra ")]
    clines_r = [l for l in corpus if l.startswith("n2sr ")]
    clines_i = [l for l in corpus if l.startswith("n2si ")]
    if clines_a:
        impl = run_real_lines(clines_a, "corpus(n2sra)")
        oracle_reals(ctx, drv, clines_a, impl, "corpus")
    if clines_r:
        impl, faults = core.run_lines(exe, clines_r)
        model, _ = core.run_lines(drv, clines_r, env=None)
        for i, kind, err in faults:
            ctx.fail("fault:" + kind, "sanitizer fault in NumberToString on " + clines_r[i], {"line": clines_r[i], "stderr": err[-3000:]})
        ctx.correspond("corpus(n2sr)", clines_r, impl, model)
        sl = ["n2sspec %s %s %s %s" % tuple(l.split(" ")[1:5]) for l in clines_r]
        spec, _ = core.run_lines(drv, sl, env=None)
        for l, o, s in zip(clines_r, impl, spec):
            if o != s and not o.startswith("FAULT"):
                f = int(l.split(" ")[4])
                ctx.fail("spec:" + N.FMT_NAMES[f], "witness %s: C++ prints '%s', reference '%s'" % (l, N.text(o), N.text(s)),
                         {"line": l, "expected": N.text(s), "actual": N.text(o)})

    # ---- reals: doubles and floats, every precision 0..40 x 3 formats -------------------------
    dgroups = N.double_values(rng, ctx.thorough)
    fgroups = N.float_values(rng, ctx.thorough)
    dist = {}
    for kind, groups in (("d", dgroups), ("f", fgroups)):
        lines = []
        for g, vals in groups:
            dist["%s:%s" % (kind, g)] = len(vals)
            lines += [real_line(kind, b) for b in vals]
        lines = N._dedupe(lines)
        impl = run_real_lines(lines, "real(%s)" % kind)
        oracle_reals(ctx, drv, lines, impl, "real(%s)" % kind)
        # configuration independence: a build with a 64-bit size type must print the same texts
        if exe64:
            pick = [i for i, l in enumerate(lines) if True]
            keep = set(rng.sample(pick, min(len(pick), 6000 if ctx.thorough else 900)))
            for g, vals in groups:
                if g in ("special", "nice"):
                    want = set(real_line(kind, b) for b in (vals if ctx.thorough else vals[::4]))
                    keep |= set(i for i, l in enumerate(lines) if l in want)
            idx = sorted(keep)
            sl = [lines[i] for i in idx]
            o64, _ = N.run_guarded(ctx, exe64, sl, "size64(%s)" % kind, env=None)
            if o64 is not None:
                for i, o in zip(idx, o64):
                    if o != impl[i] and not impl[i].startswith("FAULT"):
                        loc = N.locate(None, o, impl[i])
                        ctx.fail("config:size64", "text differs when the library is built with a 64-bit QENTEM_SIZE_T: " + lines[i],
                                 {"line": single(lines[i], loc[0], loc[1]) if loc else lines[i],
                                  "actual": N.text(loc[2]) if loc else "", "expected": N.text(loc[3]) if loc else ""})
                ctx.count("size64-build(%s)" % kind, len(sl) * N.NPF, len(set(sl)) * N.NPF)
        # wide characters and non-empty destination streams (prefix must survive)
        pool = [b for g, vals in groups for b in vals]
        sub = rng.sample(pool, min(len(pool), 4000 if ctx.thorough else 500))
        wl = []
        for b in sub:
            wl.append(real_line(kind, b, rng.choice(N.WIDTHS), N.random_pre(rng)))
            if rng.random() < 0.3:
                wl.append(real_line(kind, b, rng.choice(["2", "4", "W"]), []))
        # every character width (char16_t, char32_t and wchar_t have their own digit / zero tables) on the values
        # that produce every run length of padding zeros, empty and pre-filled streams; thorough: plus a larger sample
        pad = N.padding_doubles() if kind == "d" else N.padding_floats()
        if ctx.thorough:
            pad = pad + rng.sample(pool, min(len(pool), 3000))
        for b in pad:
            for w in ("2", "4", "W"):
                wl.append(real_line(kind, b, w, []))
            if ctx.thorough or rng.random() < 0.25:
                wl.append(real_line(kind, b, rng.choice(["2", "4", "W"]), N.random_pre(rng)))
        impl = run_real_lines(wl, "real-prefilled(%s)" % kind)
        for l, o in zip(wl, impl):
            if "prefix-disturbed" in o:
                loc = N.locate(None, o, o.replace("prefix-disturbed", "x"))
                ctx.fail("stream:prefix-disturbed", "destination stream contents changed by NumberToString: " + l,
                         {"line": single(l, loc[0], loc[1]) if loc else l})
        # the texts must not depend on the character width or on the prefix: compare with the w=1, empty-stream text
        base = [real_line(kind, int(l.split(" ")[2], 16)) for l in wl]
        bimpl, _ = N.run_guarded(ctx, exe, base, "width-prefix-independence")
        if bimpl is None:
            bimpl = impl
        for l, o, bo in zip(wl, impl, bimpl):
            if o != bo and not o.startswith("FAULT") and "prefix-disturbed" not in o:
                loc = N.locate(None, o, bo)
                ctx.fail("stream:width-or-prefix-dependent", "text differs from the char/empty-stream text: " + l,
                         {"line": single(l, loc[0], loc[1]) if loc else l, "actual": N.text(loc[2]) if loc else "", "expected": N.text(loc[3]) if loc else ""})
        ctx.count("width-prefix-independence(%s)" % kind, len(wl) * N.NPF, len(set(wl)) * N.NPF)

    # ---- integers ------------------------------------------------------------------------------
    ic = N.int_cases(rng, ctx.thorough)
    il = []
    for k, (bits, sg, v) in enumerate(ic):
        w = "1" if k % 5 else rng.choice(["2", "4", "W"])
        pre = N.random_pre(rng) if k % 7 == 0 else []
        il.append("n2si %d %d %d %s %s" % (bits, sg, v, w, core.show_units(pre)))
    il += clines_i
    impl, faults = N.run_guarded(ctx, exe, il, "integer")
    if impl is None:
        impl = ["FAULT abandoned"] * len(il)
    model, _ = core.run_lines_parallel(drv, il, jobs=14, env=None)
    for i, kind, err in faults:
        ln = il[i] if i is not None else "(stream abandoned)"
        ctx.fail("fault:" + kind, "sanitizer fault in NumberToString (integer) on " + ln, {"line": ln, "stderr": err[-3000:]})
    ctx.correspond("integer", il, impl, model)
    for l, o in zip(il, impl):
        if o.startswith("FAULT"):
            continue
        want = core.show_units(core.units(str(int(l.split(" ")[3]))))
        if o != want:
            ctx.fail("int:" + ("prefix-disturbed" if o == "prefix-disturbed" else "wrong-text"),
                     "integer %s prints '%s'" % (l, N.text(o)), {"line": l, "expected": l.split(" ")[3], "actual": N.text(o)})
    rl = ["n2sir %d %d" % (bits, v) for (bits, sg, v) in ic if sg == 0][::3]
    impl, faults = N.run_guarded(ctx, exe, rl, "integer-reversed")
    if impl is None:
        impl = ["FAULT abandoned"] * len(rl)
    model, _ = core.run_lines_parallel(drv, rl, jobs=14, env=None)
    for i, kind, err in faults:
        ln = rl[i] if i is not None else "(stream abandoned)"
        ctx.fail("fault:" + kind, "sanitizer fault in IntToString<true> on " + ln, {"line": ln, "stderr": err[-3000:]})
    ctx.correspond("integer-reversed", rl, impl, model)
    for l, o in zip(rl, impl):
        want = core.show_units(core.units(l.split(" ")[2][::-1]))
        if o != want and not o.startswith("FAULT"):
            ctx.fail("int:wrong-text", "reversed integer %s gives '%s'" % (l, N.text(o)), {"line": l})

    # ---- API audit (checks/_c09_api.py): the remaining public forms, judged against the forms driven above ---------
    # NumberToString<true>(stream, v): the sign, then the digits reversed (oracle: the decimal text)
    sl = ["n2sirs %d %d %d" % (bits, sg, v) for (bits, sg, v) in ic][::4]
    impl, faults = N.run_guarded(ctx, exe, sl, "integer-reversed-stream")
    if impl is None:
        impl = ["FAULT abandoned"] * len(sl)
    for i, kind, err in faults:
        ln = sl[i] if i is not None else "(stream abandoned)"
        ctx.fail("fault:" + kind, "sanitizer fault in NumberToString<true> on " + ln, {"line": ln, "stderr": err[-3000:]})
    okc = 0
    for l, o in zip(sl, impl):
        v = int(l.split(" ")[3])
        want = core.show_units(core.units(("-" if v < 0 else "") + str(abs(v))[::-1]))
        if o.startswith("FAULT"):
            continue
        okc += 1
        if o != want:
            ctx.fail("int:wrong-text", "NumberToString<true> %s gives '%s'" % (l, N.text(o)), {"line": l, "expected": N.text(want)})
    ctx.count("NumberToString<true>(stream, integer) = sign + reversed digits", len(sl), okc)
    # every way of giving the format: omitted, RealFormatInfo{}, {prec}, {type}, = prec, = type  ==  the explicit {prec, type}
    fl, want_l = [], []
    sample = [0x3FF8000000000000, 0x400921FB54442D18, 0x3FB999999999999A, 0x7FEFFFFFFFFFFFFF, 0x0000000000000001, 0xC05EDCCCCCCCCCCD, 0x4340000000000000]
    for b in sample:
        for kind, bb in (("d", b), ("f", (b >> 32) & 0xFFFFFFFF)):
            for form, (pr, fm) in ((0, (6, 0)), (1, (6, 0))):
                fl.append("n2sfi %s %x %d 6 0" % (kind, bb, form)); want_l.append("n2sr %s %x %d %d 1 -" % (kind, bb, pr, fm))
            for pr in (0, 1, 9, 17, 40):
                fl.append("n2sfi %s %x 2 %d 0" % (kind, bb, pr)); want_l.append("n2sr %s %x %d 0 1 -" % (kind, bb, pr))
                fl.append("n2sfi %s %x 4 %d 0" % (kind, bb, pr)); want_l.append("n2sr %s %x %d 0 1 -" % (kind, bb, pr))
            for fm in (0, 1, 2):
                fl.append("n2sfi %s %x 3 6 %d" % (kind, bb, fm)); want_l.append("n2sr %s %x 6 %d 1 -" % (kind, bb, fm))
                fl.append("n2sfi %s %x 5 6 %d" % (kind, bb, fm)); want_l.append("n2sr %s %x 6 %d 1 -" % (kind, bb, fm))
    got, faults = N.run_guarded(ctx, exe, fl, "format-forms")
    ref, _ = N.run_guarded(ctx, exe, want_l, "format-forms-ref")
    if got is not None and ref is not None:
        okc = 0
        for l, a, b in zip(fl, got, ref):
            if a.startswith("FAULT") or b.startswith("FAULT"):
                continue
            okc += 1
            if a != b:
                ctx.fail("real:format-form", "RealFormatInfo form %s gives '%s', the explicit {precision, type} form '%s'" % (l, N.text(a), N.text(b)), {"line": l})
        ctx.count("RealFormatInfo construction/assignment forms = explicit {precision, type}", len(fl), okc)

    # ---- S3 second opinion: snprintf inside the harness, uniform bit patterns in bulk ----------
    per = 120000 if ctx.thorough else 5000
    sets = [("--fmt-doubles", ctx.seed * 1000 + k, per) for k in range(16)]
    # floats: every subnormal pattern (thorough) / every 257th (quick), and a stride through all 2^32 patterns
    sub_step = 1 if ctx.thorough else 257
    chunk = (1 << 23) // 16
    sets += [("--fmt-floats", k * chunk, (k + 1) * chunk, sub_step) for k in range(16)]
    all_step = 4099 if ctx.thorough else 1048583
    span = (1 << 32) // 16
    sets += [("--fmt-floats", k * span + (ctx.seed % 97), (k + 1) * span, all_step) for k in range(16)]
    if getattr(ctx, "_harness_dead", False):
        sets = []       # the sanitized harness already hung or kept faulting: the verdict is a failure, do not wait for the bulk
    tested = 0
    for a, rc, out in N.run_bulk(fast, sets, timeout=3000 if ctx.thorough else 400):
        done = [l for l in out.split("\n") if l.startswith("done")]
        if rc != 0 or not done:
            ctx.infra_errors.append("bulk snprintf run %s failed rc=%s: %s" % (a, rc, out[-500:]))
            continue
        for l in out.split("\n"):
            if l.startswith("fail d ") or l.startswith("fail f "):
                t = l.split(" ")
                ctx.fail("snprintf:" + N.FMT_NAMES[int(t[4])], "differs from snprintf: " + l,
                         {"line": "n2sr %s %s %s %s 1 -" % (t[1], t[2], t[3], t[4]), "detail": l})
        tested += int(done[0].split("tested=")[1].split(" ")[0])
    ctx.count("snprintf-bulk(uniform doubles; subnormal floats %s; float stride; not sanitized)" % ("exhaustive" if ctx.thorough else "every 257th"), tested, tested)
    ctx.cov["value_distribution"] = dist
    ctx.assumptions += [
        "BigInt<uint64,1216/256> holds the exact integer (C19); the model checks every product / left shift against the declared width",
        "code units are Nat; char/char16_t/char32_t exercised by the harness; texts proved/observed independent of the width",
        "SizeT is 32-bit; precision <= 40 (the property's range); larger precisions are outside the modelled domain",
    ]
    ctx.notes += ["format_eq_spec is proved for the model; the run adds model = C++ (correspondence) and C++ = reference = snprintf on the sampled domain",
                  "one n2sra/n2sspeca line = 123 formattings (precision 0..40 x Default/Fixed/SemiFixed)"]


FINISH = dict(level="proof",
              rule="doubles and floats: specials, every power of two (+-1 ulp), every power of ten (+-2 ulp), every binade, subnormals, short decimals / exact ties / dyadic fractions / runs of nines, uniform bit patterns; each x precision 0..40 x 3 formats; wide characters and pre-filled exact-fit streams; integers: all 8- and 16-bit values, 32/64-bit powers of two and ten +-1, extremes, random; non-trivial = distinct input lines",
              checker_cmd="cd lean && lake build Qentem.Props.C10 && lake env lean <#print axioms of the listed theorems>")
