"""C05 — parsing any byte string as JSON is memory-safe and terminates."""
import itertools
from vlib import core, jsongen
from checks import _json

META = {
    "property_id": "C05",
    "technique": "Lean 4 theorem in checked semantics (every read is bounds-checked in the model; induction over the mutual recursion with an explicit fuel bound) + correspondence with JSON::Parse on exact-size buffers under ASan/UBSan",
    "level": "proof",
    "design_ref": "DESIGN.md §6 C05",
    "text": "Kernel-checked: for every input array the parser model, in which each content[offset] is a bounds-checked read and recursion/loops consume fuel, returns a value — no out-of-range read and 3·length+3 fuel is never exhausted (parse_no_fault), for any string/number sub-routines meeting the stated contracts, and those contracts are proved for the UnEscape and StringToNumber models. The model is tied to the C++ by running both on grammar documents, all their prefixes, byte mutations, fragment soups, NUL-containing and non-terminated exact-size buffers in four character widths and, exhaustively, on all short strings over the structural alphabet; any sanitizer report is a violation with the input as replay.",
    "note": "Trusted: Lean kernel; axioms ⊆ {propext, Quot.sound, Classical.choice}; ASan/UBSan as the definition of 'fault' on the C++ side; the harness. Stack depth is not modelled: nesting 512…100000 is executed on the real code and reported as an observation.",
}

THEOREMS = [
    "Qentem.Props.JsonTables.notation_tables",
    "Qentem.Props.JsonTables.replacement_matches_escapeJson",
    "Qentem.Props.C05.parse_no_fault",
    "Qentem.Props.C05.result_complete_or_undefined",
    "Qentem.Props.C05.fuel_bound",
    "Qentem.Props.C05.parse_no_fault_concrete",
    "Qentem.Json.jsonDeps_safe",
    "Qentem.Json.unEscapeDep_ok",
    "Qentem.Json.strToNumDep_ok",
]
OPEN = []


def run(ctx):
    drv, h = _json.setup(ctx, ["Qentem.Props.C05", "Qentem.Proofs.JsonDeps", "Qentem.Props.JsonTables"], THEOREMS, OPEN)
    if not h:
        return
    rng = ctx.rng
    items = []
    for ln in _json.corpus_lines("C05"):
        t = ln.split(" ")
        items.append((t[1], [int(x) for x in t[2].split(",")] if t[2] != "-" else []))
    # exhaustive short strings over the structural alphabet
    L = 4 if not ctx.thorough else 5
    for n in range(0, L + 1):
        for t in itertools.product(_json.STRUCT_ALPHABET, repeat=n):
            items.append(("1", list(t)))
    N = 1500 if not ctx.thorough else 30000
    for d in _json.gen_docs(ctx, N):
        w = rng.choice(_json.WIDTHS + ["W"])
        u = jsongen.render(d, rng, _json.WNUM[w])
        items.append((w, u))
        if rng.random() < 0.3:
            for k in range(len(u)):
                items.append((w, u[:k]))
        for _ in range(6):
            v = u
            for _ in range(rng.randrange(1, 4)):
                v = _json.mutate(rng, v)
            items.append((w, v))
    for _ in range(N * 4):
        w = rng.choice(_json.WIDTHS + ["W"])
        items.append((w, _json.soup(rng, rng.randrange(1, 12))))
    for _ in range(N):
        w = rng.choice(_json.WIDTHS + ["W"])
        n = rng.randrange(0, 24)
        items.append((w, _json.units_for_width([rng.choice([0, 34, 92, 117, 85, 123, 125, 91, 93, 44, 58, 48, 49, 45, 46, 101, 116, 110, 102, 32, 10, 0xD800, 0xDC00, 0xFFFF, 0x10FFFF, rng.randrange(0, 256), rng.randrange(0, 0x110000)]) for _ in range(n)], w)))
    # long escaped keys / strings (the scratch stream grows while a key or value is still read from it): the
    # document, a few truncations, and one mutation each
    for d in _json.long_string_docs(rng):
        w = rng.choice(_json.WIDTHS + ["W"])
        u = jsongen.render(d, rng, _json.WNUM[w])
        items.append((w, u))
        for k in (len(u) - 1, len(u) // 2, len(u) // 3, 40):
            items.append((w, u[:k]))
        items.append((w, _json.mutate(rng, u)))
    # very large strings and thousands of empty containers (one pass each; also through the SIMD builds below)
    huge_items = _json.huge_docs(rng, ctx.thorough)       # real code only (the list-based model is too slow there)
    # long whitespace runs at every alignment (vector-block boundaries in SIMD builds)
    ws_items = []
    for d in _json.gen_docs(ctx, N // 2):
        w = rng.choice(_json.WIDTHS + ["W"])
        u = _json.inject_ws(rng, jsongen.render(d, rng, _json.WNUM[w], spaces=False))
        ws_items.append((w, u))
        if rng.random() < 0.3:
            ws_items.append((w, u[:rng.randrange(len(u) + 1)]))
    for n in range(0, 70):
        ws_items.append(("1", [91, 49, 44] + [32] * n + [50, 93]))
        ws_items.append(("1", [91, 49, 44, 50, 93] + [32] * n))
        ws_items.append(("2", [32] * n + [123, 34, 97, 34] + [32] * (70 - n) + [58, 49, 125]))
    items += ws_items
    # nesting the model also runs (<= 600 levels)
    for depth in (1, 2, 64, 512, 600):
        items.append(("1", [91] * depth + [93] * depth))
        items.append(("1", [91] * depth))
        items.append(("2", ([123, 34, 97, 34, 58] * depth) + [49] + [125] * depth))
    lines = _json.parse_lines(items)
    impl, model = _json.run_both(ctx, drv, h, lines, "any-input")
    simd_lines = _json.parse_lines(ws_items) + [lines[i] for i in range(0, len(lines), 7)]
    # huge documents: valid by construction, so each must be accepted (not Undefined), without a fault, in the
    # scalar and in the SIMD builds, through the fresh-stream and the shared-stream entry point
    hl = _json.parse_lines(huge_items)
    hl = hl + ["jsparseS" + l[7:] for l in hl]
    ho, hf = core.run_lines_parallel(h, hl, jobs=8)
    for i, kind, err in hf:
        ctx.fail("fault:" + kind, "sanitizer fault on a huge valid document (%d units): %s…" % (len(hl[i]) // 3, hl[i][:120]), {"line": hl[i][:400] + "…", "units": hl[i].count(","), "stderr": err})
    for l, a in zip(hl, ho):
        if a == "U":
            ctx.fail("valid-rejected:huge", "a huge valid document was rejected (%d units): %s…" % (l.count(","), l[:120]), {"line": l[:400] + "…", "units": l.count(",")})
    ctx.count("huge-documents(real code)", len(hl), len(hl))
    simd_lines += hl[:len(hl) // 2]
    _json.simd_builds(ctx, h, simd_lines)
    for l, a in zip(lines, impl):
        if a.startswith("FAULT") or a == "U":
            continue
        toks = jsongen.tokens(a)
        if "U" in toks or "?" in toks:
            ctx.fail("partial-tree", "result is neither Undefined nor a complete value: %s -> %s" % (l[:300], a[:300]), {"line": l, "impl": a})
    # runtime observation only: deep nesting on the real code (default 8 MiB stack, ASan frames)
    deep = []
    for depth in ((512, 2000, 10000) if not ctx.thorough else (512, 2000, 10000, 50000, 100000)):
        deep.append(("1", [91] * depth + [93] * depth))
        deep.append(("1", ([123, 34, 97, 34, 58] * depth) + [49] + [125] * depth))
    dl = _json.parse_lines(deep)
    di, df = core.run_lines(h, dl)
    obs = []
    for (w, u), a in zip(deep, di):
        obs.append({"units": len(u), "result": a[:30]})
        if a.startswith("FAULT") and len(u) <= 2 * 600 * 5:
            ctx.fail("fault:deep-nesting", "nesting of at most 600 levels faulted: %d units -> %s" % (len(u), a), {"units": len(u), "first": u[:8]})
    ctx.notes.append({"deep_nesting_observation": obs})
    ctx.count("deep-nesting(observation)", len(dl), len(dl))


FINISH = dict(level="proof",
              rule="all strings of length <= 4 (quick) / 5 (thorough) over the structural alphabet [ ] { } \" \\ , : t 1 space u NUL; generated RFC documents, all prefixes of a third of them, 1-3 byte mutations, fragment soups, random units; widths 1/2/4/wchar_t; whitespace runs of 0..70 units at every structural position and after the document, also through SSE2 and AVX2 builds of the harness (compared with the scalar build); nesting up to 600 in both sides, deeper on the real code only; non-trivial = distinct input longer than 2 units",
              checker_cmd="cd lean && lake build Qentem.Props.C05 && lake env lean <#print axioms>")
