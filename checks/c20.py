"""C20 — code points encode to standard UTF-8/16/32 and \\u escapes decode to them."""
import glob
import itertools
import os
from vlib import core

META = {
    "property_id": "C20",
    "technique": "Lean 4 theorems over all Unicode scalar values (range split + linear arithmetic on the shift/mask encoders, "
                 "suffix induction on the un-escaper) + exhaustive model/implementation correspondence over all 1,112,064 scalar values",
    "level": "proof",
    "design_ref": "DESIGN.md §6 C20, notes/design-unicode.md",
    "text": "Kernel-checked theorems: for every scalar value the standard (strict, Table 3-7) UTF-8 decoder and the UTF-16 decoder read back "
            "the code point from what the encoder model emits, the UTF-8 length is the shortest form, the UTF-8 encoder equals Lean core's "
            "String.utf8EncodeChar on every Char, UTF-32 is the identity; four hex digits in either case have the positional value; a "
            "surrogate pair combines to 0x10000+(hi-D800)*400+(lo-DC00); a \\u escape (or pair) between plain text un-escapes to the text "
            "with the encoded code point in its place. The model is tied to Unicode::ToUTF, Digit::HexStringToNumber and JSONUtils::UnEscape "
            "by running both on every scalar value x 3 widths x {direct, lower-hex escape, upper-hex escape, inside a longer string}, on the "
            "non-scalar inputs, and on generated escape strings truncated at every position in exact-size buffers.",
    "note": "Trusted: Lean kernel; axioms ⊆ {propext, Quot.sound, Classical.choice}; g++ as constant translator; the correspondence harness "
            "(ASan/UBSan, exact-size buffers). The decoders on the specification side are written from the Unicode standard, and python's "
            "str.encode is used as a second, independent reference for the direct encodings.",
}

THEOREMS = [
    "Qentem.Props.C20.utf8_decode_encode_append",
    "Qentem.Props.C20.utf8_decode_encode",
    "Qentem.Props.C20.utf8_shortest_form",
    "Qentem.Props.C20.utf8_decode_encode_list",
    "Qentem.Props.C20.toUTF8_eq_core",
    "Qentem.Props.C20.toUTF8_eq_core_nat",
    "Qentem.Props.C20.utf16_decode_encode_append",
    "Qentem.Props.C20.utf16_decode_encode",
    "Qentem.Props.C20.utf16_length",
    "Qentem.Props.C20.utf16_decode_encode_list",
    "Qentem.Props.C20.utf32_encode",
    "Qentem.Props.C20.utf32_decode_encode",
    "Qentem.Props.C20.toUTF_decode",
    "Qentem.Props.C20.hex4_value",
    "Qentem.Props.C20.hex4_roundtrip",
    "Qentem.Props.C20.hexToNumber_hex4",
    "Qentem.Props.C20.hexLoopW_is_hexLoop",
    "Qentem.Props.C20.hex_value_any_width",
    "Qentem.Props.C20.surrogate_pair",
    "Qentem.Props.C20.high_surrogate_test",
    "Qentem.Props.C20.unEscape_never_faults",
    "Qentem.Props.C20.unEscapeA_eq_suffix_model",
    "Qentem.Props.C20.unescape_u_digits_in_context",
    "Qentem.Props.C20.unescape_pair_digits_in_context",
    "Qentem.Props.C20.unescape_u_in_context",
    "Qentem.Props.C20.unescape_u_decodes",
    "Qentem.Props.C20.unEscape_ret_le",
    "Qentem.Props.C20.unescape_tokens",
    "Qentem.Props.C20.unescape_tokens_eoi",
    "Qentem.Props.C20.unescape_text",
    "Qentem.Props.C20.unescape_text_decodes",
    "Qentem.Props.C20.toUTF_decode_list",
    "Qentem.Props.C20.constants_match",
]
BATCH = 512
WIDTHS = ("1", "2", "4")
MODES = ("d", "l", "u", "c")
ENC = {"1": "utf-8", "2": "utf-16-be", "4": "utf-32-be", "W": "utf-32-be"}
UNIT = {"1": 1, "2": 2, "4": 4, "W": 4}
JOBS = 14


def scalar_batches():
    for a, b in ((0, 0xD800), (0xE000, 0x110000)):
        lo = a
        while lo < b:
            hi = min(lo + BATCH, b)
            yield lo, hi
            lo = hi


def py_units(cp, w):
    """python's own encoder as an independent reference."""
    raw = chr(cp).encode(ENC[w])
    k = UNIT[w]
    return [int.from_bytes(raw[i:i + k], "big") for i in range(0, len(raw), k)]


def hexs(v, upper):
    s = "%04x" % v
    return [ord(c) for c in (s.upper() if upper else s)]


def esc_units(cp, rng, bigu=None, upper=None):
    """RFC 8259 §7 escape of a scalar value, each hex digit in a random case unless fixed."""
    def one(v):
        u = 85 if (bigu if bigu is not None else rng.random() < 0.15) else 117
        h = []
        for c in "%04x" % v:
            up = upper if upper is not None else rng.random() < 0.5
            h.append(ord(c.upper() if up else c))
        return [92, u] + h
    if cp < 0x10000:
        return one(cp)
    v = cp - 0x10000
    return one(0xD800 + (v >> 10)) + one(0xDC00 + (v & 0x3FF))


SIMPLE = {34: 34, 92: 92, 47: 47, 98: 8, 116: 9, 110: 10, 102: 12, 114: 13}
BOUNDARY_CP = [0, 1, 0x7F, 0x80, 0x7FF, 0x800, 0xFFF, 0x1000, 0xD7FF, 0xE000, 0xFFFD, 0xFFFF, 0x10000, 0x10001, 0x103FF, 0x10400,
               0x1F600, 0xFFFFF, 0x100000, 0x10FC00, 0x10FFFF]


def rand_scalar(rng):
    r = rng.random()
    if r < 0.25:
        return rng.choice(BOUNDARY_CP)
    if r < 0.45:
        return rng.randrange(0, 0x80)
    if r < 0.6:
        return rng.randrange(0x80, 0x800)
    if r < 0.8:
        cp = rng.randrange(0x800, 0x10000)
        return cp if not (0xD800 <= cp <= 0xDFFF) else 0xE000 + (cp & 0x7FF)
    return rng.randrange(0x10000, 0x110000)


def gen_wellformed(rng, w):
    """A JSON string body with a known denotation: (units, code points it denotes)."""
    units, cps = [], []
    maxu = {"1": 0x80, "2": 0xD800, "4": 0xD800, "W": 0xD800}[w]
    for _ in range(rng.randrange(0, 9)):
        r = rng.random()
        if r < 0.35:
            c = rng.randrange(0x20, maxu)
            if c in (34, 92):
                c = 65
            units.append(c); cps.append(c)
        elif r < 0.55:
            e = rng.choice(list(SIMPLE))
            units += [92, e]; cps.append(SIMPLE[e])
        else:
            cp = rand_scalar(rng)
            units += esc_units(cp, rng, bigu=False); cps.append(cp)
    return units, cps


def find_bad_cp(line, a, b):
    t = line.split(" ")
    lo = int(t[-2])
    ga, gb = a.split(";"), b.split(";")
    for k in range(min(len(ga), len(gb))):
        if ga[k] != gb[k]:
            return lo + k, ga[k], gb[k]
    return lo, a[:200], b[:200]


def run(ctx):
    ctx.gen_constants(["Unicode"])
    ctx.prove(["Qentem.Props.C20"], THEOREMS)
    drv = ctx.build_driver()
    exe = ctx.build_harness("unicode_harness.cpp")
    if not (drv and exe):
        return
    rng = ctx.rng

    # second build with String<Char_T> as the stream type.  The library itself only instantiates StringStream, so a tree
    # in which String no longer satisfies Stream_T is recorded, not reported.
    exe_str, msg = core.build_cpp("unicode_harness.cpp", flags=core.SAN_FLAGS + ["-DUNI_STRING_STREAM=1"], tag="san_str")
    if exe_str is None:
        ctx.notes.append("String<Char_T> is not usable as Stream_T of ToUTF/UnEscape on this tree (String-stream lines skipped): " + msg[-400:])

    def both(lines, jobs=JOBS, exe=exe):
        impl, faults = core.run_lines_parallel(exe, lines, jobs=jobs)
        model, _ = core.run_lines_parallel(drv, lines, jobs=jobs, env=None)
        for i, kind, err in faults:
            ctx.fail("fault:" + kind, "sanitizer fault on " + lines[i][:300], {"line": lines[i], "stderr": err})
        return impl, model

    # ---- corpus: witnesses of past defects / disagreements run first -------------------------------
    corpus = []
    for fn in sorted(glob.glob(os.path.join(core.VERIF, "corpus", "C20", "*.txt"))):
        for ln in open(fn):
            ln = ln.strip()
            if ln and not ln.startswith("#"):
                corpus.append(ln)
    if corpus:
        # "<line> => <expected output>" pins the property's answer for that input
        lines = [l.split(" => ")[0] for l in corpus]
        impl, model = both(lines, jobs=1)
        ctx.correspond("corpus", lines, impl, model)
        for l, o in zip(corpus, impl):
            if " => " in l and o != l.split(" => ")[1]:
                ctx.fail("corpus:" + l.split(" => ")[0].replace(" ", "_")[:60],
                         "corpus witness %s: expected %s, implementation gives %s" % (l.split(" => ")[0], l.split(" => ")[1], o),
                         {"line": l.split(" => ")[0], "expected": l.split(" => ")[1], "impl_output": o})

    # ---- S2 exhaustive: every scalar value x 3 widths x 4 modes ----------------------------------
    # A tree on which (nearly) every batch dies in the sanitizer costs one process restart per batch; a canary of every
    # 64th batch decides whether the sweep is run in full (always, on a tree without mass faults) or thinned (failing run).
    batches = list(scalar_batches())
    canary = [("uni_enc %s %d %d" % (w, lo, hi)) if m == "d" else ("uni_esc %s %s %d %d" % (w, m, lo, hi))
              for w in WIDTHS for m in MODES for lo, hi in batches[::64]]
    cimpl, _ = core.run_lines_parallel(exe, canary, jobs=JOBS)
    if sum(1 for o in cimpl if o.startswith("FAULT")) > 40:
        batches = batches[::32]
        ctx.notes.append("sanitizer faults on more than 40 of %d canary batches: exhaustive sweep thinned to every 32nd batch" % len(canary))
    lines = []
    for w in WIDTHS:
        for m in MODES:
            for lo, hi in batches:
                lines.append(("uni_enc %s %d %d" % (w, lo, hi)) if m == "d" else ("uni_esc %s %s %d %d" % (w, m, lo, hi)))
    nlines_oracle = len(lines)
    # capital \\U is accepted by the routine but is not RFC 8259: correspondence only, no oracle
    for w in WIDTHS:
        for lo, hi in batches[:: (8 if not ctx.thorough else 1)]:
            lines.append("uni_esc %s U %d %d" % (w, lo, hi))
    impl, model = both(lines)
    bad = ctx.correspond("all-scalars(3 widths x direct/lower/upper/in-context), %d code points per line" % BATCH, lines, impl, model)
    ncp = sum(hi - lo for lo, hi in batches)
    ctx.count("code points covered by the exhaustive stream (scalars x widths x modes)", ncp * len(WIDTHS) * len(MODES), ncp * len(WIDTHS) * len(MODES))
    for i in bad[:5]:
        cp, a, b = find_bad_cp(lines[i], impl[i], model[i])
        ctx.notes.append("first disagreement in '%s': cp=0x%X impl=%s model=%s" % (lines[i], cp, a, b))
    # S3 (a): the Lean spec decoders on what the C++ produced must give back cp (and the consumed length)
    olines, oidx = [], []
    for i, l in enumerate(lines[:nlines_oracle]):
        if impl[i].startswith("FAULT") or impl[i].startswith("bad"):
            continue
        t = l.split(" ")
        mode = "d" if t[0] == "uni_enc" else t[2]
        olines.append("uni_orc %s %s %s %s %s" % (t[1], mode, t[-2], t[-1], impl[i]))
        oidx.append(i)
    verdicts, _ = core.run_lines_parallel(drv, olines, jobs=JOBS, env=None)
    for j, v in enumerate(verdicts):
        if v != "ok":
            i = oidx[j]
            cpbad = v.split(" ")[1] if v.startswith("bad ") else "?"
            t = lines[i].split(" ")
            key = "oracle:%s-w%s" % ("direct" if t[0] == "uni_enc" else "escape", t[1])
            ctx.fail(key, "the standard decoder does not read back U+%04X from the implementation output (%s): %s" % (
                int(cpbad) if cpbad.isdigit() else 0, lines[i], v), {"line": lines[i], "verdict": v, "impl_output": impl[i][:4000]})
    ctx.count("spec-decoder oracle on implementation output (lines)", len(olines), len(olines))
    # S3 (b): python's encoder as a second reference for the direct encodings
    nref = 0
    for i, l in enumerate(lines):
        t = l.split(" ")
        if t[0] != "uni_enc" or impl[i].startswith("FAULT"):
            continue
        lo, hi = int(t[2]), int(t[3])
        exp = ";".join(core.show_units(py_units(cp, t[1])) for cp in range(lo, hi))
        nref += hi - lo
        if exp != impl[i]:
            cp, a, b = find_bad_cp(l, impl[i], exp)
            ctx.fail("pyref:w" + t[1], "ToUTF<%s>(U+%04X) = %s, python %s gives %s" % (t[1], cp, a, ENC[t[1]], b),
                     {"line": l, "cp": cp, "impl_output": a, "expected": b})
    ctx.count("python str.encode reference (direct encodings)", nref, nref)

    # ---- S2 malformed direct inputs: surrogates, > 10FFFF, 32-bit extremes (model = code as it is) --
    lines = []
    for w in WIDTHS + ("W",):
        for lo in range(0xD800, 0xE000, BATCH):
            lines.append("uni_enc %s %d %d" % (w, lo, lo + BATCH))
        for lo in (0x110000, 0x1FFF00, 0x200000 - 256, 0x3FFFF00, 0x4000000 - 128, 0x7FFFFF00, 0x80000000 - 128, 0xFFFFFF00, 0xFFFFFF80):
            lines.append("uni_enc %s %d %d" % (w, lo, min(lo + 256, 1 << 32)))
        for _ in range(60 if not ctx.thorough else 2000):
            lo = rng.randrange(0x110000, (1 << 32) - 64)
            lines.append("uni_enc %s %d %d" % (w, lo, lo + 64))
    # wchar_t on the scalar range as well (same width as char32_t here; T1 pins sizeof(wchar_t) = 4)
    for lo, hi in list(scalar_batches())[:: (16 if not ctx.thorough else 1)]:
        lines.append("uni_enc W %d %d" % (lo, hi))
    impl, model = both(lines)
    ctx.correspond("non-scalar inputs to ToUTF (surrogates, >10FFFF, up to 2^32-1) and wchar_t", lines, impl, model)

    # ---- S2 UnEscape on generated strings --------------------------------------------------------
    gl = []          # generic lines
    expect = {}      # line -> (expected code points, expected return)  for well-formed inputs
    fl = []          # the same inputs with a destination that has 0..6 free units / is a String
    twin = [0]

    def add(w, pre, units, exp=None):
        maxu = 256 if w == "1" else (65536 if w == "2" else 1 << 32)
        units = [u % maxu for u in units]
        l = "uni_un %s %s %s" % (w, core.show_units(pre), core.show_units(units))
        gl.append(l)
        if exp is not None:
            expect[l] = exp
        twin[0] += 1
        if twin[0] % 4 == 0:
            # the same input into a destination with exactly k free units (StringStream) / into a String
            l2 = "uni_unf %s %s %d %s %s" % (w, "S" if twin[0] % 20 else "T", (twin[0] // 4) % 7, core.show_units(pre), core.show_units(units))
            fl.append(l2)
            if exp is not None:
                expect[l2] = exp

    # (a) exhaustive short strings over an escape-fragment alphabet: \ u " D 8 0 n LF
    L = 5 if not ctx.thorough else 6
    A = [92, 117, 34, 68, 56, 48, 110, 10]
    k = 0
    for n in range(0, L + 1):
        for t in itertools.product(A, repeat=n):
            k += 1
            add("1" if k % 3 else "2", [] if k % 2 else [120], list(t))
    # (b) every escape letter 0..127 (and some wide units), bare / terminated / in context / truncated
    for w in ("1", "2", "4", "W"):
        for x in list(range(0, 128)) + [0xDC, 0xFF, 0x134, 0x10075, 0x22, 0x5C + 0x100]:
            add(w, [], [92, x])
            add(w, [], [92, x, 34])
            add(w, [65], [66, 92, x, 67, 34, 68])
    # (c) surrogate boundaries: \uHHHH followed by \uLLLL / other 6 units, every truncation
    HI = [0xD7FF, 0xD800, 0xD801, 0xD8FF, 0xD900, 0xDABC, 0xDBFF, 0xDC00, 0xDFFF, 0xE000]
    LO = [0x0000, 0x0041, 0xD800, 0xDBFF, 0xDC00, 0xDC01, 0xDEAD, 0xDFFF, 0xE000, 0xFFFF]
    for w in WIDTHS:
        for hi in HI:
            for lo in LO:
                for sep in ([92, 117], [92, 85], [120, 121], [92, 110], [34, 34]):
                    s = [97] + [92, 117] + hexs(hi, hi & 1) + sep + hexs(lo, lo & 2) + [98, 34]
                    exp = None
                    if sep == [92, 117] and 0xD800 <= hi <= 0xDBFF and 0xDC00 <= lo <= 0xDFFF:
                        exp = ([97, 0x10000 + ((hi - 0xD800) << 10) + (lo - 0xDC00), 98], len(s))
                    add(w, [], s, exp)
                    if sep == [92, 117]:
                        for cut in range(len(s)):
                            add(w, [], s[:cut])
    # (d) well-formed bodies with a known denotation; a subset truncated at every position
    N = 12000 if not ctx.thorough else 300000
    for i in range(N):
        w = rng.choice(("1", "2", "4", "W"))
        units, cps = gen_wellformed(rng, w)
        tail = rng.choice(([34], [34], [], [34, 120, 92]))
        pre = [] if rng.random() < 0.7 else [rng.randrange(32, 127) for _ in range(rng.randrange(1, 4))]
        consumed = len(units) + (1 if tail else 0)
        if units == cps and not pre:
            exp_cps = []          # nothing was escaped and the stream was empty: the routine leaves the stream empty
        else:
            exp_cps = pre + cps
        add(w, pre, units + tail, (exp_cps, consumed))
        if i % 12 == 0:
            for cut in range(len(units)):
                add(w, pre, units[:cut])
    # (e) unit soup biased to escape fragments
    M = 20000 if not ctx.thorough else 500000
    frag = [92, 92, 92, 117, 85, 34, 47, 98, 102, 110, 114, 116, 10, 9, 13, 48, 57, 65, 70, 97, 102, 68, 56, 100, 67, 71, 103, 64, 96, 58]
    for _ in range(M):
        w = rng.choice(("1", "2", "4", "W"))
        n = rng.randrange(0, 20)
        u = []
        while len(u) < n:
            r = rng.random()
            if r < 0.6:
                u.append(rng.choice(frag))
            elif r < 0.8:
                u += esc_units(rng.randrange(0xD700, 0xE100), rng)[: rng.randrange(1, 13)]
            else:
                u.append(rng.randrange(0, 0x110000))
        add(w, [] if rng.random() < 0.6 else [33], u)
    impl, model = both(gl)
    ctx.correspond("UnEscape on generated strings (every escape kind, surrogate boundaries, all truncations, exact-size buffers)",
                   gl, impl, model, nontrivial=lambda l: "92" in l.split(" ")[3].split(","))
    def denotation_oracle(lines_, impl_, label):
        # S3: on the well-formed inputs the decoded stream is the denoted text and the whole body is consumed
        olines, oidx = [], []
        for i, l in enumerate(lines_):
            if l in expect and "|" in impl_[i]:
                olines.append("uni_dec %s %s" % (l.split(" ")[1], impl_[i].split("|")[1]))
                oidx.append(i)
        dec, _ = core.run_lines_parallel(drv, olines, jobs=JOBS, env=None)
        for j, d in enumerate(dec):
            i = oidx[j]
            cps, consumed = expect[lines_[i]]
            want = "%d|%s" % (consumed, core.show_units(cps))
            got = "%s|%s" % (impl_[i].split("|")[0], d)
            if got != want:
                ctx.fail("oracle:unescape-w" + lines_[i].split(" ")[1],
                         "UnEscape on a well-formed string: consumed|decoded text = %s, the string denotes %s (%s)" % (got, want, lines_[i]),
                         {"line": lines_[i], "impl_output": impl_[i], "decoded": d, "expected": want})
        ctx.count(label, len(olines), len(set(olines)))

    denotation_oracle(gl, impl, "UnEscape denotation oracle (well-formed strings)")
    flS = [l for l in fl if l.split(" ")[2] == "S"]
    flT = [l for l in fl if l.split(" ")[2] == "T"] if exe_str else []
    impl, model = both(flS)
    ctx.correspond("UnEscape into a StringStream with exactly 0-6 free units", flS, impl, model,
                   nontrivial=lambda l: "92" in l.split(" ")[5].split(","))
    if flT:
        implT, modelT = both(flT, exe=exe_str)
        ctx.correspond("UnEscape into a String", flT, implT, modelT, nontrivial=lambda l: "92" in l.split(" ")[5].split(","))
        denotation_oracle(flT, implT, "UnEscape denotation oracle, String as stream")
    fl = flS
    for i, o in enumerate(impl):
        if o == "cap-mismatch":
            ctx.infra_errors.append("harness could not set up the requested free capacity (QENTEM_VERIF hook missing?): " + fl[i])
            break
    denotation_oracle(fl, impl, "UnEscape denotation oracle, controlled capacity")

    # ---- S2 the encoder and UnEscape with a destination that is exactly full / has 1..4 free units ---
    # (StringStream grows to exactly the requested capacity under QENTEM_VERIF, so a write that was not
    #  preceded by a sufficient capacity check lands in the ASan redzone).  Whole stream is compared,
    #  prefill included.  Sequence length classes are what matters, so the scalar range is sampled at its
    #  boundaries plus every 128th batch; all five capacities x three prefill lengths x four widths.
    edge = [(0, 256), (0x780, 0x880), (0xD700, 0xD800), (0xE000, 0xE100), (0xFF80, 0x10000), (0x10000, 0x10100), (0x10FF00, 0x110000)]
    step = 128 if not ctx.thorough else 8
    sample = edge + list(scalar_batches())[5::step]
    lines = []
    for w in WIDTHS + ("W",):
        for p in (0, 1, 5):
            for k in (0, 1, 2, 3, 4):
                for lo, hi in sample:
                    lines.append("uni_encf %s S %d %d %d %d" % (w, p, k, lo, hi))
        for p in (0, 2):
            for lo, hi in sample[:: 2]:
                lines.append("uni_encf %s T %d 0 %d %d" % (w, p, lo, hi))
    nenc = len(lines)
    for w in WIDTHS:
        for mode in ("l", "c"):
            for p in (0, 3):
                for k in (0, 1, 2, 3, 5):
                    for lo, hi in sample[:: 2]:
                        lines.append("uni_escf %s S %s %d %d %d %d" % (w, mode, p, k, lo, hi))
            for lo, hi in sample[:: 4]:
                lines.append("uni_escf %s T %s 2 0 %d %d" % (w, mode, lo, hi))
    isT = [l.split(" ")[2] == "T" for l in lines]
    impl, model = [None] * len(lines), [None] * len(lines)
    for flag, ex in ((False, exe), (True, exe_str)):
        idx = [i for i in range(len(lines)) if isT[i] == flag]
        if ex is None or not idx:
            continue
        a, b = both([lines[i] for i in idx], exe=ex)
        for j, i in enumerate(idx):
            impl[i], model[i] = a[j], b[j]
    keep = [i for i in range(len(lines)) if impl[i] is not None]
    nenc = sum(1 for i in keep if i < nenc)
    lines, impl, model = [lines[i] for i in keep], [impl[i] for i in keep], [model[i] for i in keep]
    ctx.correspond("ToUTF (both entry points) and UnEscape into a destination with p units and exactly k free units; String as Stream_T",
                   lines, impl, model)
    ctx.count("code points covered by the capacity stream", sum(int(l.split(" ")[-1]) - int(l.split(" ")[-2]) for l in lines),
              sum(int(l.split(" ")[-1]) - int(l.split(" ")[-2]) for l in lines))
    olines, oidx = [], []
    for i, l in enumerate(lines):
        o = impl[i]
        if o == "cap-mismatch":
            ctx.infra_errors.append("harness could not set up the requested free capacity (QENTEM_VERIF hook missing?): " + l)
            break
        if o.startswith("FAULT") or o.startswith("bad"):
            continue
        t = l.split(" ")
        p = int(t[3] if i < nenc else t[4])
        pre = core.show_units([97 + j % 26 for j in range(p)])
        groups, ok = [], True
        for g in o.split(";"):
            head, body = (g.split(":") if i >= nenc else ("", g))
            if p:
                if not (body == pre or body.startswith(pre + ",")):
                    ok = False
                    ctx.fail("oracle:prefill-w" + t[1], "the units already in the destination were disturbed: %s -> %s" % (l, g),
                             {"line": l, "impl_output": o[:2000]})
                    break
                body = body[len(pre) + 1:] or "-"
            groups.append(body if i < nenc else head + ":" + body)
        if ok:
            mode = "d" if i < nenc else t[3]
            olines.append("uni_orc %s %s %s %s %s" % (t[1], mode, t[-2], t[-1], ";".join(groups)))
            oidx.append(i)
    verdicts, _ = core.run_lines_parallel(drv, olines, jobs=JOBS, env=None)
    for j, v in enumerate(verdicts):
        if v != "ok":
            i = oidx[j]
            ctx.fail("oracle:capacity-w" + lines[i].split(" ")[1],
                     "with a nearly full destination the standard decoder does not read back the code point (%s): %s" % (lines[i], v),
                     {"line": lines[i], "verdict": v, "impl_output": impl[i][:4000]})
    ctx.count("spec-decoder oracle on the capacity stream (lines)", len(olines), len(olines))

    # ---- S2 HexStringToNumber ---------------------------------------------------------------------
    hl = []
    for x in range(0, 256):
        hl.append("uni_hex 1 %d" % x)
        hl.append("uni_hex 1 49,%d,50" % x)
    for x in list(range(0, 0x200)) + [0xFF30, 0xFF41, 0x10030, 0x10041, 65536 + 48]:
        hl.append("uni_hex 2 %d" % (x % 65536))
        hl.append("uni_hex 4 %d,%d" % (x, x))
    hexd = [ord(c) for c in "0123456789abcdefABCDEF"]
    for _ in range(6000 if not ctx.thorough else 100000):
        n = rng.randrange(0, 11)
        u = [rng.choice(hexd) if rng.random() < 0.93 else rng.choice([47, 58, 64, 71, 96, 103, 32, 0, 255]) for _ in range(n)]
        hl.append("uni_hex %s %s" % (rng.choice(WIDTHS), core.show_units(u)))
    impl, model = both(hl)
    ctx.correspond("HexStringToNumber<SizeT32> (all single units, 0-10 digit strings with early stops)", hl, impl, model)
    # positional value, computed independently
    for l, o in zip(hl, impl):
        u = [int(x) for x in l.split(" ")[2].split(",")] if l.split(" ")[2] != "-" else []
        if 0 < len(u) <= 8 and all(x in hexd for x in u):
            if o != str(int("".join(chr(x) for x in u), 16)):
                ctx.fail("oracle:hex", "HexStringToNumber(%s) = %s" % ("".join(chr(x) for x in u), o), {"line": l, "impl_output": o})

    # every overload x Number_T of 8/16/32/64 bits x offset type of 32/64 bits (the library's own instantiation is
    # <SizeT64, Char_T, SizeT> from Digit::StringToNumber, the tests use the two-argument overload with SizeT64)
    hw = []
    for _ in range(8000 if not ctx.thorough else 150000):
        n = rng.randrange(0, 22)
        u = [rng.choice(hexd) if rng.random() < 0.95 else rng.choice([47, 58, 64, 71, 96, 103, 120, 0, 255]) for _ in range(n)]
        w = rng.choice(WIDTHS + ("W",))
        bits = rng.choice((8, 16, 32, 64, 64))
        if rng.random() < 0.35:
            hw.append("uni_hex2 %s %d %s" % (w, bits, core.show_units(u)))
        else:
            end = rng.randrange(0, n + 1)
            off = rng.randrange(0, end + 1) if rng.random() < 0.9 else rng.randrange(0, n + 3)
            hw.append("uni_hexw %s %d %d %d %d %s" % (w, bits, rng.choice((32, 64)), off, end, core.show_units(u)))
    for bits in (8, 16, 32, 64):               # exactly full and one digit too many, both cases
        for s_ in ("f" * (bits // 4), "F" * (bits // 4), "1" + "0" * (bits // 4), "8" + "0" * (bits // 4 - 1), "0x1f", ""):
            hw.append("uni_hex2 1 %d %s" % (bits, core.show_units([ord(c) for c in s_])))
            hw.append("uni_hexw 2 %d 32 0 %d %s" % (bits, len(s_), core.show_units([ord(c) for c in s_])))
    impl, model = both(hw)
    ctx.correspond("HexStringToNumber: both overloads x Number_T 8/16/32/64 bits x SizeT_Type 32/64 bits, offsets inside the buffer", hw, impl, model)
    for l, o in zip(hw, impl):
        t = l.split(" ")
        u = [int(x) for x in t[-1].split(",")] if t[-1] != "-" else []
        bits = int(t[2])
        if t[0] == "uni_hexw":
            off, end = int(t[4]), int(t[5])
            seg = u[off:end] if off <= end else []
            want = None
            if all(x in hexd for x in seg):
                want = "%d:%d" % ((int("".join(chr(x) for x in seg), 16) if seg else 0) % (1 << bits), max(off, end) if off <= end else off)
        else:
            want = str((int("".join(chr(x) for x in u), 16) if u else 0) % (1 << bits)) if all(x in hexd for x in u) else None
        if want is not None and o != want:
            ctx.fail("oracle:hexw", "%s = %s, positional value modulo 2^%d is %s" % (l, o, bits, want), {"line": l, "impl_output": o, "expected": want})

    from checks import _c20_api
    rows, uncovered, axes = _c20_api.audit()
    ctx.notes.append({"public_api_not_driven": uncovered, "harness_instantiates": axes,
                      "entry_points": ["%s(%s) %s" % (r[0], r[1], r[4]) for r in rows]})

    ctx.assumptions += [
        "code units and code points are Nat; Char_T(x) is x mod 2^(8w); SizeT32 arithmetic is written mod 2^32",
        "sizeof(wchar_t) = 4 on this platform (pinned by T1)",
        "the stream argument is modelled by its contents; capacity growth is exercised by the harness (exact-fit growth under QENTEM_VERIF) but not modelled",
    ]
    ctx.notes.append("each line of the exhaustive stream covers %d consecutive code points; 'code points covered' counts them" % BATCH)


FINISH = dict(level="proof",
              rule="all 1,112,064 scalar values x widths {1,2,4} x {direct ToUTF, \\uxxxx lower hex + quote, \\uXXXX upper hex ended by length, "
                   "inside a longer string}; all surrogates and sampled values up to 2^32-1 as direct inputs; UnEscape on every string of "
                   "length <= 5 (quick) / 6 (thorough) over {\\ u \" D 8 0 n LF}, every escape letter 0-127, 10x10 surrogate boundary pairs x 5 "
                   "separators with every truncation, random well-formed bodies with known denotation (1 in 12 truncated everywhere), random "
                   "escape-fragment soup; non-trivial = contains a backslash",
              checker_cmd="cd lean && lake build Qentem.Props.C20 && lake env lean <#print axioms of the listed theorems>")
