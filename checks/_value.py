"""Shared generators / parsers for the Value area (C12, C18).

Protocol (harness/value_harness.cpp, lean/Qentem/Driver/Value.lean):
  valseq [@<roots>] <op> ; <op> ; ...   one line = one operation sequence over four named roots
Every choice comes from the rng handed in (ctx.rng)."""
import itertools

KEYS = [[], [97], [98], [97, 97], [97, 98]]
KEY_VARIANTS = "abcdef"
EXTRA_UNITS = [49, 48, 50, 34, 92, 47, 9, 10, 120, 121, 122, 32, 126, 1, 127, 58, 43, 45]

REALS = ["0000000000000000", "3ff8000000000000", "c006000000000000", "4008000000000000", "3fb999999999999a",
         "4202a05f20000000", "419d6f3454800000", "bfe0000000000000", "8000000000000000", "4014000000000000"]
FLOAT_REALS = ["0000000000000000", "3ff8000000000000", "c006000000000000", "4008000000000000", "bfe0000000000000", "8000000000000000",
               "4014000000000000"]
NATS = [0, 1, 7, 42, 2 ** 32, 2 ** 53 + 1, 2 ** 53 + 3, 2 ** 63, 2 ** 64 - 1, 2 ** 64 - 1025, 999999999999999999]
UINTS = [0, 5, 4294967295]
INTS = [0, -1, -5, 123, 2 ** 63 - 1, -2 ** 63, -(2 ** 53) - 1]
SINTS = [-7, 0, 2147483647, -2147483648]
STRS = [[], [97], [97, 98, 99], [116, 114, 117, 101], [102, 97, 108, 115, 101], [110, 117, 108, 108], [48], [55], [52, 50],
        [45, 53], [49, 50, 51, 52, 53, 54, 55, 56, 57], [120, 34, 121], [97, 92, 98, 47], [97, 9, 98, 10, 8, 12, 13],
        [84, 82, 85, 69], [45, 49, 50, 51, 52, 53, 54, 55, 56, 57, 48, 49, 50, 51, 52, 53, 54, 55, 56],
        [57, 57, 57, 57, 57, 57, 57, 57, 57, 57, 57, 57, 57, 57, 57, 57, 57, 57]]


def units(u):
    return ".".join(str(x) for x in u) if u else "-"


def rand_key(rng):
    r = rng.random()
    if r < 0.75:
        return rng.choice(KEYS)
    n = rng.choice([1, 1, 2, 3])
    return [rng.choice(EXTRA_UNITS + [97, 98]) for _ in range(n)]


def rand_payload(rng, for_append=False, allow_undef=False):
    r = rng.random()
    if allow_undef and r < 0.06:
        return "U"
    if r < 0.10:
        return "N"
    if r < 0.17:
        return rng.choice("TF")
    if r < 0.32:
        return "n%d" % rng.choice(NATS)
    if r < 0.36:
        return "u%d" % rng.choice(UINTS)
    if r < 0.46:
        return "i%d" % rng.choice(INTS)
    if r < 0.50:
        return "j%d" % rng.choice(SINTS)
    if r < 0.60:
        return "r" + rng.choice(REALS)
    if r < 0.64:
        return "f" + rng.choice(FLOAT_REALS)
    v = rng.choice("abef" if for_append else "abcdefg")
    return "s" + v + units(rng.choice(STRS))


def rand_sel(rng):
    if rng.random() < 0.62:
        return "k" + rng.choice(KEY_VARIANTS) + units(rand_key(rng))
    return "i" + rng.choice("ab") + str(rng.choice([0, 0, 1, 1, 2, 3, 4, 6]))


def rand_loc(rng, root=None, maxlen=3):
    if root is None:
        root = rng.randrange(4)
    n = rng.choice([0, 0, 1, 1, 1, 2, 2, 3][:2 + 2 * maxlen])
    return "/".join([str(root)] + [rand_sel(rng) for _ in range(n)])


def loc_root(loc):
    return int(loc.split("/")[0])


def loc_is_root(loc):
    return "/" not in loc


class PtrGraph:
    """Over-approximation of 'root r may hold a pointer to root j', used to never build a pointer cycle
    (Stringify / Size / ... would not terminate in the real code)."""

    def __init__(self):
        self.pts = [set() for _ in range(4)]

    def closure(self, start):
        seen = set()
        todo = list(start)
        while todo:
            x = todo.pop()
            if x in seen:
                continue
            seen.add(x)
            todo.extend(self.pts[x])
        return seen

    def can_point(self, t, j):
        return t not in self.closure([j])

    def add_ptr(self, t, j):
        self.pts[t].add(j)

    def can_transfer(self, t, s):
        return t not in self.closure(self.pts[s])

    def transfer(self, t, s):
        self.pts[t] |= self.closure(self.pts[s])

    def overwrite(self, t):
        self.pts[t] = set()


def rand_op(rng, g, allow_group=True, allow_cop=True):
    """One random operation (string) respecting the pointer-cycle and aliasing rules."""
    for _ in range(50):
        r = rng.random()
        t = rand_loc(rng)
        tr = loc_root(t)
        if r < 0.22:
            if rng.random() < 0.04:
                return "set %s z" % t
            if loc_is_root(t):
                g.overwrite(tr)
            return "set %s %s" % (t, rand_payload(rng))
        if r < 0.30:
            return "app %s %s" % (t, rand_payload(rng, for_append=True))
        if r < 0.36:
            return "ins %s %s %s" % (t, units(rand_key(rng)), rand_payload(rng, allow_undef=True))
        if r < 0.44:
            return "rem %s %s %s" % (t, units(rand_key(rng)), rng.choice("abc"))
        if r < 0.50:
            return "rmi %s %d %s" % (t, rng.choice([0, 0, 1, 1, 2, 3, 5]), rng.choice("ab"))
        if r < 0.53:
            if loc_is_root(t):
                g.overwrite(tr)
            return "rst %s" % t
        if r < 0.59:
            return "cmp %s" % t
        if r < 0.61:
            q = rng.random()
            if q < 0.25:   # an empty container that owns storage (Size() == 0, Capacity() != 0)
                if loc_is_root(t):
                    g.overwrite(tr)
                return "rsv %s %d %d" % (t, rng.choice([2, 3]), rng.choice([0, 1, 2, 3, 5]))
            if q < 0.45:
                return "clr %s" % t
            if q < 0.6:
                return "tyc %s %d" % (t, rng.choice([0, 2, 3, 4, 5, 6, 7, 8, 9, 10]))
            return "typ %s %d" % (t, rng.choice([0, 2, 3, 4, 5, 6, 7, 8, 9, 10, 1, 11]))
        if r < 0.66:
            if rng.random() < 0.2:
                return "%s %s -" % (rng.choice(["ptr", "adp"]), t)
            j = rng.randrange(4)
            if j == tr or not g.can_point(tr, j):
                continue
            op = rng.choice(["ptr", "adp"])
            if op == "ptr" and loc_is_root(t):
                g.overwrite(tr)
            g.add_ptr(tr, j)
            return "%s %s %d" % (op, t, j)
        # two-operand operations
        s = rand_loc(rng, maxlen=2)
        sr = loc_root(s)
        op = rng.choice(["cpy", "cpy", "mov", "mov", "obj", "arr", "apv", "apv", "apo", "apa", "inm", "mrg", "mrg"] +
                        (["grp"] if allow_group else []))
        if sr == tr:
            if op in ("cpy", "mov") and rng.random() < 0.3:
                return "%s %d %d %s" % (op, tr, tr, rng.choice("ab"))
            continue
        if not g.can_transfer(tr, sr):
            continue
        if op == "grp":
            g.transfer(tr, sr)
            return "grp %d %s %s" % (tr, s, units(rand_key(rng)))
        # (a two-operand operation may be skipped when its source is absent: the target's old pointers stay)
        g.transfer(tr, sr)
        if allow_cop and rng.random() < 0.25:
            # a container-typed overload with the container of another root (aliasing forms: alias_cases)
            return "cop %s %s %s %s" % (rng.choice(["ac", "am", "pc", "pm", "cc", "cm"]), rng.choice("oas"), t, s)
        if op == "inm":
            return "inm %s %s %s" % (t, units(rand_key(rng)), s)
        return "%s %s %s %s" % (op, t, s, rng.choice("ab"))
    return "cmp 0"


def rand_sequence(rng, n_ops):
    g = PtrGraph()
    return [rand_op(rng, g) for _ in range(n_ops)]


def line_of(ops, roots=None, cmd="valseq"):
    return cmd + (" @" + roots if roots else "") + " " + " ; ".join(ops)


# ---------------------------------------------------------------------------------------------
# container-typed overloads with the container taken from inside the same root (aliasing)

ALIAS_TEMPLATES = {
    "O": (["set 0/ka97/ka120 n1", "set 0/ka98/ia0 n1", "set 0/ka98/ia1 n2", "set 0/ka99 sa115.116", "set 0/ka100/ka121 T"],
          {"0": "o", "0/ka97": "o", "0/ka98": "a", "0/ka99": "s", "0/ka100": "o", "0/ka97/ka120": "n", "0/ka98/ia0": "n",
           "0/ka101": "new", "0/ka97/ka122": "new"}),
    "A": (["set 0/ia0/ka120 n1", "set 0/ia1/ia0 n1", "set 0/ia1/ia1 n2", "set 0/ia2 sa115.116", "set 0/ia3/ka121 T"],
          {"0": "a", "0/ia0": "o", "0/ia1": "a", "0/ia2": "s", "0/ia3": "o", "0/ia0/ka120": "n", "0/ia1/ia0": "n", "0/ia4": "new",
           "0/ia1/ia3": "new"}),
    # with removed members / holes and a full table, so that the destination subscript rebuilds the parent first
    "R": (["set 0/ka97/ka120 n1", "set 0/ka98/ia2 n2", "set 0/ka99 sa-", "set 0/ka100 n1", "rem 0 100 a", "rmi 0/ka98 2 a"],
          {"0": "o", "0/ka97": "o", "0/ka98": "a", "0/ka99": "s", "0/ka101": "new", "0/ka97/ka120": "n"}),
}

# `&&` overloads whose operand is owned by a descendant of the destination read the operand after the destination
# released (reset()) or reallocated (growing array / table) it: heap-use-after-free on the unchanged library,
# notes/fix-container-rvalue-aliasing.diff.  Excluded until that repair lands (then set this to True).
import os as _os
INCLUDE_RVALUE_DESCENDANT = _os.environ.get("VERIF_VALUE_RVALUE_DESCENDANT", "1") == "1"


def full_merge_cases():
    """object merges whose destination is exactly full (Size() == Capacity()) and holds removed members, with a source
    that brings new keys (and one existing key): the merge has to count the removed slots (Size(), not the live count)
    when it decides to rebuild.  For every merge form of the Value API."""
    out = []
    forms = ["apv 0 1 a", "apv 0 1 b", "mrg 0 1 a", "mrg 0 1 b", "apo 0 1 a", "apo 0 1 b", "cop pc o 0 1", "cop pm o 0 1",
             "apv 0/ka120 1 b", "mrg 0/ka120 1 a"]
    for cap in (2, 4, 8):
        for removed in range(1, cap):
            for new in range(1, removed + 1):
                for form in forms:
                    t = "0/ka120" if "0/ka120" in form else "0"
                    ops = ["set %s/ka%d n%d" % (t, 97 + i, i) for i in range(cap)]
                    ops += ["rem %s %d %s" % (t, 97 + i, "abc"[i % 3]) for i in range(removed)]
                    ops += ["set 1/ka%d sa%d" % (110 + j, 65 + j) for j in range(new)]
                    ops += ["set 1/ka%d T" % (97 + cap - 1)]          # one key the destination already holds
                    ops += [form, "set %s/ka122 n9" % t, "cmp 0"]
                    out.append(ops)
    return out


def copy_then_write_cases():
    """every COPYING operation applied to a source that is empty but owns storage (reserved or cleared array / object,
    the empty string), followed by a write into the copy (append, indexed write, keyed write, Insert) and a read-back."""
    sources = [["rsv 1 3 1"], ["rsv 1 3 2"], ["rsv 1 3 5"], ["rsv 1 2 1"], ["rsv 1 2 4"], ["app 1 n1", "app 1 sa120", "clr 1"],
               ["set 1/ka97 n1", "set 1/ka98 sa120", "clr 1"], ["set 1 sa-"], ["set 1 sh-"]]
    copies = [("cpy 0 1 a", "0"), ("cpy 0 1 b", "0"), ("cpy 0/ka99 1 a", "0/ka99"), ("cpy 0/ia1 1 b", "0/ia1"),
              ("arr 0 1 a", "0"), ("arr 0 1 b", "0"), ("obj 0 1 a", "0"), ("obj 0 1 b", "0"),
              ("cop ac a 0 1", "0"), ("cop cc a 0 1", "0"), ("cop ac o 0 1", "0"), ("cop cc o 0 1", "0"), ("cop ac s 0 1", "0"),
              ("cop cc s 0 1", "0"), ("cop pc a 0 1", "0/ia0"), ("cop pc o 0 1", "0/ia0"), ("cop pc s 0 1", "0/ia0"),
              ("apv 0 1 b", "0/ia0"), ("mrg 0 1 b", "0"), ("apa 0 1 b", "0/ia0"), ("apo 0 1 b", "0/ia0"),
              ("cop ac a 0/ka99 1", "0/ka99"), ("cop ac o 0/ia2 1", "0/ia2")]
    writes = ["app %s n1", "set %s/ia0 n2", "set %s/ia3 T", "set %s/ka97 n3", "ins %s 98 sa121", "app %s sa122", "mrg %s 2 b", "cmp %s"]
    out = []
    for src in sources:
        for cp, where in copies:
            for w in writes:
                out.append(["app 2 n7"] + src + [cp, w % where, "cpy 3 %s a" % where])
    return out


def alias_relation(d, s):
    if d == s:
        return "self"
    if s.startswith(d + "/"):
        return "src-in-dst"
    if d.startswith(s + "/"):
        return "dst-in-src"
    return "sibling"


def alias_allowed(form, rel):
    if form in ("ac", "pc", "cc"):
        return True                      # const& overloads: every relation (value semantics)
    if rel == "self":
        return False                     # self move: the operand is the destination's own storage (unspecified)
    if rel == "dst-in-src":
        return False                     # moving an ancestor's container into its own descendant has no meaning
    if rel == "src-in-dst":
        return form == "cm" or INCLUDE_RVALUE_DESCENDANT
    return True


def alias_cases(rng=None):
    """op lists: a template, one container-typed overload whose operand lives in the same root, a follow-up."""
    out = []
    for name, (tmpl, nodes) in ALIAS_TEMPLATES.items():
        for form in ("ac", "am", "pc", "pm", "cc", "cm"):
            for kind in "oas":
                for s, k in nodes.items():
                    if k != kind:
                        continue
                    for d in nodes:
                        if not alias_allowed(form, alias_relation(d, s)):
                            continue
                        op = "cop %s %s %s %s" % (form, kind, d, s)
                        out.append(tmpl + [op])
                        out.append(tmpl + [op, "cmp 0", "set %s n7" % d])
    return out


# ---------------------------------------------------------------------------------------------
# parsing of dumps


def parse_deep(s):
    """deep dump -> python tree: ('U',) ('N',) ('T',) ('F',) ('n',int) ('i',int) ('r',hex) ('s',units) ('a',[..])
    ('o',cap,[None | (key, tree)]) ('p', kind)."""
    pos = 0

    def rd():
        nonlocal pos
        c = s[pos]
        pos += 1
        if c in "UNTF":
            return (c,)
        if c in "nirsp":
            j = pos
            while j < len(s) and s[j] not in ";)=":
                j += 1
            tok = s[pos:j]
            pos = j
            if c in "ni":
                return (c, int(tok))
            return (c, tok)
        if c == "a":
            assert s[pos] == "("
            pos += 1
            items = []
            if s[pos] == ")":
                pos += 1
                return ("a", items)
            while True:
                items.append(rd())
                if s[pos] == ";":
                    pos += 1
                    continue
                assert s[pos] == ")"
                pos += 1
                return ("a", items)
        if c == "o":
            j = pos
            while s[j] != "(":
                j += 1
            cap = s[pos:j]
            pos = j + 1
            slots = []
            if s[pos] == ")":
                pos += 1
                return ("o", cap, slots)
            while True:
                if s[pos] == "_":
                    pos += 1
                    slots.append(None)
                else:
                    j = pos
                    while s[j] != "=":
                        j += 1
                    key = s[pos:j]
                    pos = j + 1
                    slots.append((key, rd()))
                if s[pos] == ";":
                    pos += 1
                    continue
                assert s[pos] == ")"
                pos += 1
                return ("o", cap, slots)
        raise ValueError("bad dump at %d: %s" % (pos, s[:80]))

    t = rd()
    if pos != len(s):
        raise ValueError("trailing dump: " + s[pos:pos + 40])
    return t


def abstract(t):
    """the abstract document: no capacities, no removed items."""
    if t[0] == "a":
        return ("a", [abstract(x) for x in t[1]])
    if t[0] == "o":
        return ("o", [(k, abstract(v)) for kv in t[2] if kv is not None for (k, v) in [kv]])
    return t


def split_step(step):
    """'<ret>#r0#r1#..' -> (ret, [(deep, summary)])"""
    parts = step.split("#")
    roots = []
    for p in parts[1:]:
        d, _, g = p.partition("@")
        roots.append((d, g))
    return parts[0], roots


def first_diff(a, b):
    sa, sb = a.split("|"), b.split("|")
    for i, (x, y) in enumerate(zip(sa, sb)):
        if x != y:
            ra, rb = x.split("#"), y.split("#")
            for j, (u, v) in enumerate(zip(ra, rb)):
                if u != v:
                    k = 0
                    while k < min(len(u), len(v)) and u[k] == v[k]:
                        k += 1
                    return "step %d field %d: impl ...%s | model ...%s" % (i, j, u[max(0, k - 40):k + 60], v[max(0, k - 40):k + 60])
    return "length differs (%d vs %d steps)" % (len(sa), len(sb))
