"""Mechanical audit of the public API of Include/Digit.hpp (C09-C11): every public member of `struct Digit`
(everything before `private:`), with its parameter list as written, and whether one of the harnesses
(strtonum, numtostr, unicode) calls it.  `audit()` returns (rows, uncovered); c09.py notes the uncovered list."""
import os
import re
from vlib import core

HARNESSES = ["strtonum_harness.cpp", "numtostr_harness.cpp", "unicode_harness.cpp"]
SIG = re.compile(r"^    (?:template <[^>]*>\s*)?(?:(?:inline|static|explicit|constexpr|QENTEM_CONST_EXPRESSION)\s+)*"
                 r"(?:[\w:<>,\s\*&]+?\s+[\*&]*)?(\w+|operator\s*[^\s(]+)\s*\(([^)]*)\)[^;{]*\{", re.M)


def public_api():
    src = open(os.path.join(core.INCLUDE, "Digit.hpp")).read()
    body = src[:src.find("  private:")]
    out = []
    for m in SIG.finditer(body):
        name, args = re.sub(r"\s+", "", m.group(1)), re.sub(r"\s+", " ", m.group(2).strip())
        if name in ("if", "while", "for", "switch", "return", "QENTEM_CONST_EXPRESSION"):
            continue
        out.append((name, args))
    return out


def driven(name, args, text):
    if name == "RealFormatInfo":
        form = {"": "RealFormatInfo{}", "SizeT32 precision": "RealFormatInfo{SizeT32(prec)}",
                "RealFormatType type": "RealFormatInfo{Digit::RealFormatType(fmt)}",
                "SizeT32 precision, RealFormatType type": "info{SizeT32(prec), Digit::RealFormatType(fmt)}"}.get(args)
        return form is not None and form in text
    if name == "operator=":
        return ("info = SizeT32(prec)" if "precision" in args else "info = Digit::RealFormatType(fmt)") in text
    if name == "HexStringToNumber":
        return ("offset, SizeT(end)" if "end_offset" in args else "SizeT(in.n))") in text and "HexStringToNumber<" in text
    if name == "StringToNumber":
        return ("offset, SizeT(end))" if "end_offset" in args else "SizeT(in.n))") in text
    return re.search(r"Digit::" + re.escape(name) + r"(<[^>]*>)?\(", text) is not None


def audit():
    text = "\n".join(open(os.path.join(core.HARNESS, h)).read() for h in HARNESSES)
    rows, unc = [], []
    for name, args in public_api():
        ok = driven(name, args, text)
        rows.append((name, args, "driven" if ok else "NOT DRIVEN"))
        if not ok:
            unc.append("%s(%s)" % (name, args))
    return rows, unc


if __name__ == "__main__":
    for r in audit()[0]:
        print("%-22s | %-90s | %s" % r)
