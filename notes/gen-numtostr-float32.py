# Regenerates lean/Qentem/Proofs/NumToStrFloat32.lean from the double class theorems by textual substitution
# (52->23, 1023->127, 11->8, masks, names).  The output is an ordinary proof file checked by `lake build`.
import re,sys
import os
base=os.path.join(os.path.dirname(os.path.abspath(__file__)),'..','lean','Qentem','Proofs')+os.sep
def read(f): return open(f).read()
def extract(src, name):
    # find "theorem name" start (including preceding docstring) up to next top-level decl
    m=re.search(r'(/--(?:(?!-/).)*-/\n)?(theorem|def) '+re.escape(name)+r'\b', src, re.S)
    assert m, name
    start=m.start()
    # end: next line starting with "theorem ", "def ", "/--", "/-!", "end ", "set_option" at col 0 after start of decl body
    rest=src[m.end():]
    m2=re.search(r'\n(?=(theorem |def |/--|/-!|end |set_option |structure ))', rest)
    end=m.end()+(m2.start() if m2 else len(rest))
    return src[start:end].rstrip()+'\n'
files={
 'Layout':read(base+'NumToStrLayout.lean'),
 'FixedRound':read(base+'NumToStrFixedRound.lean'),
 'DefaultGe1':read(base+'NumToStrDefaultGe1.lean'),
 'DefaultFrac':read(base+'NumToStrDefaultFrac.lean'),
 'FixedLt1':read(base+'NumToStrFixedLt1.lean'),
 'DefaultLt1':read(base+'NumToStrDefaultLt1.lean'),
}
order=[('Layout','realToString_finite64'),('Layout','format64_finite'),('Layout','short_fraction64'),
 ('FixedRound','decode64_ge1'),('FixedRound','long_fraction_ge1_64'),('FixedRound','intValued_of_fracBits_zero'),('FixedRound','fixed_ge1_64'),
 ('DefaultGe1','decode64_ge_pow'),('DefaultGe1','runSpec_default_extra'),('DefaultGe1','default_extra64'),
 ('DefaultFrac','runSpec_default_frac'),('DefaultFrac','default_frac64'),
 ('DefaultLt1','runSpec_default_int'),('DefaultLt1','default_int_fit64'),
 ('FixedLt1','decode64_lt1'),('FixedLt1','runSpec_lt1'),('FixedLt1','run_lt1_64'),('FixedLt1','long_fraction_lt1_64'),('FixedLt1','fixed_finite_64'),
 ('DefaultLt1','default_lt1_64')]
out=[]
for f,n in order:
    out.append(extract(files[f],n))
txt='\n'.join(out)
ren={'intValued_of_fracBits_zero':'intValued_of_fracBits_zero32','runSpec_default_extra':'runSpec_default_extra32',
     'runSpec_default_frac':'runSpec_default_frac32','runSpec_default_int':'runSpec_default_int32','runSpec_lt1':'runSpec_lt1_32'}
for a,b in ren.items(): txt=re.sub(r'\b'+a+r'\b',b,txt)
subs=[('9223372036854775808','2147483648'),('9218868437227405312','2139095040'),('4503599627370495','8388607'),('4503599627370496','8388608'),
 (r'2 \^ 63',r'2 ^ 31'),(r'2 \^ 53',r'2 ^ 24'),(r'\b1075\b','150'),(r'\b2047\b','255'),(r'\b1023\b','127'),(r'\b52\b','23'),(r'\b11\b','8'),(r'\b1344\b','320'),
 (r'(\w)64\b',r'\g<1>32'),(r'_64\b','_32'),(r'(\w)64_',r'\g<1>32_'),(r'\bf64\b','f32')]
for a,b in subs: txt=re.sub(a,b,txt)
txt=txt.replace('IntValued32','F32.IntValued32').replace('int_class32','F32.int_class32')
txt=txt.replace('double','float')
hdr='''import Qentem.Proofs.NumToStrDefaultLt1
import Qentem.Proofs.NumToStrIntClass32
/-! C10 helper, floats: the class theorems of the double proofs restated for `binary32` (23 mantissa bits, bias 127,
8 exponent bits).  The generic lemmas (digit run, exactness, reduction, string formatters, reference lemmas) are shared;
the theorems below are the double ones with the format constants replaced (produced by textual substitution and
checked like any other proof).  Result: `fixed_finite_32`, `default_finite_32`. -/
set_option linter.unusedSimpArgs false
set_option linter.unusedVariables false
namespace Qentem.Proofs.NumToStr
open Qentem.NumToStr Qentem.Generated.NumToStr Qentem

'''
tail='''
/-- **Default (`%.{p}g`) for every finite float of magnitude ≥ 1** -/
theorem default_ge1_32 (pre : List Nat) (bits p : Nat) (hp : p ≤ 40)
    (hfin : (bits / 2 ^ 23) % 2 ^ 8 ≠ 2 ^ 8 - 1) (hge1 : 127 ≤ (bits / 2 ^ 23) % 2 ^ 8) :
    realToString f32 pre bits p 0 = .ok (pre ++ FmtSpec.format32 bits p .default) := by
  by_cases hx : (if p = 0 then 1 else p) < ((bits / 2 ^ 23) % 2 ^ 8 - 127) * 30103 / 100000 + 1
  · exact default_extra32 pre bits p hp hfin hge1 hx
  · by_cases h0 : fracBits 23 127 (bits % 2 ^ 23) ((bits / 2 ^ 23) % 2 ^ 8) = 0
    · exact default_int_fit32 pre bits p hp hfin hge1 (by omega) h0
    · exact default_frac32 pre bits p hp hfin hge1 (by omega) (by omega)

/-- **Default (`%.{p}g`) for every finite non-zero float** (precision ≤ 40) -/
theorem default_finite_32 (pre : List Nat) (bits p : Nat) (hp : p ≤ 40)
    (hfin : (bits / 2 ^ 23) % 2 ^ 8 ≠ 2 ^ 8 - 1) (hnz : (bits / 2 ^ 23) % 2 ^ 8 ≠ 0 ∨ bits % 2 ^ 23 ≠ 0) :
    realToString f32 pre bits p 0 = .ok (pre ++ FmtSpec.format32 bits p .default) := by
  by_cases hge1 : 127 ≤ (bits / 2 ^ 23) % 2 ^ 8
  · exact default_ge1_32 pre bits p hp hfin hge1
  · exact default_lt1_32 pre bits p hp (by omega) hnz

end Qentem.Proofs.NumToStr
'''
open(base+'NumToStrFloat32.lean','w').write(hdr+txt+tail)
print(len(txt.splitlines()))
