// Correspondence harness for C09: Digit::StringToNumber on exact-size buffers.
//   s2n <w> <offset> <end> <units>   ->  "<kind> <16 hex digits of QNumber64.Natural> <new offset>"
//        the whole unit list is copied into an exact-size heap block (ASan redzones border it);
//        the converter is called with (content, offset, end_offset = <end>), end <= number of units.
//   s2nlen <w> <units>               ->  same through the (content, length) overload, offset not reported ("-")
//   s2nlong <prefix> <fill> <count> <suffix> -> (8-bit units) the text prefix ++ fill^count ++ suffix built here
//        (count up to 2^31; a 10^8-unit text cannot travel through the pipe as a unit list), same output as s2n
//   s2nfast <8|16|32|64> <units>     ->  Digit::FastStringToNumber<unsigned N-bit>(number, content, length), decimal
//        (an unchecked primitive: every unit is taken as a digit, the value wraps in the type)
//   s2nhex <8|16|32|64> <off> <end> <units> -> Digit::HexStringToNumber<unsigned N-bit>(value, offset, end_offset):
//        "<value decimal> <new offset>"; s2nhexlen <N> <units> -> the (value, length) overload: "<value decimal>"
//   s2nstrtod <units>                ->  16 hex digits of strtod() on the text (second opinion only; never a verdict)
#include "common.hpp"
#include "Digit.hpp"
using namespace Qentem;

static std::string hex16(unsigned long long v) {
    char buf[32];
    snprintf(buf, sizeof buf, "%016llx", v);
    return buf;
}

template <typename Char_T>
static std::string doConv(const std::vector<uint64_t> &u, uint64_t off, uint64_t end) {
    if (end > u.size() || off > end) return "bad-op";
    vh::ExactBuf<Char_T> in(u);
    QNumber64            q;
    q.Natural = 0xDEADBEEFDEADBEEFULL; // must be overwritten
    SizeT             offset = SizeT(off);
    const QNumberType t      = Digit::StringToNumber(q, static_cast<const Char_T *>(in.p), offset, SizeT(end));
    char              buf[64];
    snprintf(buf, sizeof buf, "%d %s %u", int(t), hex16(q.Natural).c_str(), unsigned(offset));
    return buf;
}

template <typename Char_T>
static std::string doConvLen(const std::vector<uint64_t> &u) {
    vh::ExactBuf<Char_T> in(u);
    QNumber64            q;
    q.Natural           = 0xDEADBEEFDEADBEEFULL;
    const QNumberType t = Digit::StringToNumber(q, static_cast<const Char_T *>(in.p), SizeT(in.n));
    char              buf[64];
    snprintf(buf, sizeof buf, "%d %s -", int(t), hex16(q.Natural).c_str());
    return buf;
}

template <typename Num_T>
static std::string doFast(const std::vector<uint64_t> &u) {
    vh::ExactBuf<char> in(u);
    Num_T              n = Num_T(0x5A);
    Digit::FastStringToNumber(n, static_cast<const char *>(in.p), SizeT(in.n));
    return std::to_string((unsigned long long)n);
}

template <typename Num_T>
static std::string doHex(const std::vector<uint64_t> &u, uint64_t off, uint64_t end) {
    if (end > u.size() || off > end) return "bad-op";
    vh::ExactBuf<char> in(u);
    SizeT              offset = SizeT(off);
    const Num_T        n      = Digit::HexStringToNumber<Num_T>(static_cast<const char *>(in.p), offset, SizeT(end));
    return std::to_string((unsigned long long)n) + " " + std::to_string((unsigned)offset);
}

template <typename Num_T>
static std::string doHexLen(const std::vector<uint64_t> &u) {
    vh::ExactBuf<char> in(u);
    const Num_T        n = Digit::HexStringToNumber<Num_T>(static_cast<const char *>(in.p), SizeT(in.n));
    return std::to_string((unsigned long long)n);
}

int main() {
    std::string line;
    while (vh::read_line(line)) {
        auto                  t = vh::split(line);
        std::vector<uint64_t> u, a, b;
        if (t.size() == 5 && t[0] == "s2n" && vh::parse_nats(t[2], a) && vh::parse_nats(t[3], b) && a.size() == 1 &&
            b.size() == 1 && vh::parse_nats(t[4], u)) {
            if (t[1] == "1") vh::emit(doConv<char>(u, a[0], b[0]));
            else if (t[1] == "2") vh::emit(doConv<char16_t>(u, a[0], b[0]));
            else if (t[1] == "4") vh::emit(doConv<char32_t>(u, a[0], b[0]));
            else if (t[1] == "W") vh::emit(doConv<wchar_t>(u, a[0], b[0]));
            else vh::emit("bad-op");
        } else if (t.size() == 3 && t[0] == "s2nlen" && vh::parse_nats(t[2], u)) {
            if (t[1] == "1") vh::emit(doConvLen<char>(u));
            else if (t[1] == "2") vh::emit(doConvLen<char16_t>(u));
            else if (t[1] == "4") vh::emit(doConvLen<char32_t>(u));
            else if (t[1] == "W") vh::emit(doConvLen<wchar_t>(u));
            else vh::emit("bad-op");
        } else if (t.size() == 3 && t[0] == "s2nfast" && vh::parse_nats(t[2], u)) {
            if (t[1] == "8") vh::emit(doFast<unsigned char>(u));
            else if (t[1] == "16") vh::emit(doFast<unsigned short>(u));
            else if (t[1] == "32") vh::emit(doFast<unsigned int>(u));
            else if (t[1] == "64") vh::emit(doFast<unsigned long long>(u));
            else vh::emit("bad-op");
        } else if (t.size() == 5 && t[0] == "s2nhex" && vh::parse_nats(t[2], a) && vh::parse_nats(t[3], b) && a.size() == 1 &&
                   b.size() == 1 && vh::parse_nats(t[4], u)) {
            if (t[1] == "8") vh::emit(doHex<unsigned char>(u, a[0], b[0]));
            else if (t[1] == "16") vh::emit(doHex<unsigned short>(u, a[0], b[0]));
            else if (t[1] == "32") vh::emit(doHex<unsigned int>(u, a[0], b[0]));
            else if (t[1] == "64") vh::emit(doHex<unsigned long long>(u, a[0], b[0]));
            else vh::emit("bad-op");
        } else if (t.size() == 3 && t[0] == "s2nhexlen" && vh::parse_nats(t[2], u)) {
            if (t[1] == "8") vh::emit(doHexLen<unsigned char>(u));
            else if (t[1] == "16") vh::emit(doHexLen<unsigned short>(u));
            else if (t[1] == "32") vh::emit(doHexLen<unsigned int>(u));
            else if (t[1] == "64") vh::emit(doHexLen<unsigned long long>(u));
            else vh::emit("bad-op");
        } else if (t.size() == 5 && t[0] == "s2nlong" && vh::parse_nats(t[1], u) && vh::parse_nats(t[2], a) &&
                   vh::parse_nats(t[3], b) && a.size() == 1 && b.size() == 1 && b[0] <= (1ULL << 31)) {
            std::vector<uint64_t> sfx;
            if (!vh::parse_nats(t[4], sfx)) {
                vh::emit("bad-op");
                continue;
            }
            const size_t n   = u.size() + size_t(b[0]) + sfx.size();
            char        *buf = static_cast<char *>(malloc(n ? n : 1)); // exact size: ASan redzones border it
            size_t       k   = 0;
            for (uint64_t x : u) buf[k++] = char(x);
            memset(buf + k, int(a[0]), size_t(b[0]));
            k += size_t(b[0]);
            for (uint64_t x : sfx) buf[k++] = char(x);
            QNumber64 q;
            q.Natural           = 0xDEADBEEFDEADBEEFULL;
            SizeT             offset = 0;
            const QNumberType ty     = Digit::StringToNumber(q, static_cast<const char *>(buf), offset, SizeT(n));
            free(buf);
            char out[64];
            snprintf(out, sizeof out, "%d %s %u", int(ty), hex16(q.Natural).c_str(), unsigned(offset));
            vh::emit(out);
        } else if (t.size() == 2 && t[0] == "s2nstrtod" && vh::parse_nats(t[1], u)) {
            std::string s;
            for (auto c : u) s.push_back(c < 128 ? char(c) : '?');
            double             d = strtod(s.c_str(), nullptr);
            unsigned long long v;
            memcpy(&v, &d, 8);
            vh::emit(hex16(v));
        } else {
            vh::emit("bad-op");
        }
    }
    return 0;
}
