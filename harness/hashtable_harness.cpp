// Correspondence harness for C13: HArray / HList driven by whole operation sequences.
//   htrun <A|B|L> <ops>  ->  one record per step joined by '|', then " @ " and the verdict of the
//                            ordered-map oracle (std::vector reference, evaluated after every step)
//   A = HArray<String<char>, String<char>>   (owning strings as values)
//   B = HArray<String<char>, Value<char>>    (nested values: object holding a number and an array)
//   L = HList<String<char>>                  (no values; printed as 0)
// Operation syntax: see lean/Qentem/Driver/HashTable.lean (W = self-merge h += h, both overloads).
//   htled <A|L> <ops>    ->  "ok"; one table lifetime with every operation done through ONE fixed call
//                            (no dumps, no oracle, no extra temporaries) so that the allocation trace
//                            appended by vh::emit (-DVERIF_LEDGER) is the library's own; the model of
//                            that trace is lean/Qentem/Model/HashLedger.lean (driver op htled)
// Arguments aliasing an element of the same table (value semantics: read the argument first):
//   IV/k/k2  Insert(k, <value stored under k2>)  both const-value overloads     IK/i/v  Insert(<key at slot i>, v)
//   IKV/i/j  Insert(<key at slot i>, <value at slot j>)    GK/i  h[<key at slot i>]    RK/i  Remove(<key at slot i>)
//   NK/i/to  Rename(<key at slot i>, to)                   NT/i/from  Rename(from, <key at slot i>)
// Remaining overloads: RC/k Remove(<C string>)   GC/k h[<C string>]   (keys with an embedded NUL use pointer+length)
// Keys given as pointers INTO the table's own key storage (the stored key of slot i, First()/Length()):
//   PG/i Get(ptr,len)   PB/i h[<C string>]   PI/i/v Insert(ptr,len,v)   PR/i Remove(ptr,len)   PC/i Remove(<C string>)
//   PL/i Has / GetKeyIndex / GetItem(ptr,len,hash) / GetValue(ptr,len[,hash])
// Record = out#size cap heads#items, items = key/Hash/Next/value-id joined by ';'.
// Bucket heads are read at Storage() - Capacity() (HashTable.hpp layout), no private access.
#include "ledger.hpp" // first: with -DVERIF_LEDGER the library's Allocate/Deallocate are logged
#include "common.hpp"
#include "HArray.hpp"
#include "HList.hpp"
#include "String.hpp"
#include "Value.hpp"
#include <algorithm>
#include <set>
#include <utility>

using namespace Qentem;
using Key = String<char>;

static const char *PAD = "_this_value_owns_a_heap_block_";

struct ValStr {
    using T = String<char>;
    static T make(uint64_t id) {
        std::string s = "v" + std::to_string(id) + PAD;
        return T(static_cast<const char *>(s.data()), SizeT(s.size()));
    }
    static uint64_t id(const T &v) {
        if (v.Length() == 0) return 0;
        const char *p = v.First();
        if (p[0] != 'v') return 999999999ULL;
        uint64_t    n = 0;
        SizeT       i = 1;
        while (i < v.Length() && p[i] >= '0' && p[i] <= '9') {
            n = n * 10 + uint64_t(p[i] - '0');
            ++i;
        }
        if (std::string(p + i, v.Length() - i) != PAD) return 999999998ULL;
        return n;
    }
};

struct ValNested {
    using T = Value<char>;
    static T make(uint64_t id) {
        T v;
        v["id"] = SizeT64(id);
        v["arr"] += SizeT64(id);
        v["arr"] += "nested text that lives on the heap";
        v["obj"]["k"] = SizeT64(id + 1);
        return v;
    }
    static uint64_t id(const T &v) {
        if (v.IsUndefined()) return 0;
        if (!v.IsObject()) return 999999999ULL;
        const T *a = v.GetValue("id", 2);
        const T *b = v.GetValue("arr", 3);
        const T *c = v.GetValue("obj", 3);
        if (a == nullptr || b == nullptr || c == nullptr || !b->IsArray() || b->Size() != 2) return 999999998ULL;
        const uint64_t n = uint64_t(a->GetNumber());
        const T       *k = c->GetValue("k", 1);
        if (uint64_t(b->GetValue(0)->GetNumber()) != n || k == nullptr || uint64_t(k->GetNumber()) != n + 1) return 999999997ULL;
        return n;
    }
};

static std::string key_units(const Key &k) { return vh::show_units(k.First(), k.Length()); }

static std::string key_bytes(const std::vector<uint64_t> &u) {
    std::string s;
    for (auto c : u) s.push_back(char(static_cast<unsigned char>(c)));
    return s;
}

static std::vector<uint64_t> units_of(const std::string &s) {
    std::vector<uint64_t> v;
    for (char ch : s) v.push_back(static_cast<unsigned char>(ch));
    return v;
}

// order of `char` (signed on this platform), proper prefix first: what IsLess implements
static bool signed_less(const std::string &a, const std::string &b) {
    size_t i = 0;
    while (i < a.size() && i < b.size()) {
        if (a[i] != b[i]) return a[i] < b[i];
        ++i;
    }
    return a.size() < b.size();
}

template <typename Table, typename VT, bool HasValue>
struct Runner {
    using HItem = typename std::remove_cv<typename std::remove_pointer<decltype(std::declval<Table>().Storage())>::type>::type;
    Table                                         h;
    std::vector<std::pair<std::string, uint64_t>> ref; // the ordered association list
    std::set<std::string>                         universe;
    std::string                                   verdict = "ok";
    unsigned                                      rot     = 0;

    template <bool B = HasValue>
    static typename std::enable_if<B, uint64_t>::type valId(const HItem *it) { return VT::id(it->Value); }
    template <bool B = HasValue>
    static typename std::enable_if<!B, uint64_t>::type valId(const HItem *) { return 0; }

    void bad(const std::string &why, size_t step) {
        if (verdict == "ok") verdict = "step" + std::to_string(step) + ":" + why;
    }

    std::string dump() const {
        std::string s = std::to_string(h.Size()) + " " + std::to_string(h.Capacity()) + " ";
        if (h.Capacity() == 0) {
            s += "-";
        } else {
            const SizeT *heads = reinterpret_cast<const SizeT *>(h.Storage()) - h.Capacity();
            s += vh::show_nats(heads, heads + h.Capacity());
        }
        s += "#";
        if (h.Size() == 0) s += "-";
        const HItem *it = h.Storage();
        for (SizeT i = 0; i < h.Size(); ++i) {
            if (i) s += ";";
            s += key_units(it[i].Key) + "/" + std::to_string(it[i].Hash) + "/" + std::to_string(it[i].Next) + "/" +
                 std::to_string(valId(it + i));
        }
        return s;
    }

    long refFind(const std::string &k) const {
        for (size_t i = 0; i < ref.size(); ++i)
            if (ref[i].first == k) return long(i);
        return -1;
    }
    void refPut(const std::string &k, uint64_t v) {
        long i = refFind(k);
        if (i >= 0) ref[size_t(i)].second = v;
        else ref.emplace_back(k, v);
    }
    void refErase(const std::string &k) {
        long i = refFind(k);
        if (i >= 0) ref.erase(ref.begin() + i);
    }

    template <bool B = HasValue>
    typename std::enable_if<B, bool>::type valueByKeyOk(const std::string &k, bool present, uint64_t v) {
        vh::ExactBuf<char> kb(units_of(k));
        const auto *pv = h.GetValue(static_cast<const char *>(kb.p), SizeT(kb.n));
        if (!present) return pv == nullptr;
        return pv != nullptr && VT::id(*pv) == v;
    }
    template <bool B = HasValue>
    typename std::enable_if<!B, bool>::type valueByKeyOk(const std::string &, bool, uint64_t) { return true; }

    // The ordered-map predicate, evaluated on the real object.
    void oracle(size_t step) {
        // iteration = association list, in order
        std::vector<std::pair<std::string, uint64_t>> seen;
        for (SizeT i = 0; i < h.Size(); ++i) {
            const Key   *k  = h.GetKey(i);
            const HItem *it = h.GetItem(i);
            if ((k == nullptr) != (it == nullptr)) return bad("GetKey/GetItem(index) disagree", step);
            if (k != nullptr) seen.emplace_back(std::string(k->First(), k->Length()), valId(it));
        }
        if (seen != ref) {
            std::string a, b;
            for (auto &p : seen) a += vh::show_units(p.first.data(), p.first.size()) + "=" + std::to_string(p.second) + " ";
            for (auto &p : ref) b += vh::show_units(p.first.data(), p.first.size()) + "=" + std::to_string(p.second) + " ";
            return bad("iteration [" + a + "] expected [" + b + "]", step);
        }
        if (h.GetKey(h.Size()) != nullptr || h.GetItem(h.Size()) != nullptr) return bad("entry past Size()", step);
        // API: HashTable::IsEmpty() const / IsNotEmpty() const / First() const / Last() const / End() const / begin() / end()
        {
            const Table &ch = h;
            if (ch.IsEmpty() != (ch.Size() == 0) || ch.IsNotEmpty() == ch.IsEmpty()) return bad("IsEmpty/IsNotEmpty", step);
            if (ch.First() != ch.Storage() || ch.End() != ch.First() + ch.Size()) return bad("First/End", step);
            if (ch.Last() != (ch.Size() != 0 ? ch.Storage() + (ch.Size() - 1) : nullptr)) return bad("Last", step);
            SizeT n1 = 0, n2 = 0;
            for (const HItem &x : ch) { n1 += SizeT(&x == ch.First() + n1); }          // begin() const / end() const
            for (HItem &x : h) { n2 += SizeT(&x == h.Storage() + n2); }                // begin() / end()
            if (n1 != ch.Size() || n2 != ch.Size()) return bad("begin/end", step);
            // API: HAItem_T / HLItem_T operator< > <= >= == on the stored records (the key order of IsLess)
            for (SizeT i = 0; i + 1 < ch.Size(); ++i) {
                const HItem      &a = ch.First()[i], &b = ch.First()[i + 1];
                const std::string ka(a.Key.First(), a.Key.Length()), kb2(b.Key.First(), b.Key.Length());
                const bool        lt = signed_less(ka, kb2), gt = signed_less(kb2, ka), eq = (ka == kb2);
                if ((a < b) != lt || (a > b) != gt || (a == b) != eq || (a <= b) != (lt || eq) || (a >= b) != (gt || eq))
                    return bad("item comparison operators", step);
            }
            // API: HAItem_T::Clear() / HLItem_T::Clear() on a copy of a stored record
            if (ch.Size() != 0) {
                HItem tmp(*(ch.Last()));
                tmp.Clear();
                if (tmp.Key.Length() != 0 || valId(&tmp) != 0) return bad("item Clear()", step);
            }
        }
        if (h.ActualSize() != ref.size()) return bad("ActualSize", step);
        if (h.Size() > h.Capacity()) return bad("Size > Capacity", step);
        for (const auto &k : universe) {
            long               r = refFind(k);
            vh::ExactBuf<char> kb(units_of(k));
            const char *kp  = kb.p;
            SizeT       idx = 0xFFFFFFFFu;
            const bool  gi  = h.GetKeyIndex(idx, kp, SizeT(kb.n));
            const bool  has = h.Has(kp, SizeT(kb.n));
            const auto *it  = h.GetItem(Key(kp, SizeT(kb.n)));
            if (r < 0) {
                if (gi || has || it != nullptr || !valueByKeyOk(k, false, 0)) return bad("absent key found: " + vh::show_units(k.data(), k.size()), step);
            } else {
                if (!gi || !has || it == nullptr) return bad("stored key not found: " + vh::show_units(k.data(), k.size()), step);
                if (!valueByKeyOk(k, true, ref[size_t(r)].second) || valId(it) != ref[size_t(r)].second)
                    return bad("lookup does not return the last value stored: " + vh::show_units(k.data(), k.size()), step);
                const Key *back = h.GetKey(idx);
                if (back == nullptr || std::string(back->First(), back->Length()) != k || h.GetItem(idx) != it)
                    return bad("key->index->key disagree: " + vh::show_units(k.data(), k.size()), step);
            }
        }
    }

    template <bool B = HasValue>
    typename std::enable_if<B>::type doInsert(const vh::ExactBuf<char> &kb, uint64_t id) {
        const char *kp = kb.p;
        switch (rot++ % 4) {
            case 0: h.Insert(Key(kp, SizeT(kb.n)), VT::make(id)); break;
            case 1: { Key k(kp, SizeT(kb.n)); typename VT::T v = VT::make(id); h.Insert(k, v); break; }
            case 2: h.Insert(kp, SizeT(kb.n), VT::make(id)); break;
            default: { Key k(kp, SizeT(kb.n)); h.Insert(k, VT::make(id)); break; }
        }
    }
    template <bool B = HasValue>
    typename std::enable_if<!B>::type doInsert(const vh::ExactBuf<char> &kb, uint64_t) {
        const char *kp = kb.p;
        switch (rot++ % 3) {
            case 0: h.Insert(kp, SizeT(kb.n)); break;
            case 1: { Key k(kp, SizeT(kb.n)); h.Insert(k); break; }
            default: h.Insert(Key(kp, SizeT(kb.n))); break;
        }
    }
    template <bool B = HasValue>
    typename std::enable_if<B, typename VT::T *>::type doGet(const vh::ExactBuf<char> &kb) {
        const char *kp = kb.p;
        switch (rot++ % 3) {
            case 0: return &h.Get(kp, SizeT(kb.n));
            case 1: { Key k(kp, SizeT(kb.n)); return &h[k]; }
            default: return &h[Key(kp, SizeT(kb.n))];
        }
    }

    template <bool B = HasValue>
    typename std::enable_if<B>::type tableInsert(Table &t, const Key &k, uint64_t id) { t.Insert(k, VT::make(id)); }
    template <bool B = HasValue>
    typename std::enable_if<!B>::type tableInsert(Table &t, const Key &k, uint64_t) { t.Insert(k); }

    template <bool B = HasValue>
    typename std::enable_if<B, std::string>::type opGet(const vh::ExactBuf<char> &kb, const std::string &ks) {
        typename VT::T *v  = doGet(kb);
        const uint64_t  id = VT::id(*v);
        if (refFind(ks) < 0) ref.emplace_back(ks, 0);
        return "v" + std::to_string(id);
    }
    template <bool B = HasValue>
    typename std::enable_if<!B, std::string>::type opGet(const vh::ExactBuf<char> &, const std::string &) { return "unsupported"; }
    template <bool B = HasValue>
    typename std::enable_if<B, std::string>::type opAssign(const vh::ExactBuf<char> &kb, const std::string &ks, uint64_t id) {
        *doGet(kb) = VT::make(id);
        refPut(ks, id);
        return "u";
    }
    template <bool B = HasValue>
    typename std::enable_if<!B, std::string>::type opAssign(const vh::ExactBuf<char> &, const std::string &, uint64_t) { return "unsupported"; }

    template <bool B = HasValue>
    typename std::enable_if<B, bool>::type valuePtrOk(const vh::ExactBuf<char> &kb, const HItem *it) {
        const char *kp = kb.p;
        const auto *pv = h.GetValue(kp, SizeT(kb.n));
        const auto *pk = h.GetValue(Key(kp, SizeT(kb.n)));
        // API: HArray::GetValue(const Char_T *key, const SizeT length, const SizeT hash) const
        const auto *ph = h.GetValue(kp, SizeT(kb.n), StringUtils::Hash(kp, SizeT(kb.n)));
        return pv == pk && pv == ph && ((it == nullptr) ? (pv == nullptr) : (pv == &(it->Value)));
    }
    template <bool B = HasValue>
    typename std::enable_if<!B, bool>::type valuePtrOk(const vh::ExactBuf<char> &, const HItem *) { return true; }
    template <bool B = HasValue>
    typename std::enable_if<B, bool>::type valueIdxOk(SizeT i, const HItem *it) {
        const auto *pv = h.GetValue(i);
        return (it == nullptr) ? (pv == nullptr) : (pv == &(it->Value));
    }
    template <bool B = HasValue>
    typename std::enable_if<!B, bool>::type valueIdxOk(SizeT, const HItem *) { return true; }

    // Insert(key, const Value_T &value) where `value` is the value stored under key2 in this table
    template <bool B = HasValue>
    typename std::enable_if<B, std::string>::type aliasInsertValue(const std::string &ks, const std::string &ks2) {
        vh::ExactBuf<char> kb2(units_of(ks2));
        const char        *kp2 = kb2.p;
        const auto        *pv  = h.GetValue(kp2, SizeT(kb2.n));
        if (pv == nullptr) return "u";
        const uint64_t id = VT::id(*pv); // what the argument is worth before the call
        if (rot++ % 2) {
            Key k(ks.data(), SizeT(ks.size()));
            h.Insert(k, *pv); // (const Key_T &, const Value_T &)
        } else {
            h.Insert(Key(ks.data(), SizeT(ks.size())), *pv); // (Key_T &&, const Value_T &)
        }
        refPut(ks, id);
        return "u";
    }
    template <bool B = HasValue>
    typename std::enable_if<!B, std::string>::type aliasInsertValue(const std::string &, const std::string &) { return "u"; }

    // Insert(<stored key at slot i>, ...): the key argument is an element of this table
    template <bool B = HasValue>
    typename std::enable_if<B, std::string>::type aliasInsertKey(SizeT i, bool value_too, uint64_t m) {
        const Key *k = h.GetKey(i);
        if (k == nullptr) return "u";
        const std::string ks(k->First(), k->Length());
        if (value_too) {
            const auto *pv = h.GetValue(SizeT(m));
            if (pv == nullptr) return "u";
            const uint64_t id = VT::id(*pv);
            h.Insert(*k, *pv); // both arguments live in the table
            refPut(ks, id);
        } else {
            h.Insert(*k, VT::make(m));
            refPut(ks, m);
        }
        return "u";
    }
    template <bool B = HasValue>
    typename std::enable_if<!B, std::string>::type aliasInsertKey(SizeT i, bool, uint64_t) {
        const Key *k = h.GetKey(i);
        if (k == nullptr) return "u";
        h.Insert(*k); // HList::Insert(const Key_T &)
        return "u";
    }
    template <bool B = HasValue>
    typename std::enable_if<B, std::string>::type aliasGet(const Key &k) {
        auto &v = h[k]; // operator[](const Key_T &) with the stored key
        return "v" + std::to_string(VT::id(v));
    }
    template <bool B = HasValue>
    typename std::enable_if<!B, std::string>::type aliasGet(const Key &) { return "u"; }

    // operator[](const Char_T *) / Get(ptr, len) / GetValue with explicit or own-storage pointers
    template <bool B = HasValue>
    typename std::enable_if<B, std::string>::type getCstr(const char *kp, SizeT len, bool cstr, const std::string &ks) {
        // API: HArray::operator[](const Char_T *key)
        typename VT::T &v = cstr ? h[kp] : h.Get(kp, len);
        if (refFind(ks) < 0) ref.emplace_back(ks, 0);
        return "v" + std::to_string(VT::id(v));
    }
    template <bool B = HasValue>
    typename std::enable_if<!B, std::string>::type getCstr(const char *, SizeT, bool, const std::string &) { return "u"; }
    template <bool B = HasValue>
    typename std::enable_if<B, std::string>::type getOwn(const char *kp, SizeT len, bool cstr) {
        // the key pointer refers to the stored key's own characters; Get() may grow the table first
        typename VT::T &v = cstr ? h[kp] : h.Get(kp, len); // API: HArray::Get(const Char_T *key, const SizeT length)  [own storage]
        return "v" + std::to_string(VT::id(v));
    }
    template <bool B = HasValue>
    typename std::enable_if<!B, std::string>::type getOwn(const char *, SizeT, bool) { return "u"; }
    template <bool B = HasValue>
    typename std::enable_if<B, bool>::type ownValueOk(const char *kp, SizeT len, const HItem *it) {
        return h.GetValue(kp, len) == &(it->Value) && h.GetValue(kp, len, StringUtils::Hash(kp, len)) == &(it->Value); // [own storage]
    }
    template <bool B = HasValue>
    typename std::enable_if<!B, bool>::type ownValueOk(const char *, SizeT, const HItem *) { return true; }
    template <bool B = HasValue>
    typename std::enable_if<B>::type insertOwn(const char *kp, SizeT len, uint64_t id) {
        h.Insert(kp, len, VT::make(id)); // API: HArray::Insert(const Char_T *key, const SizeT length, Value_T &&value)  [own storage]
    }
    template <bool B = HasValue>
    typename std::enable_if<!B>::type insertOwn(const char *kp, SizeT len, uint64_t) {
        h.Insert(kp, len); // API: HList::Insert(const Char_T *key, const SizeT length)  [own storage]
    }

    // returns the `out` field; "" = malformed op
    std::string apply(const std::string &op, size_t step) {
        auto                  f = vh::split(op, '/');
        std::vector<uint64_t> u, u2;
        const std::string    &c = f[0];
        auto num = [](const std::string &s, uint64_t &n) {
            if (s.empty()) return false;
            n = 0;
            for (char ch : s) {
                if (ch < '0' || ch > '9') return false;
                n = n * 10 + uint64_t(ch - '0');
            }
            return true;
        };
        uint64_t n = 0;
        if ((c == "I" || c == "A") && f.size() == 3 && vh::parse_nats(f[1], u) && num(f[2], n)) {
            vh::ExactBuf<char> kb(u);
            const std::string  ks = key_bytes(u);
            universe.insert(ks);
            if (c == "A") return opAssign(kb, ks, n);
            doInsert(kb, HasValue ? n : 0);
            refPut(ks, HasValue ? n : 0);
            return "u";
        }
        if ((c == "G" || c == "L" || c == "R") && f.size() == 2 && vh::parse_nats(f[1], u)) {
            vh::ExactBuf<char> kb(u);
            const char        *kp = kb.p;
            const std::string  ks = key_bytes(u);
            universe.insert(ks);
            if (c == "G") return opGet(kb, ks);
            if (c == "R") {
                if (rot++ % 2) h.Remove(kp, SizeT(kb.n));
                else h.Remove(Key(kp, SizeT(kb.n)));
                refErase(ks);
                return "u";
            }
            SizeT        idx = 0xFFFFFFFFu, idx2 = 0xFFFFFFFFu;
            const bool   gi  = h.GetKeyIndex(idx, kp, SizeT(kb.n));
            const bool   gi2 = h.GetKeyIndex(idx2, Key(kp, SizeT(kb.n)));
            const bool   has = h.Has(kp, SizeT(kb.n));
            const HItem *it  = h.GetItem(Key(kp, SizeT(kb.n)));
            // API: HashTable::GetItem(const Char_T *key, const SizeT length, const SizeT hash) const
            const HItem *ith = h.GetItem(kp, SizeT(kb.n), StringUtils::Hash(kp, SizeT(kb.n)));
            if (gi != has || gi != gi2 || idx != idx2 || has != (it != nullptr) || has != h.Has(Key(kp, SizeT(kb.n))) || !valuePtrOk(kb, it) ||
                ith != it || (it != nullptr && it != h.Storage() + idx))
                return "INCONSISTENT-LOOKUPS";
            if (it == nullptr) return "n";
            return "f" + std::to_string(idx) + ":" + std::to_string(valId(it));
        }
        if ((c == "X" || c == "D" || c == "V" || c == "Z" || c == "E") && f.size() == 2 && num(f[1], n) && n < 100000) {
            const SizeT i = SizeT(n);
            if (c == "X") {
                const Key   *k  = h.GetKey(i);
                const HItem *it = h.GetItem(i);
                if ((k == nullptr) != (it == nullptr) || (it != nullptr && (k != &(it->Key) || it != h.Storage() + i)) || !valueIdxOk(i, it))
                    return "INCONSISTENT-LOOKUPS";
                if (it == nullptr) return "n";
                return "e" + key_units(*k) + ":" + std::to_string(valId(it));
            }
            if (c == "D") {
                const Key *k = h.GetKey(i);
                if (k != nullptr) refErase(std::string(k->First(), k->Length()));
                h.RemoveIndex(i);
                return "u";
            }
            if (c == "V") { h.Reserve(i); ref.clear(); return "u"; }
            if (c == "Z") {
                for (SizeT j = i; j < h.Size(); ++j) {
                    const Key *k = h.GetKey(j);
                    if (k != nullptr) refErase(std::string(k->First(), k->Length()));
                }
                h.Resize(i);
                return "u";
            }
            h.Expect(i);
            return "u";
        }
        // ---- NUL-terminated key overloads (a key with an embedded NUL goes through pointer+length instead)
        if ((c == "RC" || c == "GC") && f.size() == 2 && vh::parse_nats(f[1], u)) {
            const std::string ks = key_bytes(u);
            universe.insert(ks);
            const bool cstr = (ks.find('\0') == std::string::npos);
            std::vector<uint64_t> uz(u);
            uz.push_back(0);
            vh::ExactBuf<char> kz(uz); // exact-size, NUL-terminated
            const char        *kp = kz.p;
            if (c == "RC") {
                if (cstr) h.Remove(kp); // API: HashTable::Remove(const Char_T *key) const
                else h.Remove(kp, SizeT(ks.size()));
                refErase(ks);
                return "u";
            }
            return getCstr(kp, SizeT(ks.size()), cstr, ks);
        }
        // ---- the key given as a pointer INTO the table's own key storage (stored key at slot i)
        if ((c == "PG" || c == "PR" || c == "PC" || c == "PL" || c == "PB") && f.size() == 2 && num(f[1], n) && n < 100000) {
            const Key *k = h.GetKey(SizeT(n));
            if (k == nullptr) return "u";
            const std::string ks(k->First(), k->Length());
            const char       *kp  = k->First(); // points into the block the stored key owns (NUL-terminated by copyString)
            const SizeT       len = k->Length();
            const bool        cstr = (ks.find('\0') == std::string::npos);
            if (c == "PR" || c == "PC") {
                if (c == "PC" && cstr) h.Remove(kp); // API: HashTable::Remove(const Char_T *key) const  [own storage]
                else h.Remove(kp, len);              // API: HashTable::Remove(const Char_T *key, SizeT length) const  [own storage]
                refErase(ks);
                return "u";
            }
            if (c == "PL") {
                SizeT        idx = 0xFFFFFFFFu;
                const bool   gi  = h.GetKeyIndex(idx, kp, len);                       // [own storage]
                const bool   has = h.Has(kp, len);                                    // [own storage]
                const HItem *it  = h.GetItem(kp, len, StringUtils::Hash(kp, len));     // [own storage]
                if (!gi || !has || it == nullptr || it != h.Storage() + idx || idx != SizeT(n) || !ownValueOk(kp, len, it)) return "INCONSISTENT-LOOKUPS";
                return "f" + std::to_string(idx) + ":" + std::to_string(valId(it));
            }
            return (c == "PG") ? getOwn(kp, len, false) : getOwn(kp, len, cstr);
        }
        if (c == "PI" && f.size() == 3 && num(f[1], n) && n < 100000) {
            uint64_t m = 0;
            if (!num(f[2], m)) return "";
            const Key *k = h.GetKey(SizeT(n));
            if (k == nullptr) return "u";
            const std::string ks(k->First(), k->Length());
            insertOwn(k->First(), k->Length(), m);
            refPut(ks, HasValue ? m : 0);
            return "u";
        }
        // ---- arguments that refer to an element of the SAME table (value semantics: the argument is
        //      read before anything changes); slot numbers address the element
        if (c == "IV" && f.size() == 3 && vh::parse_nats(f[1], u) && vh::parse_nats(f[2], u2)) {
            // Insert(key, const Value_T &) with the value of key2 stored in this table
            const std::string ks = key_bytes(u), ks2 = key_bytes(u2);
            universe.insert(ks);
            universe.insert(ks2);
            return aliasInsertValue(ks, ks2);
        }
        if ((c == "IK" || c == "IKV") && f.size() == 3 && num(f[1], n) && n < 100000) {
            uint64_t m = 0;
            if (!num(f[2], m)) return "";
            return aliasInsertKey(SizeT(n), c == "IKV", m);
        }
        if ((c == "GK" || c == "RK") && f.size() == 2 && num(f[1], n) && n < 100000) {
            const Key *k = h.GetKey(SizeT(n));
            if (k == nullptr) return "u";
            const std::string ks(k->First(), k->Length());
            if (c == "RK") {
                h.Remove(*k); // the argument is the stored key itself
                refErase(ks);
                return "u";
            }
            return aliasGet(*k);
        }
        if ((c == "NK" || c == "NT") && f.size() == 3 && vh::parse_nats(f[2], u)) {
            // NK/i/to: Rename(<stored key at i>, to)      NT/i/from: Rename(from, <stored key at i>)
            if (!num(f[1], n) || n >= 100000) return "";
            const std::string other = key_bytes(u);
            universe.insert(other);
            const Key *k = h.GetKey(SizeT(n));
            if (k == nullptr) return "u";
            const std::string stored(k->First(), k->Length());
            Key               o(other.data(), SizeT(other.size()));
            const std::string ka = (c == "NK") ? stored : other, kb2 = (c == "NK") ? other : stored;
            const bool        r  = (c == "NK") ? ((rot++ % 2) ? h.Rename(*k, o) : h.Rename(*k, Memory::Move(o))) : h.Rename(o, *k);
            const long        i  = refFind(ka);
            const bool        expect = (i >= 0 && refFind(kb2) < 0);
            if (expect) ref[size_t(i)].first = kb2;
            if (expect != r) bad("Rename returned the wrong flag", step);
            return std::string("b") + (r ? "1" : "0");
        }
        if (c == "N" && f.size() == 3 && vh::parse_nats(f[1], u) && vh::parse_nats(f[2], u2)) {
            vh::ExactBuf<char> a(u), b(u2);
            const std::string  ka = key_bytes(u), kb2 = key_bytes(u2);
            universe.insert(ka);
            universe.insert(kb2);
            const char *ap = a.p, *bp = b.p;
            Key         from(ap, SizeT(a.n)), to(bp, SizeT(b.n));
            const bool  r = (rot++ % 2) ? h.Rename(from, to) : h.Rename(from, Key(bp, SizeT(b.n)));
            const long  i = refFind(ka);
            const bool  expect = (i >= 0 && refFind(kb2) < 0);
            if (expect) ref[size_t(i)].first = kb2;
            if (expect != r) bad("Rename returned the wrong flag", step);
            return std::string("b") + (r ? "1" : "0");
        }
        if (c == "C" && f.size() == 1) { h.Compress(); return "u"; }
        if (c == "K" && f.size() == 1) { h.Clear(); ref.clear(); return "u"; }
        if (c == "T" && f.size() == 1) { h.Reset(); ref.clear(); return "u"; }
        if (c == "S" && f.size() == 2 && (f[1] == "0" || f[1] == "1")) {
            const bool asc = (f[1] == "1");
            h.Sort(asc);
            std::sort(ref.begin(), ref.end(), [asc](const std::pair<std::string, uint64_t> &x, const std::pair<std::string, uint64_t> &y) {
                return asc ? signed_less(x.first, y.first) : signed_less(y.first, x.first);
            });
            return "u";
        }
        if (c == "Y" && f.size() == 1) {
            switch (rot++ % 3) {
                case 0: { Table t(h); h = Memory::Move(t); break; }
                case 1: { Table t; t = h; h = Memory::Move(t); break; }
                default: {
                    Table t;
                    tableInsert(t, Key("zz"), 7);
                    tableInsert(t, Key("yy"), 8);
                    t.Remove(Key("zz"));
                    t = h;
                    Table t2(2);
                    h = t2; // copy-assign from an allocated but empty table, then take the copy
                    if (h.Size() != 0 || h.Capacity() != 0) bad("copy of an empty table is not empty", step);
                    h = Memory::Move(t);
                    break;
                }
            }
            return "u";
        }
        if (c == "M" && f.size() == 1) {
            Table m(Memory::Move(h));
            if (h.Size() != 0 || h.Capacity() != 0 || h.First() != nullptr) bad("moved-from table not empty", step);
            if (rot++ % 2) {
                tableInsert(h, Key("tmp"), 3); // the moved-from object must be usable and then replaceable
                if (h.Size() != 1) bad("moved-from table unusable", step);
            }
            h = Memory::Move(m);
            if (m.Size() != 0 || m.Capacity() != 0) bad("moved-from table not empty", step);
            return "u";
        }
        if ((c == "P" || c == "Q") && f.size() == 3) {
            Table                                         src;
            std::vector<std::pair<std::string, uint64_t>> sref;
            if (f[1] != "-") {
                for (const auto &kv : vh::split(f[1], '&')) {
                    auto p = vh::split(kv, '=');
                    if (p.size() != 2 || !vh::parse_nats(p[0], u) || !num(p[1], n)) return "";
                    const std::string ks = key_bytes(u);
                    universe.insert(ks);
                    tableInsert(src, Key(ks.data(), SizeT(ks.size())), HasValue ? n : 0);
                    bool found = false;
                    for (auto &e : sref)
                        if (e.first == ks) { e.second = HasValue ? n : 0; found = true; }
                    if (!found) sref.emplace_back(ks, HasValue ? n : 0);
                }
            }
            if (f[2] != "-") {
                for (const auto &k : vh::split(f[2], '&')) {
                    if (!vh::parse_nats(k, u)) return "";
                    const std::string ks = key_bytes(u);
                    universe.insert(ks);
                    src.Remove(Key(ks.data(), SizeT(ks.size())));
                    for (size_t i = 0; i < sref.size(); ++i)
                        if (sref[i].first == ks) { sref.erase(sref.begin() + long(i)); break; }
                }
            }
            const SizeT src_size = src.Size();
            if (c == "P") {
                h += src;
                if (src.Size() != src_size) bad("copy-merge changed its source", step);
            } else {
                h += Memory::Move(src);
                if (src.Size() != 0 || src.Capacity() != 0) bad("move-merge source not emptied", step);
            }
            for (const auto &e : sref) refPut(e.first, e.second);
            return "u";
        }
        if (c == "W" && f.size() == 1) {
            if (rot++ % 2) h += h;
            else h += Memory::Move(h);
            return "u";
        }
        return "";
    }

    std::string runOps(const std::string &ops) {
        std::string out;
        if (ops == "-") return "- @ ok";
        size_t step = 0;
        for (const auto &op : vh::split(ops, ';')) {
            std::string o = apply(op, step);
            if (o.empty()) return "bad-op";
            if (step) out += "|";
            out += o + "#" + dump();
            oracle(step);
            ++step;
        }
        return out + " @ " + verdict;
    }
};


// ---- allocation-ledger runner (C16): canonical calls, see Model/HashLedger.lean ----------------
template <typename Table, typename VT, bool HasValue>
struct LedRunner {
    template <bool B = HasValue>
    static typename std::enable_if<B>::type ins(Table &t, const char *kp, SizeT n, uint64_t id) {
        Key            k(kp, n);
        typename VT::T v = VT::make(id);
        t.Insert(Memory::Move(k), Memory::Move(v));
    }
    template <bool B = HasValue>
    static typename std::enable_if<!B>::type ins(Table &t, const char *kp, SizeT n, uint64_t) {
        Key k(kp, n);
        t.Insert(Memory::Move(k));
    }
    template <bool B = HasValue>
    static typename std::enable_if<B, bool>::type getOp(Table &t, const char *kp, SizeT n) { t.Get(kp, n); return true; }
    template <bool B = HasValue>
    static typename std::enable_if<!B, bool>::type getOp(Table &, const char *, SizeT) { return false; }
    template <bool B = HasValue>
    static typename std::enable_if<B, bool>::type assignOp(Table &t, const char *kp, SizeT n, uint64_t id) {
        typename VT::T  v = VT::make(id);
        typename VT::T &r = t.Get(kp, n);
        r                 = Memory::Move(v);
        return true;
    }
    template <bool B = HasValue>
    static typename std::enable_if<!B, bool>::type assignOp(Table &, const char *, SizeT, uint64_t) { return false; }
    template <bool B = HasValue>
    static typename std::enable_if<B>::type lookupVal(Table &t, const char *kp, SizeT n) { (void)t.GetValue(kp, n); }
    template <bool B = HasValue>
    static typename std::enable_if<!B>::type lookupVal(Table &, const char *, SizeT) {}

    static bool num(const std::string &s, uint64_t &n) {
        if (s.empty()) return false;
        n = 0;
        for (char ch : s) {
            if (ch < '0' || ch > '9') return false;
            n = n * 10 + uint64_t(ch - '0');
        }
        return true;
    }

    static bool buildOperand(Table &src, const std::string &insf, const std::string &remf) {
        std::vector<uint64_t> u;
        uint64_t              n = 0;
        if (insf != "-") {
            for (const auto &kv : vh::split(insf, '&')) {
                auto p = vh::split(kv, '=');
                if (p.size() != 2 || !vh::parse_nats(p[0], u) || !num(p[1], n)) return false;
                vh::ExactBuf<char> kb(u);
                ins(src, static_cast<const char *>(kb.p), SizeT(kb.n), n);
            }
        }
        if (remf != "-") {
            for (const auto &k : vh::split(remf, '&')) {
                if (!vh::parse_nats(k, u)) return false;
                vh::ExactBuf<char> kb(u);
                src.Remove(static_cast<const char *>(kb.p), SizeT(kb.n));
            }
        }
        return true;
    }

    static bool apply(Table &h, const std::string &op) {
        auto                  f = vh::split(op, '/');
        std::vector<uint64_t> u, u2;
        const std::string    &c = f[0];
        uint64_t              n = 0;
        if ((c == "I" || c == "A") && f.size() == 3 && vh::parse_nats(f[1], u) && num(f[2], n)) {
            vh::ExactBuf<char> kb(u);
            const char        *kp = kb.p;
            if (c == "I") { ins(h, kp, SizeT(kb.n), n); return true; }
            return assignOp(h, kp, SizeT(kb.n), n);
        }
        if ((c == "G" || c == "L" || c == "R") && f.size() == 2 && vh::parse_nats(f[1], u)) {
            vh::ExactBuf<char> kb(u);
            const char        *kp = kb.p;
            if (c == "G") return getOp(h, kp, SizeT(kb.n));
            if (c == "R") { h.Remove(kp, SizeT(kb.n)); return true; }
            SizeT idx = 0;
            lookupVal(h, kp, SizeT(kb.n));
            (void)h.Has(kp, SizeT(kb.n));
            (void)h.GetKeyIndex(idx, kp, SizeT(kb.n));
            return true;
        }
        if ((c == "X" || c == "D" || c == "V" || c == "Z" || c == "E") && f.size() == 2 && num(f[1], n) && n < 100000) {
            const SizeT i = SizeT(n);
            if (c == "X") { (void)h.GetKey(i); (void)h.GetItem(i); }
            else if (c == "D") h.RemoveIndex(i);
            else if (c == "V") h.Reserve(i);
            else if (c == "Z") h.Resize(i);
            else h.Expect(i);
            return true;
        }
        if (c == "N" && f.size() == 3 && vh::parse_nats(f[1], u) && vh::parse_nats(f[2], u2)) {
            vh::ExactBuf<char> a(u), b(u2);
            const char        *ap = a.p, *bp = b.p;
            Key                from(ap, SizeT(a.n));
            Key                to(bp, SizeT(b.n));
            (void)h.Rename(from, Memory::Move(to));
            return true;
        }
        if (c == "C" && f.size() == 1) { h.Compress(); return true; }
        if (c == "K" && f.size() == 1) { h.Clear(); return true; }
        if (c == "T" && f.size() == 1) { h.Reset(); return true; }
        if (c == "S" && f.size() == 2 && (f[1] == "0" || f[1] == "1")) { h.Sort(f[1] == "1"); return true; }
        if (c == "Y" && f.size() == 1) { Table t(h); h = Memory::Move(t); return true; }
        if (c == "M" && f.size() == 1) { Table m(Memory::Move(h)); h = Memory::Move(m); return true; }
        if ((c == "P" || c == "Q") && f.size() == 3) {
            Table src;
            if (!buildOperand(src, f[1], f[2])) return false;
            if (c == "P") h += src;
            else h += Memory::Move(src);
            return true;
        }
        if (c == "W" && f.size() == 1) { h += h; return true; }
        return false;
    }

    static std::string runOps(const std::string &ops) {
        Table h;
        if (ops == "-") return "ok";
        for (const auto &op : vh::split(ops, ';'))
            if (!apply(h, op)) return "bad-op";
        return "ok";
    } // ~Table here: every library object of the line is gone before vh::emit
};

// ---- big tables (C13: "across every growth and rehash" beyond 2^16 buckets) ------------------------
//   htbig <A|L> <n>  ->  one record per phase, '|'-joined:  size cap actual found absent idx val ordhash
//   phases: n inserts | copy-construct + move back | Sort(true) | remove the even-numbered keys | Compress |
//           Resize(n/4).  After each phase EVERY key ever inserted is looked up: found (and `absent` = removed
//   keys that are not found), idx = GetKeyIndex -> GetKey round trips, val = value is the one stored;
//   ordhash = Adler-32 over (key, 0, value, 1) of the live slots in index order.  Keys: decimal of (i*48271 mod 2^31-1).
static std::string big_key(uint64_t i) { return std::to_string(((i + 1) * 48271ULL) % 2147483647ULL); }

template <typename Table, bool HasValue>
struct BigRunner {
    template <bool B = HasValue>
    static typename std::enable_if<B>::type ins(Table &h, const std::string &k, SizeT v) {
        const char *kp = k.data();
        h.Insert(Key(kp, SizeT(k.size())), SizeT(v));
    }
    template <bool B = HasValue>
    static typename std::enable_if<!B>::type ins(Table &h, const std::string &k, SizeT) {
        const char *kp = k.data();
        h.Insert(kp, SizeT(k.size()));
    }
    template <bool B = HasValue>
    static typename std::enable_if<B, bool>::type valOk(const Table &h, const char *kp, SizeT len, SizeT idx, SizeT v) {
        const SizeT *a = h.GetValue(kp, len), *b = h.GetValue(idx);
        return a != nullptr && a == b && *a == v;
    }
    template <bool B = HasValue>
    static typename std::enable_if<!B, bool>::type valOk(const Table &, const char *, SizeT, SizeT, SizeT) { return true; }
    template <bool B = HasValue>
    static typename std::enable_if<B, uint64_t>::type valOf(const Table &h, SizeT i) { return *h.GetValue(i); }
    template <bool B = HasValue>
    static typename std::enable_if<!B, uint64_t>::type valOf(const Table &, SizeT) { return 0; }

    static std::string phase(const Table &h, uint64_t n, const std::vector<char> &removed) {
        uint64_t found = 0, absent = 0, idxok = 0, valok = 0;
        for (uint64_t i = 0; i < n; ++i) {
            const std::string k  = big_key(i);
            const char       *kp = k.data();
            SizeT             idx = 0;
            const bool        f   = h.GetKeyIndex(idx, kp, SizeT(k.size())) && h.Has(kp, SizeT(k.size()));
            if (!f) { absent += removed[i] ? 1 : 0; continue; }
            ++found;
            const Key *back = h.GetKey(idx);
            if (back != nullptr && back->IsEqual(kp, SizeT(k.size()))) ++idxok;
            if (valOk(h, kp, SizeT(k.size()), idx, SizeT(i + 1))) ++valok;
        }
        uint64_t ha = 1, hb = 0; // Adler-32 (zlib.adler32 on the reference side)
        auto     mix = [&ha, &hb](unsigned char c) { ha = (ha + c) % 65521; hb = (hb + ha) % 65521; };
        for (SizeT i = 0; i < h.Size(); ++i) {
            const Key *k = h.GetKey(i);
            if (k == nullptr) continue;
            for (SizeT j = 0; j < k->Length(); ++j) mix(static_cast<unsigned char>(k->First()[j]));
            mix(0);
            for (char c : std::to_string(valOf(h, i))) mix(static_cast<unsigned char>(c));
            mix(1);
        }
        return std::to_string(h.Size()) + " " + std::to_string(h.Capacity()) + " " + std::to_string(h.ActualSize()) + " " + std::to_string(found) +
               " " + std::to_string(absent) + " " + std::to_string(idxok) + " " + std::to_string(valok) + " " + std::to_string((hb << 16) | ha);
    }

    static std::string run(uint64_t n) {
        std::string       out;
        std::vector<char> removed(n, 0);
        Table             h;
        for (uint64_t i = 0; i < n; ++i) ins(h, big_key(i), SizeT(i + 1));
        out += phase(h, n, removed);
        { Table t(h); h = Memory::Move(t); }
        out += "|" + phase(h, n, removed);
        h.Sort(true);
        out += "|" + phase(h, n, removed);
        for (uint64_t i = 0; i < n; i += 2) {
            const std::string k = big_key(i);
            const char       *kp = k.data();
            h.Remove(kp, SizeT(k.size()));
            removed[i] = 1;
        }
        out += "|" + phase(h, n, removed);
        h.Compress();
        out += "|" + phase(h, n, removed);
        // Resize(n/4) keeps the first n/4 slots: which keys those are is decided by the caller's reference
        h.Resize(SizeT(n / 4));
        for (uint64_t i = 0; i < n; ++i) removed[i] = 1; // `absent` then counts every key that is not found
        out += "|" + phase(h, n, removed);
        return out;
    }
};

int main() {
    std::string line;
    while (vh::read_line(line)) {
        auto        t = vh::split(line);
        std::string out;
        if (t.size() == 3 && t[0] == "htrun") {
            if (t[1] == "A") {
                Runner<HArray<Key, String<char>>, ValStr, true> r;
                out = r.runOps(t[2]);
            } else if (t[1] == "B") {
                Runner<HArray<Key, Value<char>>, ValNested, true> r;
                out = r.runOps(t[2]);
            } else if (t[1] == "L") {
                Runner<HList<Key>, ValStr, false> r;
                out = r.runOps(t[2]);
            } else {
                out = "bad-op";
            }
        } else if (t.size() == 3 && t[0] == "htled") {
            if (t[1] == "A") out = LedRunner<HArray<Key, String<char>>, ValStr, true>::runOps(t[2]);
            else if (t[1] == "B") out = LedRunner<HArray<Key, Value<char>>, ValNested, true>::runOps(t[2]);
            else if (t[1] == "L") out = LedRunner<HList<Key>, ValStr, false>::runOps(t[2]);
            else out = "bad-op";
        } else if (t.size() == 2 && t[0] == "htwrap") {
            // recorded finding alloc-size-wrap: a request of 2^30 slots makes the allocation size wrap in
            // 32-bit SizeT (0 bytes allocated, capacity 2^30); the next Insert walks off the block.
            HList<Key> h;
            h.Reserve(SizeT(1u << 30));
            const char k[] = "a";
            h.Insert(Key{k, 1});
            out = "survived";
        } else if (t.size() == 3 && t[0] == "htbig") {
            const uint64_t n = strtoull(t[2].c_str(), nullptr, 10);
            if (n == 0 || n > 2000000) out = "bad-op";
            else if (t[1] == "A") out = BigRunner<HArray<Key, SizeT>, true>::run(n);
            else if (t[1] == "L") out = BigRunner<HList<Key>, false>::run(n);
            else out = "bad-op";
        } else if (t.size() == 2 && t[0] == "hthash") {
            std::vector<uint64_t> u;
            if (!vh::parse_nats(t[1], u)) {
                out = "bad-op";
            } else {
                vh::ExactBuf<char> kb(u);
                const char        *kp = kb.p;
                out                   = std::to_string(StringUtils::Hash(kp, SizeT(kb.n)));
            }
        } else {
            out = "bad-op";
        }
        vh::emit(out); // all library objects of the line have been destroyed
    }
    return 0;
}
