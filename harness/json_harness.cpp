// Correspondence / oracle harness for C05-C08: JSON::Parse and Value::Stringify on exact-size buffers.
//
//   jsparse <w> <units>            -> canonical dump of JSON::Parse(content, length)
//   jsparseS <w> <units>           -> the same through JSON::Parse(stream, content, length) with a long-lived scratch stream
//   jsrt <w> <prec> <valueexpr>    -> build the tree through the public Value API, then
//                                     <text units> | <dump(parse(text))> | <dump(tree)> | <text of stringify(parse(text))>
//   jsesc <w> <units>              -> JSONUtils::Escape(units)
//   jsunesc <w> <units>            -> JSONUtils::UnEscape(units, n): "<ret> <stream units>"
//
// Dump syntax (no spaces): U N T F n<hex> i<hex16> r<hex16> "u.u.u" [v;v] {"k":v;"k":v}
// valueexpr adds: *v (pointer to a separately held value), and a member value X = inserted then removed.
#include <new>
#include "ledger.hpp"
#include "common.hpp"
#include "JSON.hpp"
#include <memory>
#include <list>
using namespace Qentem;

template <typename Char_T>
static void dumpStr(std::string &out, const Char_T *p, SizeT n) {
    out += '"';
    char buf[32];
    for (SizeT i = 0; i < n; ++i) {
        using U = typename std::make_unsigned<Char_T>::type;
        snprintf(buf, sizeof buf, "%s%llu", i ? "." : "", (unsigned long long)(U)p[i]);
        out += buf;
    }
    out += '"';
}

// The dump uses only public predicates/getters, which look through pointer-to-value members.
// `normalize`: skip undefined members (what Stringify is specified to omit).
template <typename Char_T>
static void dump(std::string &out, const Value<Char_T> &v, bool normalize) {
    char buf[40];
    if (v.IsUndefined()) { out += 'U'; return; }
    if (v.IsNull()) { out += 'N'; return; }
    if (v.IsTrue()) { out += 'T'; return; }
    if (v.IsFalse()) { out += 'F'; return; }
    if (v.IsUInt64()) { snprintf(buf, sizeof buf, "n%llx", (unsigned long long)v.GetUInt64()); out += buf; return; }
    if (v.IsInt64()) { snprintf(buf, sizeof buf, "i%016llx", (unsigned long long)v.GetInt64()); out += buf; return; }
    if (v.IsDouble()) {
        double             d = v.GetDouble();
        unsigned long long b;
        memcpy(&b, &d, 8);
        snprintf(buf, sizeof buf, "r%016llx", b);
        out += buf;
        return;
    }
    if (v.IsString()) { dumpStr(out, v.StringStorage(), v.Length()); return; }
    if (v.IsArray()) {
        out += '[';
        bool first = true;
        for (SizeT i = 0; i < v.Size(); ++i) {
            const Value<Char_T> *it = v.GetValue(i); // nullptr for an undefined item
            if (it == nullptr || it->IsUndefined()) {
                if (normalize) continue;
                if (!first) out += ';';
                first = false;
                out += 'U';
                continue;
            }
            if (!first) out += ';';
            first = false;
            dump(out, *it, normalize);
        }
        out += ']';
        return;
    }
    if (v.IsObject()) {
        out += '{';
        bool first = true;
        for (SizeT i = 0; i < v.Size(); ++i) {
            const String<Char_T> *k = v.GetKey(i);
            if (k == nullptr) continue; // removed slot
            const Value<Char_T> *it = v.GetValue(i);
            if ((it == nullptr || it->IsUndefined()) && normalize) continue;
            if (!first) out += ';';
            first = false;
            dumpStr(out, k->First(), k->Length());
            out += ':';
            if (it == nullptr || it->IsUndefined()) out += 'U';
            else dump(out, *it, normalize);
        }
        out += '}';
        return;
    }
    out += '?';
}

template <typename Char_T>
struct Builder {
    std::list<Value<Char_T>> held; // targets of pointer members (stable addresses)
    const char              *p;
    bool                     ok = true;

    bool parseUnits(std::vector<uint64_t> &u) {
        u.clear();
        if (*p != '"') return false;
        ++p;
        while (*p && *p != '"') {
            char *e;
            u.push_back(strtoull(p, &e, 10));
            p = e;
            if (*p == '.') ++p;
        }
        if (*p != '"') return false;
        ++p;
        return true;
    }

    // Builds into `out`. Returns false on syntax error.
    bool build(Value<Char_T> &out) {
        switch (*p) {
            case 'U': ++p; out = Value<Char_T>{}; return true;
            case 'N': ++p; out = nullptr; return true;
            case 'T': ++p; out = true; return true;
            case 'F': ++p; out = false; return true;
            case 'n': { ++p; char *e; unsigned long long x = strtoull(p, &e, 16); p = e; out = SizeT64(x); return true; }
            case 'i': { ++p; char *e; unsigned long long x = strtoull(p, &e, 16); p = e; out = SizeT64I(x); return true; }
            case 'r': { ++p; char *e; unsigned long long x = strtoull(p, &e, 16); p = e; double d; memcpy(&d, &x, 8); out = d; return true; }
            case '"': {
                std::vector<uint64_t> u;
                if (!parseUnits(u)) return false;
                vh::ExactBuf<Char_T> b(u);
                out = String<Char_T>(static_cast<const Char_T *>(b.p), SizeT(b.n));
                return true;
            }
            case '*': {
                ++p;
                held.emplace_back();
                Value<Char_T> &target = held.back();
                if (!build(target)) return false;
                out.SetPointerToValue(&target);
                return true;
            }
            case '[': {
                ++p;
                out = ValueType::Array;
                while (*p && *p != ']') {
                    Value<Char_T> item;
                    if (!build(item)) return false;
                    out += Memory::Move(item);
                    if (*p == ';') ++p;
                }
                if (*p != ']') return false;
                ++p;
                return true;
            }
            case '{': {
                ++p;
                out = ValueType::Object;
                while (*p && *p != '}') {
                    std::vector<uint64_t> u;
                    if (!parseUnits(u) || *p != ':') return false;
                    ++p;
                    vh::ExactBuf<Char_T> kb(u);
                    String<Char_T>       key(static_cast<const Char_T *>(kb.p), SizeT(kb.n));
                    if (*p == 'X') {
                        ++p;
                        out[key] = SizeT64{7};
                        out.Remove(key);
                    } else {
                        Value<Char_T> item;
                        if (!build(item)) return false;
                        out[key] = Memory::Move(item);
                    }
                    if (*p == ';') ++p;
                }
                if (*p != '}') return false;
                ++p;
                return true;
            }
            default: return false;
        }
    }
};

template <typename Char_T>
static std::string doParse(const std::vector<uint64_t> &u) {
    vh::ExactBuf<Char_T> in(u);
    Value<Char_T>        v = JSON::Parse(in.p, SizeT(in.n));
    std::string          out;
    dump(out, v, false);
    return out;
}

// jsparseS: the three-argument entry point JSON::Parse(stream, content, length) with ONE scratch stream per width
// that lives as long as the harness process: leftovers of earlier (rejected) documents must not matter
template <typename Char_T>
static std::string doParseShared(const std::vector<uint64_t> &u) {
    static StringStream<Char_T> scratch;
    vh::ExactBuf<Char_T>        in(u);
    Value<Char_T>               v = JSON::Parse(scratch, static_cast<const Char_T *>(in.p), SizeT(in.n));
    std::string                 out;
    dump(out, v, false);
    return out;
}

template <typename Char_T>
static std::string doRoundTrip(unsigned prec, const std::string &expr) {
    Builder<Char_T> b;
    b.p = expr.c_str();
    Value<Char_T> tree;
    if (!b.build(tree) || *b.p) return "bad-expr";
    StringStream<Char_T> text;
    tree.Stringify(text, prec);
    // re-parse from an exact-size copy of the text
    std::vector<uint64_t> tu(text.Length());
    for (SizeT i = 0; i < text.Length(); ++i) {
        using U = typename std::make_unsigned<Char_T>::type;
        tu[i] = (U)text.First()[i];
    }
    vh::ExactBuf<Char_T> tb(tu);
    Value<Char_T>        back = JSON::Parse(tb.p, SizeT(tb.n));
    StringStream<Char_T> text2;
    back.Stringify(text2, prec);
    std::string out = vh::show_units(text.First(), text.Length());
    out += " | ";
    dump(out, back, false);
    out += " | ";
    dump(out, tree, true);
    out += " | ";
    out += vh::show_units(text2.First(), text2.Length());
    return out;
}

template <typename Char_T>
static std::string doEscape(const std::vector<uint64_t> &u) {
    vh::ExactBuf<Char_T> in(u);
    StringStream<Char_T> ss;
    JSONUtils::Escape(in.p, SizeT(in.n), ss);
    return vh::show_units(ss.First(), ss.Length());
}

template <typename Char_T>
static std::string doUnEscape(const std::vector<uint64_t> &u) {
    vh::ExactBuf<Char_T> in(u);
    StringStream<Char_T> ss;
    SizeT                r = JSONUtils::UnEscape(in.p, SizeT(in.n), ss);
    return std::to_string(r) + " " + vh::show_units(ss.First(), ss.Length());
}

template <typename Char_T>
static std::string run(const std::vector<std::string> &t) {
    std::vector<uint64_t> u;
    if (t[0] == "jsparse" && t.size() == 3 && vh::parse_nats(t[2], u)) return doParse<Char_T>(u);
    if (t[0] == "jsparseS" && t.size() == 3 && vh::parse_nats(t[2], u)) return doParseShared<Char_T>(u);
    if (t[0] == "jsesc" && t.size() == 3 && vh::parse_nats(t[2], u)) return doEscape<Char_T>(u);
    if (t[0] == "jsunesc" && t.size() == 3 && vh::parse_nats(t[2], u)) return doUnEscape<Char_T>(u);
    if (t[0] == "jsrt" && t.size() == 4) return doRoundTrip<Char_T>(unsigned(atoi(t[2].c_str())), t[3]);
    return "bad-op";
}

int main() {
    std::string line;
    while (vh::read_line(line)) {
        auto t = vh::split(line);
        if (t.size() < 3) { vh::emit("bad-op"); continue; }
        if (t[1] == "1") vh::emit(run<char>(t));
        else if (t[1] == "2") vh::emit(run<char16_t>(t));
        else if (t[1] == "4") vh::emit(run<char32_t>(t));
        else if (t[1] == "W") vh::emit(run<wchar_t>(t));
        else vh::emit("bad-op");
    }
    return 0;
}
