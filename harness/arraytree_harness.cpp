// C14: Array<T> with an owning, recursive element type (a tree node holding an Array of nodes — the shape of
// the library's own Value). Copy-assignment and move-assignment where source and destination are related
// (an array assigned from the array of one of its own items) must behave like the plain-sequence model.
//   atree <op;op;…>   ops:  n<path>:<id>   append a new node <id> to the kids of the node at <path>
//                           a<dst>=<src>   node(dst).kids += node(src)   (const Node&; src may be an item of node(dst).kids itself)
//                           c<dst>=<src>   node(dst).kids = node(src).kids          (copy assignment)
//                           m<dst>=<src>   node(dst).kids = Move(node(src).kids)    (move assignment)
//                           r<path>        node(path).kids.Reset()
//                           z<path>:<n>    node(path).kids.ResizeAndInitialize(n)   v<path>:<n>  kids.Reserve(n, true)
//   path = indices joined by '.', "" or "-" = the root.   Output: dump of the whole tree after every op, '|'-joined.
#include <new>
#include "ledger.hpp"
#include "common.hpp"
#include "Array.hpp"
using namespace Qentem;

struct Node {
    Array<Node> kids;
    unsigned    id{0};
    unsigned    tag{0x5A5A}; // a default item is NOT all zeros
};

static Node *at(Node &root, const std::string &path) {
    Node *n = &root;
    if (path.empty() || path == "-") return n;
    for (auto &t : vh::split(path, '.')) {
        SizeT i = SizeT(atoi(t.c_str()));
        if (i >= n->kids.Size()) return nullptr;
        n = (n->kids.Storage() + i);
    }
    return n;
}

static void dump(std::string &out, const Node &n) {
    out += std::to_string(n.id);
    if (n.tag != 0x5A5A) out += "!tag" + std::to_string(n.tag);
    if (n.kids.Size() != 0) {
        out += '(';
        for (SizeT i = 0; i < n.kids.Size(); i++) {
            if (i) out += ' ';
            dump(out, n.kids.First()[i]);
        }
        out += ')';
    }
}

static std::string run(const std::string &prog) {
    std::string out;
    {
        Node root;
        for (auto &op : vh::split(prog, ';')) {
            if (op.empty()) continue;
            const char  k    = op[0];
            std::string rest = op.substr(1);
            if (k == 'n') {
                size_t c = rest.find(':');
                Node  *p = at(root, rest.substr(0, c));
                if (!p) return "bad-path";
                Node nn;
                nn.id = unsigned(atoi(rest.c_str() + c + 1));
                p->kids += Memory::Move(nn);
            } else if (k == 'a') {
                size_t e = rest.find('=');
                Node  *d = at(root, rest.substr(0, e)), *s = at(root, rest.substr(e + 1));
                if (!d || !s) return "bad-path";
                d->kids += static_cast<const Node &>(*s);
            } else if (k == 'c' || k == 'm') {
                size_t e = rest.find('=');
                Node  *d = at(root, rest.substr(0, e)), *s = at(root, rest.substr(e + 1));
                if (!d || !s) return "bad-path";
                if (k == 'c') d->kids = s->kids;
                else d->kids = Memory::Move(s->kids);
            } else if (k == 'z' || k == 'v') {
                // z<path>:<n>  kids.ResizeAndInitialize(n)   v<path>:<n>  kids.Reserve(n, true)
                size_t c = rest.find(':');
                Node  *p = at(root, rest.substr(0, c));
                if (!p) return "bad-path";
                const SizeT n = SizeT(atoi(rest.c_str() + c + 1));
                if (k == 'z') p->kids.ResizeAndInitialize(n);
                else p->kids.Reserve(n, true);
            } else if (k == 'r') {
                Node *p = at(root, rest);
                if (!p) return "bad-path";
                p->kids.Reset();
            } else {
                return "bad-op";
            }
            if (!out.empty()) out += '|';
            dump(out, root);
        }
    }
    return out.empty() ? "-" : out;
}

int main() {
    std::string line;
    while (vh::read_line(line)) {
        auto t = vh::split(line);
        if (t.size() == 2 && t[0] == "atree") vh::emit(run(t[1]));
        else vh::emit("bad-op");
    }
    return 0;
}
