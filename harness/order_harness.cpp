// Correspondence harness for C15: comparison operators and Sort, real code in-process.
//
//   ordstr  <w> <a> <b>      six operators of String and StringView (and the const Char_T* overloads when
//   ordstrs <w> <a> <b>      b has no NUL unit) + raw IsLess/IsGreater with both orEqual flags.
//                            -> "<lt le gt ge eq ne> <L0 L1 G0 G1>"   (ordstrs: the model treats units as signed char)
//   ordval  <A> <B>          six operators of Value          -> "<lt le gt ge eq ne>"
//   ordsortv <asc> <vals>    Value array  += each; Value::Sort(asc)          -> value tokens in storage order + comparison table of the result
//   ordsorts <asc> <w> <strs> Array<String<w>>::Sort(asc)                    -> string tokens
//   ordsorto <asc> <ops>     Value object, ops "+key=nat" / "!key", Value::Sort(asc)
//                            -> "<slots before> <slots after> <lookups-ok | lookup-fail:...>"  slots: key=nat or "~" (removed slot)
//   ordsorth <asc> <ops>     same through HArray<String<char>, SizeT64> directly
//   ordloop <asc> <vals>     Template: <loop value="v" sort="...">{var:v},</loop> on an array of strings/naturals
//                            -> rendered units
//   ordsortseg[64] <asc> <start> <end> <vals>  Memory::Sort<asc>(storage, start, end) directly (index type SizeT / SizeT64)
//   ordsortw <asc> <w> <strs>  Array<StringView<w>>::Sort, all views into one shared buffer
//   ordsortn <asc> <n|i|r> <nums>  Array<SizeT64 | SizeT64I | double>::Sort (built-in comparisons)
//   ordsortl <asc> <ops>     HList<String<char>> (keys only), same output as ordsorth with values 0
//   ordbig <kind> <pattern> <n> <asc> <seed>  large arrays generated, sorted and judged inside the harness (see doBig) -> ok | wrong-at:...
//   orddeep <n> <reversed> <asc>  Array<SizeT>::Sort on sorted/reversed input of n elements -> ok (implementation only)
// string token: units joined by '.', the empty string is "e".  value token: u | o<n>[x<tag>] | a<n>[x<tag>] |
// s:<str> | n<nat> | i<int> | r<16 hex> | t | f | z | p<token>.  lists joined by ',', the empty list is "-".
#include "common.hpp"
#include "Array.hpp"
#include "HArray.hpp"
#include "HList.hpp"
#include "String.hpp"
#include "StringStream.hpp"
#include "StringUtils.hpp"
#include "StringView.hpp"
#include "Template.hpp"
#include "Value.hpp"
#include <memory>
using namespace Qentem;

// ExactBuf::p is a mutable pointer; String(Char_T *, SizeT) would adopt it, so always pass const.
template <typename Char_T>
static const Char_T *cp(const vh::ExactBuf<Char_T> &b) {
    return b.p;
}

static bool parse_str(const std::string &t, std::vector<uint64_t> &u) {
    u.clear();
    if (t == "e") return true;
    std::string s = t;
    for (auto &c : s)
        if (c == '.') c = ',';
    return vh::parse_nats(s, u) && !u.empty();
}

template <typename Char_T>
static std::string show_str(const Char_T *p, size_t n) {
    if (n == 0) return "e";
    std::string s = vh::show_units(p, n);
    for (auto &c : s)
        if (c == ',') c = '.';
    return s;
}

static std::string bits(std::initializer_list<bool> l) {
    std::string s;
    for (bool b : l) s += (b ? '1' : '0');
    return s;
}

template <typename Char_T>
static std::string doStr(const std::vector<uint64_t> &a, const std::vector<uint64_t> &b) {
    vh::ExactBuf<Char_T> ba(a), bb(b);
    // String owns a copy made from the exact-size buffer; StringView points into the exact-size buffer.
    String<Char_T>     sa(cp(ba), SizeT(ba.n)), sb(cp(bb), SizeT(bb.n));
    StringView<Char_T> va(cp(ba), SizeT(ba.n)), vb(cp(bb), SizeT(bb.n));
    const std::string  S = bits({sa < sb, sa <= sb, sa > sb, sa >= sb, sa == sb, sa != sb});
    const std::string  V = bits({va < vb, va <= vb, va > vb, va >= vb, va == vb, va != vb});
    if (S != V) return "family-differs String=" + S + " StringView=" + V;
    bool has_nul = false;
    for (auto x : b) has_nul = has_nul || (Char_T(x) == Char_T(0));
    if (!has_nul) {
        std::vector<uint64_t> bz(b);
        bz.push_back(0);
        vh::ExactBuf<Char_T> bn(bz);
        const std::string    C  = bits({sa < cp(bn), sa <= cp(bn), sa > cp(bn), sa >= cp(bn), sa == cp(bn), sa != cp(bn)});
        const std::string    CV = bits({va < cp(bn), va <= cp(bn), va > cp(bn), va >= cp(bn), va == cp(bn), va != cp(bn)});
        if (C != S || CV != S) return "cstr-differs String=" + S + " cstr=" + C + " view-cstr=" + CV;
    }
    // the raw routines on the exact-size buffers (a zero-length buffer is still a valid pointer)
    const std::string R = bits({StringUtils::IsLess(cp(ba), cp(bb), SizeT(ba.n), SizeT(bb.n), false),
                                StringUtils::IsLess(cp(ba), cp(bb), SizeT(ba.n), SizeT(bb.n), true),
                                StringUtils::IsGreater(cp(ba), cp(bb), SizeT(ba.n), SizeT(bb.n), false),
                                StringUtils::IsGreater(cp(ba), cp(bb), SizeT(ba.n), SizeT(bb.n), true)});
    // Aliased operands: when one string is a prefix of the other, compare views / raw pointers into ONE
    // buffer (StringView prefixes of the same text). The answers must not depend on where the units live;
    // if they do, report the aliased answers so the order-law oracles see them.
    const std::vector<uint64_t> &lo = (a.size() <= b.size()) ? a : b;
    const std::vector<uint64_t> &hi = (a.size() <= b.size()) ? b : a;
    bool                         prefix = true;
    for (size_t i = 0; i < lo.size(); i++) prefix = prefix && (Char_T(lo[i]) == Char_T(hi[i]));
    if (prefix) {
        vh::ExactBuf<Char_T> one(hi);
        StringView<Char_T>   xa(cp(one), SizeT(ba.n)), xb(cp(one), SizeT(bb.n));
        const std::string    V2 = bits({xa < xb, xa <= xb, xa > xb, xa >= xb, xa == xb, xa != xb});
        const std::string    R2 = bits({StringUtils::IsLess(cp(one), cp(one), SizeT(ba.n), SizeT(bb.n), false),
                                        StringUtils::IsLess(cp(one), cp(one), SizeT(ba.n), SizeT(bb.n), true),
                                        StringUtils::IsGreater(cp(one), cp(one), SizeT(ba.n), SizeT(bb.n), false),
                                        StringUtils::IsGreater(cp(one), cp(one), SizeT(ba.n), SizeT(bb.n), true)});
        if (V2 != S || R2 != R)
            return V2 + " " + R2 + (StringUtils::IsEqual(cp(ba), cp(bb), SizeT(ba.n < bb.n ? ba.n : bb.n)) ? "1" : "0");
    }
    // --- remaining public forms (notes/design-order.md, API table); each must give the answer of `S`
    const bool eq = (S[4] == '1');
    {   // member IsEqual(ptr, length) of String / StringView / StringStream; StringStream == / != in its four forms
        StringStream<Char_T> ta, tb;
        ta.Write(cp(ba), SizeT(ba.n));
        tb.Write(cp(bb), SizeT(bb.n));
        const std::string Q = bits({sa.IsEqual(cp(bb), SizeT(bb.n)), va.IsEqual(cp(bb), SizeT(bb.n)), ta.IsEqual(cp(bb), SizeT(bb.n)),
                                    ta == tb, !(ta != tb), ta == sb, !(ta != sb), ta == vb, !(ta != vb)});
        if (Q != std::string(9, eq ? '1' : '0')) return "equality-form-differs eq=" + S.substr(4, 1) + " forms=" + Q;
        if (!has_nul) {
            std::vector<uint64_t> bz(b);
            bz.push_back(0);
            vh::ExactBuf<Char_T> bn(bz);
            if ((ta == cp(bn)) != eq || (ta != cp(bn)) == eq) return "equality-form-differs stream-cstr";
        }
    }
    {   // operands that are the same object / the same storage
        if (eq) {
            const std::string SS = bits({sa < sa, sa <= sa, sa > sa, sa >= sa, sa == sa, sa != sa});
            const std::string VV = bits({va < va, va <= va, va > va, va >= va, va == va, va != va});
            if (SS != S || VV != S) return "self-alias-differs String=" + SS + " StringView=" + VV;
        }
        // both operands adjacent in ONE buffer, in both placements (no read across the boundary may matter)
        std::vector<uint64_t> ab(a), ba2(b);
        ab.insert(ab.end(), b.begin(), b.end());
        ba2.insert(ba2.end(), a.begin(), a.end());
        vh::ExactBuf<Char_T> j1(ab), j2(ba2);
        StringView<Char_T>   ya(cp(j1), SizeT(a.size())), yb(cp(j1) + a.size(), SizeT(b.size()));
        StringView<Char_T>   zb(cp(j2), SizeT(b.size())), za(cp(j2) + b.size(), SizeT(a.size()));
        const std::string    Y = bits({ya < yb, ya <= yb, ya > yb, ya >= yb, ya == yb, ya != yb});
        const std::string    Z = bits({za < zb, za <= zb, za > zb, za >= zb, za == zb, za != zb});
        if (Y != S || Z != S) return "adjacent-alias-differs ab=" + Y + " ba=" + Z;
    }
    // raw IsEqual over the common length (a public pointer+length form on its own)
    const SizeT mn = SizeT(ba.n < bb.n ? ba.n : bb.n);
    return S + " " + R + (StringUtils::IsEqual(cp(ba), cp(bb), mn) ? "1" : "0");
}

using VChar = char;
using Val   = Value<VChar>;
using VStr  = String<VChar>;

// Values that pointers point at stay alive until the line is answered.
struct Pool {
    std::vector<std::unique_ptr<Val>> keep;
};

static bool build_value(const std::string &t, Val &out, Pool &pool) {
    if (t.empty()) return false;
    const char k = t[0];
    switch (k) {
        case 'u': out = Val{}; return t.size() == 1;
        case 't': out = Val{true}; return t.size() == 1;
        case 'f': out = Val{false}; return t.size() == 1;
        case 'z': out = Val{nullptr}; return t.size() == 1;
        case 'n': out = Val{SizeT64(strtoull(t.c_str() + 1, nullptr, 10))}; return t.size() > 1;
        case 'i': out = Val{SizeT64I(strtoll(t.c_str() + 1, nullptr, 10))}; return t.size() > 1;
        case 'r': {
            if (t.size() != 17) return false;
            uint64_t b = strtoull(t.c_str() + 1, nullptr, 16);
            double   d;
            memcpy(&d, &b, 8);
            out = Val{d};
            return true;
        }
        case 's': {
            if (t.size() < 3 || t[1] != ':') return false;
            std::vector<uint64_t> u;
            if (!parse_str(t.substr(2), u)) return false;
            vh::ExactBuf<VChar> b(u);
            out = Val{cp(b), SizeT(b.n)};
            return true;
        }
        case 'o':
        case 'a': {
            size_t   x   = t.find('x');
            uint64_t n   = strtoull(t.c_str() + 1, nullptr, 10);
            uint64_t tag = (x == std::string::npos) ? 0 : strtoull(t.c_str() + x + 1, nullptr, 10);
            Val      v;
            if (k == 'o') {
                v = Val{ValueType::Object};
                for (uint64_t i = 0; i < n; i++) {
                    char key[32];
                    snprintf(key, sizeof key, "k%llu", (unsigned long long)i);
                    v[static_cast<const char *>(key)] = SizeT64(tag);
                }
            } else {
                v = Val{ValueType::Array};
                for (uint64_t i = 0; i < n; i++) v += SizeT64(tag);
            }
            out = Memory::Move(v);
            return true;
        }
        case 'p': {
            pool.keep.emplace_back(new Val{});
            Val *target = pool.keep.back().get();
            if (!build_value(t.substr(1), *target, pool)) return false;
            out.SetPointerToValue(target);
            return true;
        }
        default: return false;
    }
}

// The pointer target of a ValuePtr value (private member `value_`, first member of the union).
static const Val *ptr_target(const Val &v) {
    const Val *t;
    static_assert(sizeof(Val) >= sizeof(t), "layout");
    memcpy(&t, static_cast<const void *>(&v), sizeof t);
    return t;
}

static std::string show_value(const Val &v) {
    char buf[64];
    switch (v.Type()) {
        case ValueType::Undefined: return "u";
        case ValueType::True: return "t";
        case ValueType::False: return "f";
        case ValueType::Null: return "z";
        case ValueType::UIntLong: snprintf(buf, sizeof buf, "n%llu", (unsigned long long)v.GetUInt64()); return buf;
        case ValueType::IntLong: snprintf(buf, sizeof buf, "i%lld", (long long)v.GetInt64()); return buf;
        case ValueType::Double: {
            double   d = v.GetDouble();
            uint64_t b;
            memcpy(&b, &d, 8);
            snprintf(buf, sizeof buf, "r%016llx", (unsigned long long)b);
            return buf;
        }
        case ValueType::String: return "s:" + show_str(v.GetString()->First(), v.GetString()->Length());
        case ValueType::Object: {
            const auto *o   = v.GetObject();
            uint64_t    tag = 0;
            if (o->Size() != 0 && o->GetValue(SizeT(0)) != nullptr) tag = o->GetValue(SizeT(0))->GetUInt64();
            snprintf(buf, sizeof buf, "o%llux%llu", (unsigned long long)o->Size(), (unsigned long long)tag);
            return buf;
        }
        case ValueType::Array: {
            const auto *a   = v.GetArray();
            uint64_t    tag = 0;
            if (a->Size() != 0) tag = a->First()->GetUInt64();
            snprintf(buf, sizeof buf, "a%llux%llu", (unsigned long long)a->Size(), (unsigned long long)tag);
            return buf;
        }
        case ValueType::ValuePtr: return "p" + show_value(*ptr_target(v));
    }
    return "?";
}

#define SIX(x, y) bits({(x) < (y), (x) <= (y), (x) > (y), (x) >= (y), (x) == (y), !((x) == (y))})

static std::string doVal(const std::string &ta, const std::string &tb) {
    Pool pool;
    Val  a, b;
    if (!build_value(ta, a, pool) || !build_value(tb, b, pool)) return "bad-op";
    const std::string D = SIX(a, b);
    // operands that are elements of one array (the container a Sort permutes) ...
    Val arr{ValueType::Array};
    {
        Val x, y;
        if (!build_value(ta, x, pool) || !build_value(tb, y, pool)) return "bad-op";
        arr += Memory::Move(x);
        arr += Memory::Move(y);
    }
    const Val        *e = arr.GetArray()->First();
    const std::string E = SIX(e[0], e[1]);
    if (E != D) return "element-operands-differ direct=" + D + " elements=" + E;
    // ... and pointer values aimed at those elements, on either side and on both
    Val pa, pb;
    pa.SetPointerToValue(&e[0]);
    pb.SetPointerToValue(&e[1]);
    const std::string P0 = SIX(pa, pb), P1 = SIX(pa, e[1]), P2 = SIX(e[0], pb);
    if (P0 != D || P1 != D || P2 != D) return "pointer-to-element-differs direct=" + D + " pp=" + P0 + " p-=" + P1 + " -p=" + P2;
    if (ta == tb) {   // one object on both sides
        const std::string SS = SIX(a, a), EE = SIX(e[0], e[0]);
        if (SS != D || EE != D) return "self-alias-differs direct=" + D + " self=" + SS + " element-self=" + EE;
    }
    return D;
}

template <typename Elem>
static std::string tables(const Elem *p, size_t from, size_t to, bool asc) {
    std::string table, chain;
    for (size_t i = from; i < to; i++)
        for (size_t j = i + 1; j < to; j++) {
            table += ((asc ? (p[j] < p[i]) : (p[j] > p[i])) ? '1' : '0');
            chain += ((asc ? (p[i] <= p[j]) : (p[i] >= p[j])) ? '1' : '0');
        }
    return (table.empty() ? "-" : table) + " " + (chain.empty() ? "-" : chain);
}

// Memory::Sort<Ascend_T>(arr, start, end) called directly on a segment, index type Number_T
template <typename Number_T>
static std::string doSortSeg(bool asc, unsigned long start, unsigned long end, const std::string &list) {
    Pool pool;
    Val  arr{ValueType::Array};
    if (list != "-") {
        for (const auto &t : vh::split(list, ',')) {
            Val v;
            if (!build_value(t, v, pool)) return "bad-op";
            arr += Memory::Move(v);
        }
    }
    auto *a = arr.GetArray();
    if (start > end || end > a->Size()) return "bad-op";
    if (asc) Memory::Sort<true>(a->Storage(), Number_T(start), Number_T(end));
    else Memory::Sort<false>(a->Storage(), Number_T(start), Number_T(end));
    std::string out;
    for (SizeT i = 0; i < a->Size(); i++) {
        if (i) out += ',';
        out += show_value(a->First()[i]);
    }
    if (out.empty()) out = "-";
    return out + " " + tables(a->First(), start, end, asc);
}

// Array<StringView>: every element is a view into ONE shared buffer
template <typename Char_T>
static std::string doSortW(bool asc, const std::string &list) {
    std::vector<std::vector<uint64_t>> strs;
    std::vector<uint64_t>              all;
    if (list != "-") {
        for (const auto &t : vh::split(list, ',')) {
            std::vector<uint64_t> u;
            if (!parse_str(t, u)) return "bad-op";
            strs.push_back(u);
            all.insert(all.end(), u.begin(), u.end());
        }
    }
    vh::ExactBuf<Char_T>      buf(all);
    Array<StringView<Char_T>> arr;
    size_t                    off = 0;
    for (auto &u : strs) {
        arr += StringView<Char_T>(cp(buf) + off, SizeT(u.size()));
        off += u.size();
    }
    arr.Sort(asc);
    if (arr.Size() == 0) return "- - -";
    std::string out;
    for (SizeT i = 0; i < arr.Size(); i++) {
        if (i) out += ',';
        out += show_str(arr.First()[i].First(), arr.First()[i].Length());
    }
    return out + " " + tables(arr.First(), 0, arr.Size(), asc);
}

// Array<number>::Sort with the built-in comparisons (tokens n.. / i.. / r..)
template <typename Num>
static std::string doSortN(bool asc, char kind, const std::string &list) {
    Array<Num> arr;
    if (list != "-") {
        for (const auto &t : vh::split(list, ',')) {
            if (t.size() < 2 || t[0] != kind) return "bad-op";
            if (kind == 'n') arr += Num(strtoull(t.c_str() + 1, nullptr, 10));
            else if (kind == 'i') arr += Num(strtoll(t.c_str() + 1, nullptr, 10));
            else {
                uint64_t b = strtoull(t.c_str() + 1, nullptr, 16);
                double   d;
                memcpy(&d, &b, 8);
                arr += Num(d);
            }
        }
    }
    arr.Sort(asc);
    if (arr.Size() == 0) return "- - -";
    std::string out;
    char        buf[40];
    for (SizeT i = 0; i < arr.Size(); i++) {
        if (i) out += ',';
        if (kind == 'n') snprintf(buf, sizeof buf, "n%llu", (unsigned long long)arr.First()[i]);
        else if (kind == 'i') snprintf(buf, sizeof buf, "i%lld", (long long)arr.First()[i]);
        else {
            double   d = double(arr.First()[i]);
            uint64_t b;
            memcpy(&b, &d, 8);
            snprintf(buf, sizeof buf, "r%016llx", (unsigned long long)b);
        }
        out += buf;
    }
    return out + " " + tables(arr.First(), 0, arr.Size(), asc);
}

static std::string doSortV(bool asc, const std::string &list, bool through_array) {
    Pool pool;
    Val  arr{ValueType::Array};
    if (list != "-") {
        for (const auto &t : vh::split(list, ',')) {
            Val v;
            if (!build_value(t, v, pool)) return "bad-op";
            arr += Memory::Move(v);
        }
    }
    if (through_array) {
        arr.GetArray()->Sort(asc);
    } else {
        arr.Sort(asc);
    }
    const auto *a = arr.GetArray();
    if (a->Size() == 0) return "- - -";
    std::string out;
    for (SizeT i = 0; i < a->Size(); i++) {
        if (i) out += ',';
        out += show_value(a->First()[i]);
    }
    // the comparison table of the result, with the operators Sort itself used
    std::string table;
    for (SizeT i = 0; i < a->Size(); i++)
        for (SizeT j = i + 1; j < a->Size(); j++)
            table += ((asc ? (a->First()[j] < a->First()[i]) : (a->First()[j] > a->First()[i])) ? '1' : '0');
    std::string chain;
    for (SizeT i = 0; i < a->Size(); i++)
        for (SizeT j = i + 1; j < a->Size(); j++)
            chain += ((asc ? (a->First()[i] <= a->First()[j]) : (a->First()[i] >= a->First()[j])) ? '1' : '0');
    return out + " " + (table.empty() ? "-" : table) + " " + (chain.empty() ? "-" : chain);
}

template <typename Char_T>
static std::string doSortS(bool asc, const std::string &list) {
    Array<String<Char_T>> arr;
    if (list != "-") {
        for (const auto &t : vh::split(list, ',')) {
            std::vector<uint64_t> u;
            if (!parse_str(t, u)) return "bad-op";
            vh::ExactBuf<Char_T> b(u);
            arr += String<Char_T>(cp(b), SizeT(b.n));
        }
    }
    arr.Sort(asc);
    if (arr.Size() == 0) return "- - -";
    std::string out;
    for (SizeT i = 0; i < arr.Size(); i++) {
        if (i) out += ',';
        out += show_str(arr.First()[i].First(), arr.First()[i].Length());
    }
    std::string table;
    for (SizeT i = 0; i < arr.Size(); i++)
        for (SizeT j = i + 1; j < arr.Size(); j++)
            table += ((asc ? (arr.First()[j] < arr.First()[i]) : (arr.First()[j] > arr.First()[i])) ? '1' : '0');
    std::string chain;
    for (SizeT i = 0; i < arr.Size(); i++)
        for (SizeT j = i + 1; j < arr.Size(); j++)
            chain += ((asc ? (arr.First()[i] <= arr.First()[j]) : (arr.First()[i] >= arr.First()[j])) ? '1' : '0');
    return out + " " + (table.empty() ? "-" : table) + " " + (chain.empty() ? "-" : chain);
}

struct KeyOp {
    bool                  insert;
    std::vector<uint64_t> key;
    uint64_t              val;
};

static bool parse_ops(const std::string &list, std::vector<KeyOp> &ops) {
    ops.clear();
    if (list == "-") return true;
    for (const auto &t : vh::split(list, ',')) {
        KeyOp op;
        if (t.size() < 2) return false;
        if (t[0] == '+') {
            size_t e = t.find('=');
            if (e == std::string::npos) return false;
            op.insert = true;
            if (!parse_str(t.substr(1, e - 1), op.key)) return false;
            op.val = strtoull(t.c_str() + e + 1, nullptr, 10);
        } else if (t[0] == '!') {
            op.insert = false;
            op.val    = 0;
            if (!parse_str(t.substr(1), op.key)) return false;
        } else {
            return false;
        }
        ops.push_back(op);
    }
    return true;
}

// Final expected content (by replaying the ops on a plain association list), for the lookup oracle.
static void expected_content(const std::vector<KeyOp> &ops, std::vector<std::pair<std::vector<uint64_t>, uint64_t>> &live,
                             std::vector<std::vector<uint64_t>> &dead) {
    for (const auto &op : ops) {
        size_t j = 0;
        while (j < live.size() && live[j].first != op.key) j++;
        if (op.insert) {
            if (j < live.size()) live[j].second = op.val;
            else live.emplace_back(op.key, op.val);
        } else if (j < live.size()) {
            live.erase(live.begin() + long(j));
            dead.push_back(op.key);
        }
    }
    // a key removed and inserted again is live
    std::vector<std::vector<uint64_t>> d2;
    for (auto &k : dead) {
        bool l = false;
        for (auto &e : live) l = l || (e.first == k);
        if (!l) d2.push_back(k);
    }
    dead = d2;
}

// Value object path: v[key] = n, v.Remove(key), v.Sort(asc)
static std::string doSortO(bool asc, const std::string &list) {
    std::vector<KeyOp> ops;
    if (!parse_ops(list, ops)) return "bad-op";
    Val v{ValueType::Object};
    for (const auto &op : ops) {
        vh::ExactBuf<VChar> b(op.key);
        if (op.insert) {
            v[VStr(cp(b), SizeT(b.n))] = SizeT64(op.val);
        } else {
            v.Remove(cp(b), SizeT(b.n));
        }
    }
    auto slots = [&]() {
        const auto *ob = v.GetObject();
        std::string out;
        for (SizeT i = 0; i < ob->Size(); i++) {
            if (i) out += ',';
            const auto *item = ob->First() + i;
            if (item->Hash == 0) {
                out += (item->Key.Length() == 0 && item->Value.Type() == ValueType::Undefined) ? "~" : "~dirty";
            } else {
                out += show_str(item->Key.First(), item->Key.Length());
                out += '=';
                char buf[32];
                snprintf(buf, sizeof buf, "%llu", (unsigned long long)item->Value.GetUInt64());
                out += buf;
            }
        }
        if (out.empty()) out = "-";
        return out;
    };
    const std::string before = slots();
    v.Sort(asc);
    const auto *o   = v.GetObject();
    std::string table;
    for (SizeT i = 0; i < o->Size(); i++)
        for (SizeT j = i + 1; j < o->Size(); j++)
            table += ((asc ? (o->First()[j] < o->First()[i]) : (o->First()[j] > o->First()[i])) ? '1' : '0');
    std::string chain;
    for (SizeT i = 0; i < o->Size(); i++)
        for (SizeT j = i + 1; j < o->Size(); j++)
            chain += ((asc ? (o->First()[i] <= o->First()[j]) : (o->First()[i] >= o->First()[j])) ? '1' : '0');
    std::string out = before + " " + slots() + " " + (table.empty() ? "-" : table) + " " + (chain.empty() ? "-" : chain);
    // lookups remain correct
    std::vector<std::pair<std::vector<uint64_t>, uint64_t>> live;
    std::vector<std::vector<uint64_t>>                      dead;
    expected_content(ops, live, dead);
    std::string verdict = "lookups-ok";
    for (auto &e : live) {
        vh::ExactBuf<VChar> b(e.first);
        const Val          *x = v.GetValue(cp(b), SizeT(b.n));
        SizeT               idx;
        if (x == nullptr || x->Type() != ValueType::UIntLong || x->GetUInt64() != e.second || !o->Has(cp(b), SizeT(b.n)) ||
            !o->GetKeyIndex(idx, cp(b), SizeT(b.n)) || idx >= o->Size() || !o->First()[idx].Key.IsEqual(cp(b), SizeT(b.n)) ||
            v.GetKey(idx) == nullptr || !v.GetKey(idx)->IsEqual(cp(b), SizeT(b.n)) || v.GetValue(idx) != x) {
            verdict = "lookup-fail:" + show_str(cp(b), b.n);
            break;
        }
    }
    if (verdict == "lookups-ok") {
        for (auto &k : dead) {
            vh::ExactBuf<VChar> b(k);
            if (v.GetValue(cp(b), SizeT(b.n)) != nullptr || o->Has(cp(b), SizeT(b.n))) {
                verdict = "removed-key-found:" + show_str(cp(b), b.n);
                break;
            }
        }
    }
    return out + " " + verdict;
}

// HArray<String, SizeT64> path
static std::string doSortH(bool asc, const std::string &list) {
    std::vector<KeyOp> ops;
    if (!parse_ops(list, ops)) return "bad-op";
    HArray<VStr, SizeT64> h;
    for (const auto &op : ops) {
        vh::ExactBuf<VChar> b(op.key);
        if (op.insert) {
            h[VStr(cp(b), SizeT(b.n))] = SizeT64(op.val);
        } else {
            h.Remove(cp(b), SizeT(b.n));
        }
    }
    auto slots = [&]() {
        std::string out;
        for (SizeT i = 0; i < h.Size(); i++) {
            if (i) out += ',';
            const auto *item = h.First() + i;
            if (item->Hash == 0) {
                out += (item->Key.Length() == 0 && item->Value == 0) ? "~" : "~dirty";
            } else {
                out += show_str(item->Key.First(), item->Key.Length());
                out += '=';
                char buf[32];
                snprintf(buf, sizeof buf, "%llu", (unsigned long long)item->Value);
                out += buf;
            }
        }
        if (out.empty()) out = "-";
        return out;
    };
    const std::string before = slots();
    h.Sort(asc);
    std::string table;
    for (SizeT i = 0; i < h.Size(); i++)
        for (SizeT j = i + 1; j < h.Size(); j++)
            table += ((asc ? (h.First()[j] < h.First()[i]) : (h.First()[j] > h.First()[i])) ? '1' : '0');
    std::string chain;
    for (SizeT i = 0; i < h.Size(); i++)
        for (SizeT j = i + 1; j < h.Size(); j++)
            chain += ((asc ? (h.First()[i] <= h.First()[j]) : (h.First()[i] >= h.First()[j])) ? '1' : '0');
    std::string out = before + " " + slots() + " " + (table.empty() ? "-" : table) + " " + (chain.empty() ? "-" : chain);
    std::vector<std::pair<std::vector<uint64_t>, uint64_t>> live;
    std::vector<std::vector<uint64_t>>                      dead;
    expected_content(ops, live, dead);
    std::string verdict = "lookups-ok";
    for (auto &e : live) {
        vh::ExactBuf<VChar> b(e.first);
        const SizeT64      *x = h.GetValue(cp(b), SizeT(b.n));
        SizeT               idx = 0;
        if (x == nullptr || *x != e.second || !h.Has(cp(b), SizeT(b.n)) || !h.GetKeyIndex(idx, cp(b), SizeT(b.n)) || idx >= h.Size() ||
            h.GetKey(idx) == nullptr || !h.GetKey(idx)->IsEqual(cp(b), SizeT(b.n)) || h.GetValue(idx) != x ||
            h.GetItem(VStr(cp(b), SizeT(b.n))) != (h.First() + idx)) {
            verdict = "lookup-fail:" + show_str(cp(b), b.n);
            break;
        }
        const VStr key(cp(b), SizeT(b.n));   // the Key_T overloads, and item == item
        SizeT      idx2 = 0;
        if (!h.Has(key) || !h.GetKeyIndex(idx2, key) || idx2 != idx || !(h.First()[idx] == h.First()[idx]) ||
            (idx + 1 < h.Size() && h.First()[idx + 1].Hash != 0 && (h.First()[idx] == h.First()[idx + 1]))) {
            verdict = "lookup-fail(Key_T form):" + show_str(cp(b), b.n);
            break;
        }
    }
    if (verdict == "lookups-ok") {
        for (auto &k : dead) {
            vh::ExactBuf<VChar> b(k);
            if (h.GetValue(cp(b), SizeT(b.n)) != nullptr) {
                verdict = "removed-key-found:" + show_str(cp(b), b.n);
                break;
            }
        }
    }
    return out + " " + verdict;
}

// HList<String> path (keys only; values in the ops are ignored and printed as 0)
static std::string doSortL(bool asc, const std::string &list) {
    std::vector<KeyOp> ops;
    if (!parse_ops(list, ops)) return "bad-op";
    HList<VStr> h;
    for (auto &op : ops) {
        op.val = 0;
        vh::ExactBuf<VChar> b(op.key);
        if (op.insert) h.Insert(cp(b), SizeT(b.n));
        else h.Remove(cp(b), SizeT(b.n));
    }
    auto slots = [&]() {
        std::string out;
        for (SizeT i = 0; i < h.Size(); i++) {
            if (i) out += ',';
            const auto *item = h.First() + i;
            if (item->Hash == 0) out += (item->Key.Length() == 0) ? "~" : "~dirty";
            else out += show_str(item->Key.First(), item->Key.Length()) + "=0";
        }
        if (out.empty()) out = "-";
        return out;
    };
    const std::string before = slots();
    h.Sort(asc);
    std::string out = before + " " + slots() + " " + tables(h.First(), 0, h.Size(), asc);
    std::vector<std::pair<std::vector<uint64_t>, uint64_t>> live;
    std::vector<std::vector<uint64_t>>                      dead;
    expected_content(ops, live, dead);
    std::string verdict = "lookups-ok";
    for (auto &e : live) {
        vh::ExactBuf<VChar> b(e.first);
        SizeT               idx = 0;
        const VStr         *k;
        if (!h.Has(cp(b), SizeT(b.n)) || !h.GetKeyIndex(idx, cp(b), SizeT(b.n)) || idx >= h.Size() ||
            (k = h.GetKey(idx)) == nullptr || !k->IsEqual(cp(b), SizeT(b.n)) || h.GetItem(VStr(cp(b), SizeT(b.n))) != (h.First() + idx) ||
            !(h.First()[idx] == h.First()[idx]) || (idx + 1 < h.Size() && h.First()[idx + 1].Hash != 0 && (h.First()[idx] == h.First()[idx + 1]))) {
            verdict = "lookup-fail:" + show_str(cp(b), b.n);
            break;
        }
    }
    if (verdict == "lookups-ok")
        for (auto &k : dead) {
            vh::ExactBuf<VChar> b(k);
            SizeT               idx;
            if (h.Has(cp(b), SizeT(b.n)) || h.GetKeyIndex(idx, cp(b), SizeT(b.n))) {
                verdict = "removed-key-found:" + show_str(cp(b), b.n);
                break;
            }
        }
    return out + " " + verdict;
}

// <loop value="v" sort="ascend|descend">{raw:v},</loop> on an array of strings / naturals
static std::string doLoop(bool asc, const std::string &list) {
    Pool pool;
    Val  arr{ValueType::Array};
    if (list != "-") {
        for (const auto &t : vh::split(list, ',')) {
            Val v;
            if (!build_value(t, v, pool)) return "bad-op";
            arr += Memory::Move(v);
        }
    }
    const std::string tpl = std::string("<loop value=\"v\" sort=\"") + (asc ? "ascend" : "descend") + "\">{raw:v},</loop>";
    std::vector<uint64_t> u;
    for (char c : tpl) u.push_back(uint64_t((unsigned char)c));
    vh::ExactBuf<VChar>  content(u);
    StringStream<VChar> ss;
    Template::Render(cp(content), SizeT(content.n), arr, ss);
    return vh::show_units(ss.First(), ss.Length());
}

// Memory::Sort recursion depth: already sorted / reversed input of n naturals (pivot = first element, so
// one side of every partition is empty).  Not modelled (DESIGN §10); an observation on the real code.
static std::string doDeep(unsigned n, bool reversed, bool asc) {
    Array<SizeT> a;
    for (unsigned i = 0; i < n; i++) a += SizeT(reversed ? n - i : i);
    a.Sort(asc);
    for (unsigned i = 1; i < n; i++)
        if (asc ? (a.First()[i - 1] > a.First()[i]) : (a.First()[i - 1] < a.First()[i])) return "not-ordered";
    return "ok";
}

// Large arrays: generated, sorted and judged inside the harness (a compact verdict instead of 10 000 items).
//   ordbig <kind> <pattern> <n> <asc> <seed>
// kind: u Array<SizeT64> | d Array<double> | s Array<String> | v Value array (Value::Sort) | h HArray keys (+ every
// lookup afterwards) | g Memory::Sort on the sub-segment [100, n+100) of an Array<SizeT64> of n+200 items.
// pattern: r random permutation | f few distinct values (n/64+2) | b shuffled blocks of 32 ascending items |
// m organ pipe of 64 levels.  None recurses once per element (finding sort-stack-depth-on-sorted-input).
// Judgement: the result equals the independently sorted key sequence (std::sort on plain integers) item by item — that is
// ordered + permutation at once — and adjacent items are in order by the container's own operators.
#include <algorithm>
static uint64_t xs_next(uint64_t &st) {
    st ^= st << 13;
    st ^= st >> 7;
    st ^= st << 17;
    return st;
}

static std::vector<uint64_t> big_keys(char pattern, size_t n, uint64_t seed, bool distinct) {
    uint64_t              st = seed * 2654435761ULL + 88172645463325252ULL;
    std::vector<uint64_t> k(n);
    for (size_t i = 0; i < n; i++) k[i] = i;
    auto shuffle = [&](std::vector<uint64_t> &v) {
        for (size_t i = v.size(); i > 1; i--) std::swap(v[i - 1], v[xs_next(st) % i]);
    };
    if (pattern == 'r' || distinct) {
        shuffle(k);
        if (pattern == 'b') {   // blocks of 32 ascending keys in shuffled block order
            std::vector<uint64_t> blocks((n + 31) / 32), out;
            for (size_t i = 0; i < blocks.size(); i++) blocks[i] = i;
            shuffle(blocks);
            for (auto b : blocks)
                for (size_t j = b * 32; j < n && j < (b + 1) * 32; j++) out.push_back(j);
            k = out;
        }
    } else if (pattern == 'f') {
        const uint64_t d = n / 64 + 2;
        for (size_t i = 0; i < n; i++) k[i] = xs_next(st) % d;
    } else if (pattern == 'b') {
        std::vector<uint64_t> blocks((n + 31) / 32), out;
        for (size_t i = 0; i < blocks.size(); i++) blocks[i] = i;
        shuffle(blocks);
        for (auto b : blocks)
            for (size_t j = b * 32; j < n && j < (b + 1) * 32; j++) out.push_back(j);
        k = out;
    } else {   // 'm'
        for (size_t i = 0; i < n; i++) k[i] = ((i % 128) < 64 ? (i % 128) : 127 - (i % 128)) + 64 * (xs_next(st) % 3);
    }
    return k;
}

static std::string big_verdict(const std::vector<uint64_t> &got, std::vector<uint64_t> keys, bool asc, long adjacent_bad) {
    std::sort(keys.begin(), keys.end());
    if (!asc) std::reverse(keys.begin(), keys.end());
    char buf[160];
    if (got.size() != keys.size()) return "size-changed";
    for (size_t i = 0; i < got.size(); i++)
        if (got[i] != keys[i]) {
            snprintf(buf, sizeof buf, "wrong-at:%zu:got=%llu:want=%llu", i, (unsigned long long)got[i], (unsigned long long)keys[i]);
            return buf;
        }
    if (adjacent_bad >= 0) {
        snprintf(buf, sizeof buf, "adjacent-out-of-order-at:%ld", adjacent_bad);
        return buf;
    }
    return "ok";
}

template <typename Elem>
static long adjacent_bad(const Elem *p, size_t from, size_t to, bool asc) {
    for (size_t i = from + 1; i < to; i++)
        if (asc ? (p[i] < p[i - 1]) : (p[i] > p[i - 1])) return long(i);
    return -1;
}

static std::string doBig(char kind, char pattern, size_t n, bool asc, uint64_t seed) {
    std::vector<uint64_t> keys = big_keys(pattern, n, seed, kind == 'h');
    std::vector<uint64_t> got;
    long                  adj = -1;
    char                  buf[32];
    if (kind == 'u' || kind == 'g') {
        const size_t pad = (kind == 'g') ? 100 : 0;
        Array<SizeT64> a;
        for (size_t i = 0; i < pad; i++) a += SizeT64(1000000000ULL + i * 7919ULL % 1000);   // untouched borders, unsorted
        for (auto k : keys) a += SizeT64(k);
        for (size_t i = 0; i < pad; i++) a += SizeT64(2000000000ULL + i * 104729ULL % 1000);
        if (kind == 'u') a.Sort(asc);
        else if (asc) Memory::Sort<true>(a.Storage(), SizeT(pad), SizeT(pad + n));
        else Memory::Sort<false>(a.Storage(), SizeT(pad), SizeT(pad + n));
        for (size_t i = 0; i < pad; i++)
            if (a.First()[i] != SizeT64(1000000000ULL + i * 7919ULL % 1000) || a.First()[pad + n + i] != SizeT64(2000000000ULL + i * 104729ULL % 1000))
                return "outside-segment-changed";
        for (size_t i = 0; i < n; i++) got.push_back(a.First()[pad + i]);
        adj = adjacent_bad(a.First(), pad, pad + n, asc);
    } else if (kind == 'd') {
        Array<double> a;
        for (auto k : keys) a += (double(k) - 1000.0) * 0.5;
        a.Sort(asc);
        for (size_t i = 0; i < n; i++) got.push_back(uint64_t(a.First()[i] * 2.0 + 1000.0));
        adj = adjacent_bad(a.First(), 0, n, asc);
    } else if (kind == 's') {
        Array<VStr> a;
        for (auto k : keys) {
            snprintf(buf, sizeof buf, "%07llu", (unsigned long long)k);
            a += VStr(static_cast<const char *>(buf));
        }
        a.Sort(asc);
        for (size_t i = 0; i < n; i++) got.push_back(strtoull(a.First()[i].First(), nullptr, 10));
        adj = adjacent_bad(a.First(), 0, n, asc);
    } else if (kind == 'v') {
        Val v{ValueType::Array};
        for (auto k : keys) v += SizeT64(k);
        v.Sort(asc);
        const auto *a = v.GetArray();
        for (size_t i = 0; i < a->Size(); i++) got.push_back(a->First()[i].GetUInt64());
        adj = adjacent_bad(a->First(), 0, a->Size(), asc);
    } else if (kind == 'h') {
        HArray<VStr, SizeT64> h;
        for (auto k : keys) {
            snprintf(buf, sizeof buf, "k%07llu", (unsigned long long)k);
            h[VStr(static_cast<const char *>(buf))] = SizeT64(k * 3 + 1);
        }
        h.Sort(asc);
        for (size_t i = 0; i < h.Size(); i++) got.push_back(strtoull(h.First()[i].Key.First() + 1, nullptr, 10));
        adj = adjacent_bad(h.First(), 0, h.Size(), asc);
        for (auto k : keys) {   // lookups remain correct
            snprintf(buf, sizeof buf, "k%07llu", (unsigned long long)k);
            const SizeT64 *x = h.GetValue(static_cast<const char *>(buf), SizeT(8));
            if (x == nullptr || *x != SizeT64(k * 3 + 1)) return std::string("lookup-fail:") + buf;
        }
    } else {
        return "bad-op";
    }
    return big_verdict(got, keys, asc, adj);
}

int main() {
    std::string line;
    while (vh::read_line(line)) {
        auto                  t = vh::split(line);
        std::vector<uint64_t> a, b;
        const std::string    &op = t[0];
        if ((op == "ordstr" || op == "ordstrs") && t.size() == 4 && parse_str(t[2], a) && parse_str(t[3], b)) {
            if (t[1] == "1") vh::emit(doStr<char>(a, b));
            else if (op == "ordstrs") vh::emit("bad-op");
            else if (t[1] == "2") vh::emit(doStr<char16_t>(a, b));
            else if (t[1] == "4") vh::emit(doStr<char32_t>(a, b));
            else if (t[1] == "W") vh::emit(doStr<wchar_t>(a, b));
            else vh::emit("bad-op");
        } else if (op == "ordval" && t.size() == 3) {
            vh::emit(doVal(t[1], t[2]));
        } else if ((op == "ordsortv" || op == "ordsorta") && t.size() == 3 && (t[1] == "0" || t[1] == "1")) {
            vh::emit(doSortV(t[1] == "1", t[2], op == "ordsorta"));
        } else if (op == "ordsorts" && t.size() == 4 && (t[1] == "0" || t[1] == "1")) {
            if (t[2] == "1" || t[2] == "1s") vh::emit(doSortS<char>(t[1] == "1", t[3]));
            else if (t[2] == "2") vh::emit(doSortS<char16_t>(t[1] == "1", t[3]));
            else if (t[2] == "4") vh::emit(doSortS<char32_t>(t[1] == "1", t[3]));
            else vh::emit("bad-op");
        } else if (op == "ordsorto" && t.size() == 3 && (t[1] == "0" || t[1] == "1")) {
            vh::emit(doSortO(t[1] == "1", t[2]));
        } else if (op == "ordsorth" && t.size() == 3 && (t[1] == "0" || t[1] == "1")) {
            vh::emit(doSortH(t[1] == "1", t[2]));
        } else if ((op == "ordsortseg" || op == "ordsortseg64") && t.size() == 5 && (t[1] == "0" || t[1] == "1")) {
            const unsigned long st = strtoul(t[2].c_str(), nullptr, 10), en = strtoul(t[3].c_str(), nullptr, 10);
            vh::emit(op == "ordsortseg" ? doSortSeg<SizeT>(t[1] == "1", st, en, t[4]) : doSortSeg<SizeT64>(t[1] == "1", st, en, t[4]));
        } else if (op == "ordsortw" && t.size() == 4 && (t[1] == "0" || t[1] == "1")) {
            if (t[2] == "1" || t[2] == "1s") vh::emit(doSortW<char>(t[1] == "1", t[3]));
            else if (t[2] == "2") vh::emit(doSortW<char16_t>(t[1] == "1", t[3]));
            else if (t[2] == "4") vh::emit(doSortW<char32_t>(t[1] == "1", t[3]));
            else vh::emit("bad-op");
        } else if (op == "ordsortn" && t.size() == 4 && (t[1] == "0" || t[1] == "1") && t[2].size() == 1) {
            if (t[2] == "n") vh::emit(doSortN<SizeT64>(t[1] == "1", 'n', t[3]));
            else if (t[2] == "i") vh::emit(doSortN<SizeT64I>(t[1] == "1", 'i', t[3]));
            else if (t[2] == "r") vh::emit(doSortN<double>(t[1] == "1", 'r', t[3]));
            else vh::emit("bad-op");
        } else if (op == "ordsortl" && t.size() == 3 && (t[1] == "0" || t[1] == "1")) {
            vh::emit(doSortL(t[1] == "1", t[2]));
        } else if (op == "ordbig" && t.size() == 6 && t[1].size() == 1 && t[2].size() == 1) {
            vh::emit(doBig(t[1][0], t[2][0], size_t(strtoull(t[3].c_str(), nullptr, 10)), t[4] == "1", strtoull(t[5].c_str(), nullptr, 10)));
        } else if (op == "orddeep" && t.size() == 4) {
            vh::emit(doDeep(unsigned(strtoul(t[1].c_str(), nullptr, 10)), t[2] == "1", t[3] == "1"));
        } else if (op == "ordloop" && t.size() == 3 && (t[1] == "0" || t[1] == "1")) {
            vh::emit(doLoop(t[1] == "1", t[2]));
        } else {
            vh::emit("bad-op");
        }
    }
    return 0;
}
