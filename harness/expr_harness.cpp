// Correspondence harness for C04: the expression scanner and evaluator of Template.hpp on
// exact-size heap buffers (ASan redzones border the text), real code in-process.
//
//   expeval <mode> <vars> <units>      (expexact is accepted identically)
//     mode p : TemplateCore::ParseExpressions(buf, len) + TemplateCore{buf, len}.Evaluate(...)
//              -> "<desc> <truth>"   desc = NP | NE | V n <dec> | V i <dec of the same bits> | V r <16 HEX>
//     mode m : Template::Render("{math:" + units + "}")                 -> "M <units of the output>"
//     mode i : Template::Render("<if case=\"" + units + "\">T<else />F</if>") -> "I <units of the output>"
//     mode q : Template::Render("{if case=\"" + units + "\" true=\"T\" false=\"F\"}") -> "Q <units of the output>"  (round e; harness only)
//     mode q : Template::Render("{if case=\"" + units + "\" true=\"T\" false=\"F\"}") -> "Q <units of the output>"
//              (round e: inline-if entry point; run on the harness only, expected text from the oracle)
//   expfmt <16hex>  -> "X <units>" of Digit::NumberToString(stream, double, {TemplatePrecision, TEMPLATE_DOUBLE_FORMAT})
//                      (exactly the call renderMath makes for a RealNumber result)
//   <vars> : "-" or ';'-separated name=K : n<dec> i<dec> r<16hex> t f z s<u.u.u> s o
#include "common.hpp"
#include <new>
#include "Value.hpp"
#include "Template.hpp"
#include "Digit.hpp"
#include "StringStream.hpp"
using namespace Qentem;

using VChar  = char;
using ValueC = Value<VChar>;
using Stream = StringStream<VChar>;
using Core   = TemplateCore<VChar, ValueC, Stream>;

static bool isName(const std::string &s) {
    if (s.empty()) return false;
    for (char c : s)
        if (c < 'a' || c > 'z') return false;
    return true;
}

static bool parseHex16(const std::string &s, uint64_t &out) {
    if (s.size() != 16) return false;
    out = 0;
    for (char c : s) {
        unsigned d;
        if (c >= '0' && c <= '9') d = unsigned(c - '0');
        else if (c >= 'A' && c <= 'F') d = unsigned(c - 'A') + 10U;
        else if (c >= 'a' && c <= 'f') d = unsigned(c - 'a') + 10U;
        else return false;
        out = (out << 4) | d;
    }
    return true;
}

static bool allDigits(const char *p) {
    if (!*p) return false;
    for (; *p; ++p)
        if (*p < '0' || *p > '9') return false;
    return true;
}

static double fromBits(uint64_t b) {
    double d;
    memcpy(&d, &b, sizeof d);
    return d;
}

static bool buildVars(const std::string &spec, ValueC &value) {
    value = ValueType::Object; // an (empty) object even when there are no variables
    if (spec == "-") return true;
    for (const std::string &e : vh::split(spec, ';')) {
        const size_t eq = e.find('=');
        if (eq == std::string::npos) return false;
        const std::string name = e.substr(0, eq);
        const std::string v    = e.substr(eq + 1);
        if (!isName(name) || v.empty()) return false;
        const char *rest = v.c_str() + 1;
        ValueC     &slot = value[name.c_str()];
        switch (v[0]) {
            case 'n': {
                if (!allDigits(rest)) return false;
                slot = static_cast<SizeT64>(strtoull(rest, nullptr, 10));
                break;
            }
            case 'i': {
                if (!allDigits(rest[0] == '-' ? rest + 1 : rest)) return false;
                slot = static_cast<SizeT64I>(strtoll(rest, nullptr, 10));
                break;
            }
            case 'r': {
                uint64_t b;
                if (!parseHex16(rest, b)) return false;
                slot = fromBits(b);
                break;
            }
            case 't': {
                if (*rest) return false;
                slot = true;
                break;
            }
            case 'f': {
                if (*rest) return false;
                slot = false;
                break;
            }
            case 'z': {
                if (*rest) return false;
                slot = nullptr;
                break;
            }
            case 'o': {
                if (*rest) return false;
                slot = ValueType::Array;
                slot += SizeT64{1};
                break;
            }
            case 's': {
                std::string s;
                if (*rest) {
                    for (const std::string &u : vh::split(rest, '.')) {
                        if (!allDigits(u.c_str())) return false;
                        const unsigned long long c = strtoull(u.c_str(), nullptr, 10);
                        if (c > 255ULL) return false;
                        s.push_back(static_cast<char>(c));
                    }
                }
                slot = ValueC{s.data(), SizeT(s.size())};
                break;
            }
            default:
                return false;
        }
    }
    return true;
}

static std::string hex16(uint64_t b) {
    char buf[24];
    snprintf(buf, sizeof buf, "%016llX", static_cast<unsigned long long>(b));
    return buf;
}

static std::string modeP(const std::vector<uint64_t> &u, const ValueC &value) {
    vh::ExactBuf<VChar> in(u);
    const Array<QExpression> exprs = Core::ParseExpressions(in.p, SizeT(in.n));
    if (exprs.IsEmpty()) return "NP 0";
    Core        temp{in.p, SizeT(in.n)};
    QExpression result;
    if (!temp.Evaluate(result, exprs, value)) return "NE 0";
    char        buf[64];
    std::string desc;
    switch (result.Type) {
        case QExpression::ExpressionType::NaturalNumber:
            snprintf(buf, sizeof buf, "V n %llu", static_cast<unsigned long long>(result.Value.Number.Natural));
            desc = buf;
            break;
        case QExpression::ExpressionType::IntegerNumber:
            snprintf(buf, sizeof buf, "V i %llu", static_cast<unsigned long long>(result.Value.Number.Natural));
            desc = buf;
            break;
        case QExpression::ExpressionType::RealNumber:
            desc = "V r " + hex16(static_cast<uint64_t>(result.Value.Number.Natural));
            break;
        default:
            return "NE 0";
    }
    return desc + ((result > 0U) ? " 1" : " 0");
}

static std::string renderFramed(const char *prefix, const std::vector<uint64_t> &u, const char *suffix,
                                const ValueC &value, const char *tag) {
    std::vector<uint64_t> text;
    for (const char *p = prefix; *p; ++p) text.push_back(static_cast<unsigned char>(*p));
    text.insert(text.end(), u.begin(), u.end());
    for (const char *p = suffix; *p; ++p) text.push_back(static_cast<unsigned char>(*p));
    vh::ExactBuf<VChar> in(text);
    Stream              ss;
    Template::Render(in.p, SizeT(in.n), value, ss);
    return std::string(tag) + " " + vh::show_units(ss.First(), ss.Length());
}

int main() {
    std::string line;
    while (vh::read_line(line)) {
        auto t = vh::split(line);
        if (t.size() == 2 && t[0] == "expfmt") {
            uint64_t b;
            if (!parseHex16(t[1], b)) { vh::emit("bad-op"); continue; }
            Stream ss;
            Digit::NumberToString(ss, fromBits(b), {Config::TemplatePrecision, QENTEM_TEMPLATE_DOUBLE_FORMAT});
            vh::emit("X " + vh::show_units(ss.First(), ss.Length()));
            continue;
        }
        std::vector<uint64_t> u;
        if (t.size() != 4 || (t[0] != "expeval" && t[0] != "expexact") || !vh::parse_nats(t[3], u)) {
            vh::emit("bad-op");
            continue;
        }
        bool wide = false;
        for (uint64_t c : u) wide = wide || (c > 255U);
        ValueC value;
        if (wide || !buildVars(t[2], value)) { vh::emit("bad-op"); continue; }
        if (t[1] == "p") vh::emit(modeP(u, value));
        else if (t[1] == "m") vh::emit(renderFramed("{math:", u, "}", value, "M"));
        else if (t[1] == "i") vh::emit(renderFramed("<if case=\"", u, "\">T<else />F</if>", value, "I"));
        else if (t[1] == "q") vh::emit(renderFramed("{if case=\"", u, "\" true=\"T\" false=\"F\"}", value, "Q"));
        else vh::emit("bad-op");
    }
    return 0;
}
