// Correspondence harness for C19: the real BigInt<Number_T, Width_T> and DoubleSize helpers.
//   bigseq <W> <n> <op>*      operation sequence on a fresh heap-allocated object (exact-size block) and a
//                             second one for copy / move assignment (sv: t = x, ld: x = t, mv: x = move(t));
//                             one token `idx/words/ret` per step, `pre` when the step's precondition
//                             fails (zero divisor, bit scan of a zero word) and the step is skipped; a last token `S<checked>.<bad>` is the
//                             unsigned __int128 shadow verdict (second opinion, values < 2^128 only).
//   bighm/bighd/bighmx/bighdx see lean/Qentem/Driver/BigInt.lean
#include "common.hpp"
#include "BigInt.hpp"
#include <new>
#include <unistd.h>
using namespace Qentem;
typedef unsigned __int128 u128;

static bool parse_u128(const std::string &s, u128 &out) {
    if (s.empty() || s.size() > 39) return false;
    u128 v = 0;
    for (char ch : s) {
        if (ch < '0' || ch > '9') return false;
        u128 nv = v * 10 + u128(ch - '0');
        if (nv / 10 != v) return false;
        v = nv;
    }
    out = v;
    return true;
}

static inline u128 shr128(u128 v, unsigned k) { return (k >= 128U) ? u128(0) : (v >> k); }
static inline SizeT64 shl64(SizeT64 v, unsigned k) { return (k >= 64U) ? SizeT64(0) : (v << k); }

static std::string show_u128(u128 v) {
    if (v == 0) return "0";
    char buf[48];
    int  i = 47;
    buf[i] = 0;
    while (v != 0) {
        buf[--i] = char('0' + int(v % 10));
        v /= 10;
    }
    return std::string(buf + i);
}

template <typename T>
struct Obj { // exact-size heap block so that ASan redzones border the object
    T *p;
    Obj() {
        void *m = malloc(sizeof(T));
        p       = new (m) T();
    }
    ~Obj() {
        p->~T();
        free(p);
    }
};

template <typename B>
static std::string show_state(const B &x, const std::string &ret) {
    const SizeT32 n    = B::MaxIndex() + 1U;
    SizeT32       last = 0;
    bool          any  = false;
    for (SizeT32 i = 0; i < n; ++i) {
        if (x.Storage()[i] != 0) {
            last = i;
            any  = true;
        }
    }
    std::string s = std::to_string(x.Index()) + "/";
    if (!any) s += "-";
    else {
        for (SizeT32 i = 0; i <= last; ++i) {
            if (i) s += ',';
            s += show_u128(u128(x.Storage()[i]));
        }
    }
    return s + "/" + ret;
}

typedef __int128 i128;
// operand / target types: every width and signedness, plus unsigned long / long (64 bits, distinct from
// the 64-bit word type unsigned long long, so they take the template overloads even at 64-bit words)
template <typename N> struct UOf { typedef N type; };
template <> struct UOf<SizeT8I> { typedef SizeT8 type; };
template <> struct UOf<SizeT16I> { typedef SizeT16 type; };
template <> struct UOf<SizeT32I> { typedef SizeT32 type; };
template <> struct UOf<SizeT64I> { typedef SizeT64 type; };
template <> struct UOf<long> { typedef unsigned long type; };
template <> struct UOf<i128> { typedef u128 type; };

template <typename F>
static bool withType(const std::string &ty, F &&fn) {
    if (ty == "8") fn(SizeT8{});
    else if (ty == "16") fn(SizeT16{});
    else if (ty == "32") fn(SizeT32{});
    else if (ty == "64") fn(SizeT64{});
    else if (ty == "128") fn(u128{});
    else if (ty == "L") fn((unsigned long)0);
    else if (ty == "s8") fn(SizeT8I{});
    else if (ty == "s16") fn(SizeT16I{});
    else if (ty == "s32") fn(SizeT32I{});
    else if (ty == "s64") fn(SizeT64I{});
    else if (ty == "s128") fn(i128{});
    else if (ty == "sL") fn(long{});
    else return false;
    return true;
}
static int typeBits(const std::string &ty, bool &is_signed) {
    int bits = 0;
    is_signed = false;
    withType(ty, [&](auto tag) {
        typedef decltype(tag) N;
        bits      = int(sizeof(N) * 8U);
        is_signed = (N(-1) < N(0));
    });
    return bits;
}

template <typename B, typename N>
static void doBop(B &x, const std::string &o, u128 v, bool neg) {
    // a negative operand (signed N only) is built from its two's-complement pattern
    const N a = N(neg ? (u128(0) - v) : v);
    if (o == "as") x = a;
    else if (o == "cn") { x.~B(); new (&x) B(a); } // converting constructor
    else if (o == "ad") x += a;
    else if (o == "sb") x -= a;
    else if (o == "or") x |= a;
    else x &= a;
}

// value of the object when it is below 2^128 (ok=false otherwise)
template <typename B>
static u128 low128(const B &x, bool &ok) {
    constexpr SizeT32 W = B::TypeWidth();
    const SizeT32     n = B::MaxIndex() + 1U;
    u128              v = 0;
    ok                  = true;
    for (SizeT32 i = 0; i < n; ++i) {
        if (x.Storage()[i] != 0) {
            if ((i + 1U) * W > 128U) {
                ok = false;
                return 0;
            }
            v |= (u128(x.Storage()[i]) << (i * W));
        }
    }
    return v;
}

template <typename T, SizeT32 Width>
static std::string runSeq(const std::vector<std::string> &t) {
    using B             = BigInt<T, Width>;
    constexpr SizeT32 W = sizeof(T) * 8U;
    const SizeT32     n = B::MaxIndex() + 1U;
    if (std::to_string(n) != t[2]) return "cfg-mismatch";
    Obj<B>      holder;
    B          &x = *holder.p;
    Obj<B>      holder2;
    B          &y = *holder2.p; // the second object (tokens sv / ld / mv)
    u128        sht = 0;
    bool        shtv = true;
    std::string out;
    // shadow
    u128               sh = 0;
    bool               shv = true;
    unsigned long long sh_checked = 0, sh_bad = 0;
    const bool         narrow_obj = (n * W < 128U);
    auto fits = [&](u128 v) { return !narrow_obj || (shr128(v, n * W) == 0); };

    for (size_t k = 3; k < t.size(); ++k) {
        auto        f = vh::split(t[k], ':');
        const auto &o = f[0];
        std::string ret = "_";
        bool        pre = false;
        bool        shret_known = false;
        std::string shret;
        if (f.size() == 3 && (o == "ai" || o == "si" || o == "st")) {
            // Add(number, index) / Subtract(number, index) / Storage()[index] = number
            u128 v, iv;
            if (!parse_u128(f[1], iv) || !parse_u128(f[2], v) || (iv >> 32) != 0 || shr128(v, W) != 0) return "bad-op";
            const SizeT32 idx = SizeT32(iv);
            if (o == "st") {
                if (idx >= n) return "bad-op";
                x.Storage()[idx] = T(v);
                shv = false;
            } else {
                if (o == "ai") x.Add(T(v), idx);
                else x.Subtract(T(v), idx);
                if (shv && v != 0) {
                    if (u128(idx) * W >= 128U) shv = false;
                    else {
                        const u128 t = v << (idx * W);
                        if ((t >> (idx * W)) != v) shv = false;
                        else if (o == "ai") { u128 r; shv = !__builtin_add_overflow(sh, t, &r) && fits(r); sh = r; }
                        else { shv = (t <= sh); sh -= t; }
                    }
                }
            }
        } else if (f.size() == 3) {
            u128 v;
            bool sg;
            const int  K = typeBits(f[1], sg);
            const bool neg = (!f[2].empty() && f[2][0] == '-');
            if (K == 0 || !parse_u128(neg ? f[2].substr(1) : f[2], v)) return "bad-op";
            if (neg && (!sg || v == 0 || v > (u128(1) << (K - 1)))) return "bad-op";
            if (!neg && shr128(v, unsigned(sg ? K - 1 : K)) != 0) return "bad-op";
            if (!(o == "as" || o == "cn" || o == "ad" || o == "sb" || o == "or" || o == "an")) return "bad-op";
            // the value the operand denotes for the object: a negative number is its two's-complement
            // pattern at width max(K, W) (sign extension to the word, chunk loop over the operand's width)
            u128 u = v;
            if (neg) {
                const unsigned m = (unsigned(K) > W) ? unsigned(K) : W;
                u = u128(0) - v;
                if (m < 128U) u &= ((u128(1) << m) - 1U);
            }
            withType(f[1], [&](auto tag) { doBop<B, decltype(tag)>(x, o, v, neg); });
            if (o == "cn") { sh = u; shv = fits(u); }
            else if (shv) {
                if (o == "as") { sh = u; shv = fits(u); }
                else
                if (o == "ad") { u128 r; shv = !__builtin_add_overflow(sh, u, &r) && fits(r); sh = r; }
                else if (o == "sb") { shv = (u <= sh); sh -= u; }
                else if (o == "or") { shv = fits(u); sh |= u; }
                else { shv = fits(u); sh &= u; }
            }
        } else if (f.size() == 2 && o == "nw") {
            // explicit conversion to every unsigned / signed type (signed results shown as their bit pattern)
            bool      sg;
            const int K = typeBits(f[1], sg);
            if (K == 0) return "bad-op";
            u128 r = 0;
            withType(f[1], [&](auto tag) {
                typedef decltype(tag) N;
                r = u128(typename UOf<N>::type(N(x)));
            });
            ret = show_u128(r);
            if (shv) { shret = show_u128(K >= 128 ? sh : (sh & ((u128(1) << K) - 1U))); shret_known = true; }
        } else if (f.size() == 2) {
            u128 v;
            if (!parse_u128(f[1], v)) return "bad-op";
            if (o == "ix") {
                if (v >= n) return "bad-op";
                x.SetIndex(SizeT32(v));
                shv = false;
            } else if (o == "dq") {
                if ((v >> W) != 0) return "bad-op";
                if (v == 0) pre = true;
                else { x /= T(v); if (shv) sh /= v; }
            } else if (o == "mun") {
                if ((v >> W) != 0) return "bad-op";
                x.Multiply(T(v));
                if (shv) { u128 r; shv = !__builtin_mul_overflow(sh, v, &r) && fits(r); sh = r; }
            } else if (o == "sln" || o == "srn") {
                if ((v >> 32) != 0) return "bad-op";
                const SizeT32 k2 = SizeT32(v);
                if (o == "sln") {
                    x.ShiftLeft(k2);
                    if (shv) {
                        if (sh == 0) { }
                        else if (k2 >= 128U || ((sh << k2) >> k2) != sh || !fits(sh << k2)) shv = false;
                        else sh <<= k2;
                    }
                } else {
                    x.ShiftRight(k2);
                    if (shv) sh = (k2 >= 128U) ? u128(0) : (sh >> k2);
                }
            } else
            if (o == "rlt" || o == "rle" || o == "rgt" || o == "rge" || o == "req" || o == "rne") {
                // the reversed friends: number OP object
                if ((v >> W) != 0) return "bad-op";
                const T a = T(v);
                bool    b;
                bool    e = false;
                if (o == "rlt") { b = (a < x); e = (v < sh); }
                else if (o == "rle") { b = (a <= x); e = (v <= sh); }
                else if (o == "rgt") { b = (a > x); e = (v > sh); }
                else if (o == "rge") { b = (a >= x); e = (v >= sh); }
                else if (o == "req") { b = (a == x); e = (v == sh); }
                else { b = (a != x); e = (v != sh); }
                ret = b ? "T" : "F";
                if (shv) { shret = e ? "T" : "F"; shret_known = true; }
            } else if (o == "mu" || o == "dv" || o == "lt" || o == "le" || o == "gt" || o == "ge" || o == "eq" || o == "ne") {
                if ((v >> W) != 0) return "bad-op";
                const T a = T(v);
                if (o == "mu") {
                    x *= a;
                    if (shv) { u128 r; shv = !__builtin_mul_overflow(sh, v, &r) && fits(r); sh = r; }
                } else if (o == "dv") {
                    if (a == 0) pre = true;
                    else {
                        ret = show_u128(u128(x.Divide(a)));
                        if (shv) { shret = show_u128(sh % v); shret_known = true; sh /= v; }
                    }
                } else {
                    bool b;
                    bool e = false;
                    if (o == "lt") { b = (x < a); e = (sh < v); }
                    else if (o == "le") { b = (x <= a); e = (sh <= v); }
                    else if (o == "gt") { b = (x > a); e = (sh > v); }
                    else if (o == "ge") { b = (x >= a); e = (sh >= v); }
                    else if (o == "eq") { b = (x == a); e = (sh == v); }
                    else { b = (x != a); e = (sh != v); }
                    ret = b ? "T" : "F";
                    if (shv) { shret = e ? "T" : "F"; shret_known = true; }
                }
            } else if (o == "sl" || o == "sr") {
                if ((v >> 32) != 0) return "bad-op";
                const SizeT32 s = SizeT32(v);
                if (o == "sl") {
                    x <<= s;
                    if (shv) {
                        if (sh == 0) { /* stays zero */ }
                        else if (s >= 128U || ((sh << s) >> s) != sh || !fits(sh << s)) shv = false;
                        else sh <<= s;
                    }
                } else {
                    x >>= s;
                    if (shv) sh = (s >= 128U) ? u128(0) : (sh >> s);
                }
            } else if (o == "nw") {
                const int K = int(v);
                u128      r, m;
                switch (K) {
                    case 8: r = u128(SizeT8(x)); m = 0xFFU; break;
                    case 16: r = u128(SizeT16(x)); m = 0xFFFFU; break;
                    case 32: r = u128(SizeT32(x)); m = 0xFFFFFFFFU; break;
                    case 64: r = u128(SizeT64(x)); m = ~SizeT64{0}; break;
                    case 128: r = u128(x); m = ~u128(0); break;
                    default: return "bad-op";
                }
                ret = show_u128(r);
                if (shv) { shret = show_u128(sh & m); shret_known = true; }
            } else return "bad-op";
        } else if (o == "sv" || o == "ld" || o == "mv" || o == "sa" || o == "sm" || o == "cc" || o == "mc") {
            // the shadow follows a copy only when both objects were being followed (the target's
            // invariant is a precondition of copy)
            const bool both = shv && shtv;
            if (o == "sv") { y = x; sht = sh; shtv = both; }
            else if (o == "ld") { x = y; sh = sht; shv = both; }
            else if (o == "mv") { x = static_cast<B &&>(y); sh = sht; shv = both; sht = 0; shtv = both; }
            else if (o == "sa") { B &alias = x; x = alias; }                       // b = b
            else if (o == "sm") { B &alias = x; x = static_cast<B &&>(alias); }    // b = Move(b)
            else if (o == "cc") { y.~B(); new (&y) B(x); sht = sh; shtv = both; } // copy constructor
            else { x.~B(); new (&x) B(static_cast<B &&>(y)); sh = sht; shv = both; sht = 0; shtv = both; } // move constructor
            if (!out.empty()) out += ' ';
            std::string ys = show_state(y, "_");
            out += show_state(x, "_") + "~" + ys.substr(0, ys.size() - 2);
            {
                bool    ok;
                u128    held = low128(x, ok);
                SizeT32 top = 0;
                for (SizeT32 i = 0; i < n; ++i) if (x.Storage()[i] != 0) top = i;
                if (shv) { ++sh_checked; if (!ok || held != sh || top != x.Index()) ++sh_bad; }
                else if (ok && top == x.Index()) { sh = held; shv = true; }
                held = low128(y, ok);
                top = 0;
                for (SizeT32 i = 0; i < n; ++i) if (y.Storage()[i] != 0) top = i;
                if (shtv) { ++sh_checked; if (!ok || held != sht || top != y.Index()) ++sh_bad; }
                else if (ok && top == y.Index()) { sht = held; shtv = true; }
            }
            continue;
        } else {
            if (o == "mi") { ret = std::to_string(B::MaxIndex()); shret = std::to_string(n - 1U); shret_known = shv; }
            else if (o == "tw") { ret = std::to_string(B::TypeWidth()); shret = std::to_string(W); shret_known = shv; }
            else if (o == "tb") { ret = std::to_string(B::TotalBits()); shret = std::to_string(n * W); shret_known = shv; }
            else if (o == "so") { ret = std::to_string(B::SizeOfType()); shret = std::to_string(W / 8U); shret_known = shv; }
            else if (o == "sad" || o == "ssb" || o == "sor" || o == "san" || o == "smu" || o == "sdv") {
                // the operand aliases the object: b OP= b.Number()
                const u128 w0 = u128(x.Number());
                const u128 sw = u128(T(sh));
                if (o == "sad") { x += x.Number(); if (shv) { u128 r; shv = !__builtin_add_overflow(sh, sw, &r) && fits(r); sh = r; } }
                else if (o == "ssb") { x -= x.Number(); if (shv) sh -= sw; }
                else if (o == "sor") { x |= x.Number(); if (shv) sh |= sw; }
                else if (o == "san") { x &= x.Number(); if (shv) sh &= sw; }
                else if (o == "smu") { x *= x.Number(); if (shv) { u128 r; shv = !__builtin_mul_overflow(sh, sw, &r) && fits(r); sh = r; } }
                else {
                    if (w0 == 0) pre = true;
                    else {
                        ret = show_u128(u128(x.Divide(x.Number())));
                        if (shv) { shret = show_u128(sh % sw); shret_known = true; sh /= sw; }
                    }
                }
            }
            else if (o == "ib") { ret = x.IsBig() ? "T" : "F"; if (shv) { shret = ((sh >> (W - 1U)) >> 1U) != 0 ? "T" : "F"; shret_known = true; } }
            else if (o == "nz") { ret = x.NotZero() ? "T" : "F"; if (shv) { shret = (sh != 0) ? "T" : "F"; shret_known = true; } }
            else if (o == "iz") { ret = x.IsZero() ? "T" : "F"; if (shv) { shret = (sh == 0) ? "T" : "F"; shret_known = true; } }
            else if (o == "nu") { ret = show_u128(u128(x.Number())); if (shv) { shret = show_u128(u128(T(sh))); shret_known = true; } }
            else if (o == "cl") { x.Clear(); sh = 0; }
            else if (o == "fl") {
                if (x.Storage()[x.Index()] == 0) pre = true;
                else {
                    ret = std::to_string(x.FindLastBit());
                    if (shv && sh != 0) { unsigned b = 127; while (((sh >> b) & 1U) == 0) --b; shret = std::to_string(b); shret_known = true; }
                }
            } else if (o == "ff") {
                SizeT32 i = 0;
                while (i < x.Index() && x.Storage()[i] == 0) ++i;
                if (x.Storage()[i] == 0) pre = true;
                else {
                    ret = std::to_string(x.FindFirstBit());
                    if (shv && sh != 0) { unsigned b = 0; while (((sh >> b) & 1U) == 0) ++b; shret = std::to_string(b); shret_known = true; }
                }
            } else return "bad-op";
        }
        if (!out.empty()) out += ' ';
        if (pre) { out += "pre"; continue; }
        out += show_state(x, ret);
        {
            bool    ok;
            u128    held = low128(x, ok);
            SizeT32 top = 0;
            for (SizeT32 i = 0; i < n; ++i) if (x.Storage()[i] != 0) top = i;
            if (shv) {
                ++sh_checked;
                if (!ok || held != sh || top != x.Index() || (shret_known && shret != ret)) ++sh_bad;
            } else if (ok && top == x.Index()) {
                // after an operation that did not fit: follow the object again once it is canonical
                sh  = held;
                shv = true;
            }
        }
    }
    if (!out.empty()) out += ' ';
    out += "S" + std::to_string(sh_checked) + "." + std::to_string(sh_bad);
    return out;
}

// ---------------------------------------------------------------- DoubleSize helpers
// An unsigned integer of sizeof(R) bytes WITHOUT integer promotion: every operator wraps at the
// width of R.  DoubleSize<Number_T, 64U> instantiated with NP<uint8_t> / NP<uint16_t> is the real
// half-word algorithm at h = 4 / h = 8 (with the built-in 8/16-bit types the constant
// `~(Number_T{0}) >> shift_` is computed in int and is not the half-word mask; BigInt never uses
// that combination).
template <typename R>
struct NP {
    R v;
    constexpr NP() : v(0) {}
    constexpr NP(int x) : v(R(x)) {}
    constexpr explicit NP(u128 x) : v(R(x)) {}
    constexpr NP operator~() const { return mk(R(~v)); }
    static constexpr NP mk(R r) { NP x; x.v = r; return x; }
    friend constexpr NP operator+(NP a, NP b) { return mk(R(a.v + b.v)); }
    friend constexpr NP operator-(NP a, NP b) { return mk(R(a.v - b.v)); }
    friend constexpr NP operator*(NP a, NP b) { return mk(R(a.v * b.v)); }
    friend constexpr NP operator/(NP a, NP b) { return mk(R(a.v / b.v)); }
    friend constexpr NP operator%(NP a, NP b) { return mk(R(a.v % b.v)); }
    friend constexpr NP operator&(NP a, NP b) { return mk(R(a.v & b.v)); }
    friend constexpr NP operator|(NP a, NP b) { return mk(R(a.v | b.v)); }
    friend constexpr NP operator<<(NP a, SizeT32 k) { return mk(R(a.v << k)); }
    friend constexpr NP operator>>(NP a, SizeT32 k) { return mk(R(a.v >> k)); }
    NP &operator+=(NP b) { v = R(v + b.v); return *this; }
    NP &operator-=(NP b) { v = R(v - b.v); return *this; }
    NP &operator*=(NP b) { v = R(v * b.v); return *this; }
    NP &operator/=(NP b) { v = R(v / b.v); return *this; }
    NP &operator%=(NP b) { v = R(v % b.v); return *this; }
    NP &operator&=(NP b) { v = R(v & b.v); return *this; }
    NP &operator|=(NP b) { v = R(v | b.v); return *this; }
    NP &operator<<=(SizeT32 k) { v = R(v << k); return *this; }
    NP &operator>>=(SizeT32 k) { v = R(v >> k); return *this; }
    NP &operator++() { v = R(v + 1); return *this; }
    NP &operator--() { v = R(v - 1); return *this; }
    friend constexpr bool operator<(NP a, NP b) { return a.v < b.v; }
    friend constexpr bool operator>(NP a, NP b) { return a.v > b.v; }
    friend constexpr bool operator<=(NP a, NP b) { return a.v <= b.v; }
    friend constexpr bool operator>=(NP a, NP b) { return a.v >= b.v; }
    friend constexpr bool operator==(NP a, NP b) { return a.v == b.v; }
    friend constexpr bool operator!=(NP a, NP b) { return a.v != b.v; }
};
template <typename T> struct Raw { static u128 get(T x) { return u128(x); } static T make(u128 x) { return T(x); } };
template <typename R> struct Raw<NP<R>> { static u128 get(NP<R> x) { return u128(x.v); } static NP<R> make(u128 x) { return NP<R>(x); } };

static unsigned log2u(u128 v) { unsigned b = 0; while ((v >> b) > 1) ++b; return b; }

template <typename T, SizeT32 Sel>
static void helperMul(u128 a, u128 b, u128 &hi, u128 &lo) {
    T l = Raw<T>::make(a);
    T h = DoubleSize<T, Sel>::Multiply(l, Raw<T>::make(b));
    hi = Raw<T>::get(h);
    lo = Raw<T>::get(l);
}
template <typename T, SizeT32 Sel>
static void helperDiv(u128 hi, u128 lo, u128 d, u128 &r, u128 &q) {
    constexpr SizeT32 W = sizeof(T) * 8U;
    // what BigInt::Divide passes: (TypeWidth()-1) - FindLastBit(divisor) for the 64 selector, else 0
    const SizeT32 shift = (Sel == 64U) ? ((W - 1U) - log2u(d)) : 0U;
    T rr = Raw<T>::make(hi);
    T qq = Raw<T>::make(lo);
    DoubleSize<T, Sel>::Divide(rr, qq, Raw<T>::make(d), shift);
    r = Raw<T>::get(rr);
    q = Raw<T>::get(qq);
}
static bool mulExact(unsigned W, u128 a, u128 b, u128 hi, u128 lo) { return ((hi << W) | lo) == a * b; }
static bool divExact(unsigned W, u128 hi, u128 lo, u128 d, u128 r, u128 q) {
    u128 p, s;
    if (__builtin_mul_overflow(q, d, &p) || __builtin_add_overflow(p, r, &s)) return false;
    return s == ((hi << W) | lo) && r < d;
}

template <typename T, SizeT32 Sel>
static std::string helper(const std::vector<std::string> &t) {
    constexpr SizeT32 W = sizeof(T) * 8U;
    std::vector<u128> a;
    for (size_t i = 3; i < t.size(); ++i) {
        u128 v;
        if (!parse_u128(t[i], v) || shr128(v, W) != 0) return "bad-op";
        a.push_back(v);
    }
    if (t[0] == "bighm" && a.size() == 2) {
        u128 hi, lo;
        helperMul<T, Sel>(a[0], a[1], hi, lo);
        return show_u128(hi) + " " + show_u128(lo) + " " + (mulExact(W, a[0], a[1], hi, lo) ? "1" : "0");
    }
    if (t[0] == "bighd" && a.size() == 3) {
        if (a[2] == 0) return "pre";
        u128 r, q;
        helperDiv<T, Sel>(a[0], a[1], a[2], r, q);
        return show_u128(r) + " " + show_u128(q) + " " + (divExact(W, a[0], a[1], a[2], r, q) ? "1" : "0");
    }
    if (t[0] == "bighmx" && a.size() == 1 && W == 8U) {
        SizeT64  acc = 0;
        unsigned ex = 0;
        for (unsigned b = 0; b < 256U; ++b) {
            u128 hi, lo;
            helperMul<T, Sel>(a[0], b, hi, lo);
            acc = acc * 1000003ULL + SizeT64((hi << W) + lo);
            ex += mulExact(W, a[0], b, hi, lo) ? 1U : 0U;
        }
        return std::to_string(acc) + " " + std::to_string(ex);
    }
    if (t[0] == "bighdx" && a.size() == 2 && W == 8U) {
        if (a[0] == 0) return "fault";
        SizeT64  acc = 0;
        unsigned ex = 0;
        for (unsigned lo = 0; lo < 256U; ++lo) {
            u128 r, q;
            helperDiv<T, Sel>(a[1], lo, a[0], r, q);
            acc = acc * 1000003ULL + SizeT64((r << W) + q);
            ex += divExact(W, a[1], lo, a[0], r, q) ? 1U : 0U;
        }
        return std::to_string(acc) + " " + std::to_string(ex);
    }
    return "bad-op";
}

static std::string dispatchHelper(const std::vector<std::string> &t) {
    if (t.size() < 4) return "bad-op";
    const bool hand = (t[1] == "hand");
    if (!hand && t[1] != "nat") return "bad-op";
    const std::string &w = t[2];
    if (w == "8") return hand ? helper<NP<SizeT8>, 64U>(t) : helper<SizeT8, 8U>(t);
    if (w == "16") return hand ? helper<NP<SizeT16>, 64U>(t) : helper<SizeT16, 16U>(t);
    if (w == "32") return hand ? helper<SizeT32, 64U>(t) : helper<SizeT32, 32U>(t);
    if (w == "64" && hand) return helper<SizeT64, 64U>(t);
    return "bad-op";
}

static std::string dispatchSeq(const std::vector<std::string> &t) {
    if (t.size() < 3) return "bad-op";
    const std::string key = t[1] + "/" + t[2];
#define INST(T, W, WIDTH, N) \
    if (key == #W "/" #N) return runSeq<T, WIDTH>(t);
    INST(SizeT8, 8, 64U, 8)
    INST(SizeT8, 8, 72U, 9)
    INST(SizeT8, 8, 128U, 16)
    INST(SizeT8, 8, 250U, 32)
    INST(SizeT8, 8, 2048U, 256)
    INST(SizeT16, 16, 64U, 4)
    INST(SizeT16, 16, 80U, 5)
    INST(SizeT16, 16, 256U, 16)
    INST(SizeT16, 16, 1024U, 64)
    INST(SizeT32, 32, 64U, 2)
    INST(SizeT32, 32, 96U, 3)
    INST(SizeT32, 32, 128U, 4)
    INST(SizeT32, 32, 500U, 16)
    INST(SizeT32, 32, 2048U, 64)
    INST(SizeT64, 64, 64U, 1)
    INST(SizeT64, 64, 100U, 2)
    INST(SizeT64, 64, 192U, 3)
    INST(SizeT64, 64, 256U, 4)
    INST(SizeT64, 64, 1024U, 16)
    INST(SizeT64, 64, 2048U, 32)
#undef INST
    return "bad-op";
}

int main() {
    std::string line;
    while (vh::read_line(line)) {
        alarm(8);  // an operation that never returns (a chunk loop on a negative operand) ends the line as FAULT signal:14
        auto t = vh::split(line);
        if (t[0] == "bigseq") vh::emit(dispatchSeq(t));
        else if (t[0] == "bighm" || t[0] == "bighd" || t[0] == "bighmx" || t[0] == "bighdx") vh::emit(dispatchHelper(t));
        else vh::emit("bad-op");
    }
    return 0;
}
