// Correspondence harness for C03: StringUtils::EscapeHTMLSpecialChars on exact-size buffers.
//   esc <auto> <w> <units>   ->  units appended to the stream
#include "ledger.hpp"
#include "common.hpp"
#include "StringStream.hpp"
#include "StringUtils.hpp"
using namespace Qentem;

template <typename Char_T>
static std::string doEsc(const std::vector<uint64_t> &u, bool prefill) {
    vh::ExactBuf<Char_T> in(u);
    StringStream<Char_T> ss;
    if (prefill) {
        ss += Char_T('<');
        ss += Char_T('&');
    }
    StringUtils::EscapeHTMLSpecialChars(ss, in.p, SizeT(in.n));
    if (prefill) {
        if (ss.Length() < 2 || ss.First()[0] != Char_T('<') || ss.First()[1] != Char_T('&')) return "prefix-disturbed";
        return vh::show_units(ss.First() + 2, ss.Length() - 2);
    }
    return vh::show_units(ss.First(), ss.Length());
}

int main() {
    std::string line;
    while (vh::read_line(line)) {
        auto t = vh::split(line);
        std::vector<uint64_t> u;
        if (t.size() == 4 && (t[0] == "esc" || t[0] == "escp") && vh::parse_nats(t[3], u)) {
            const bool pre = (t[0] == "escp");
            if ((t[1] == "1") != Config::AutoEscapeHTML) { vh::emit("cfg-mismatch"); continue; }
            if (t[2] == "1") vh::emit(doEsc<char>(u, pre));
            else if (t[2] == "2") vh::emit(doEsc<char16_t>(u, pre));
            else if (t[2] == "4") vh::emit(doEsc<char32_t>(u, pre));
            else if (t[2] == "W") vh::emit(doEsc<wchar_t>(u, pre));
            else vh::emit("bad-op");
        } else {
            vh::emit("bad-op");
        }
    }
    return 0;
}
