// Correspondence harness for C03: StringUtils::EscapeHTMLSpecialChars on exact-size buffers.
//   esc <auto> <w> <units>   ->  units appended to the stream
#include <new>
#include "ledger.hpp"
#include "common.hpp"
#include "StringStream.hpp"
#include "StringUtils.hpp"
#include "Value.hpp"
#include "Template.hpp"
using namespace Qentem;

// Template print paths (C03): every way a {var:} tag can emit a string.
//   tpl <auto> <w> <mode> <units>   modes: var ptr ptr2 ptr3 rawptr2 loopptr2 svarptr2 iifptr2 arr loopval loopkey echo raw rawptr svar svarb
//                                   (round c) nested positions: rawloop rawif rawelse rawiif rawiiff rawsvar varif variif
//   tplc <auto> <w> <mode> <units>  the same, rendered through a copy-assigned copy of a copy-constructed copy of the
//                                   parsed Array<TagBit> (original and first copy destroyed before the render)
template <typename Char_T>
static std::basic_string<Char_T> lit(const char *a) {
    std::basic_string<Char_T> r;
    for (; *a; ++a) r.push_back(Char_T(*a));
    return r;
}

template <typename Char_T>
static std::string doTpl(const std::string &mode, const std::vector<uint64_t> &u, bool through_copy = false) {
    using Str = std::basic_string<Char_T>;
    vh::ExactBuf<Char_T> in(u);
    String<Char_T>       S(static_cast<const Char_T *>(in.p), SizeT(in.n));
    Value<Char_T>        value;
    Value<Char_T>        target;
    Value<Char_T>        hop1;
    Value<Char_T>        hop2;
    Str                  t;
    const Char_T         kx[] = {Char_T('x'), 0};
    const Char_T         kl[] = {Char_T('l'), 0};
    const Char_T         kp[] = {Char_T('p'), 0};
    const Char_T         ka[] = {Char_T('a'), 0};
    if (mode == "var" || mode == "raw") {
        value[kx] = S;
        t = lit<Char_T>(mode == "var" ? "{var:x}" : "{raw:x}");
    } else if (mode == "ptr" || mode == "rawptr") {
        target = S;
        value[kx].SetPointerToValue(&target);
        t = lit<Char_T>(mode == "ptr" ? "{var:x}" : "{raw:x}");
    } else if (mode == "ptr2" || mode == "ptr3" || mode == "rawptr2" || mode == "loopptr2" || mode == "svarptr2" ||
               mode == "iifptr2") {
        // the string is two / three pointer-to-value hops away
        target = S;
        hop1.SetPointerToValue(&target);
        hop2.SetPointerToValue(&hop1);
        Value<Char_T> *last = (mode == "ptr3") ? &hop2 : &hop1;
        if (mode == "loopptr2") {
            Value<Char_T> item;
            item.SetPointerToValue(last);
            value[kl] += static_cast<Value<Char_T> &&>(item);
            t = lit<Char_T>("<loop set=\"l\" value=\"v\">{var:v}</loop>");
        } else if (mode == "svarptr2") {
            const Str ph0 = lit<Char_T>("{0}");
            value[kp]     = String<Char_T>(static_cast<const Char_T *>(ph0.data()), SizeT(ph0.size()));
            value[ka].SetPointerToValue(last);
            t = lit<Char_T>("{svar:p, {var:a}}");
        } else {
            value[kx].SetPointerToValue(last);
            t = lit<Char_T>(mode == "rawptr2" ? "{raw:x}" : mode == "iifptr2" ? "{if case=\"1\" true=\"{var:x}\" false=\"-\"}" : "{var:x}");
        }
    } else if (mode == "arr") {
        value += S;
        t = lit<Char_T>("a{var:0}b");
    } else if (mode == "loopval") {
        value[kl] += S;
        t = lit<Char_T>("<loop set=\"l\" value=\"v\">{var:v}</loop>");
    } else if (mode == "loopkey") {
        value[kl][S] += SizeT64{1}; // item value is an array: not printable, the key is printed instead
        t = lit<Char_T>("<loop set=\"l\" value=\"v\">{var:v}</loop>");
    } else if (mode == "echo") {
        t = lit<Char_T>("{var:");
        t.append(in.p, in.n);
        t.push_back(Char_T('}'));
    } else if (mode == "svar" || mode == "svarb") {
        Str ph;
        if (mode == "svarb") ph.push_back(Char_T('{')); // "{S}" is not a placeholder (S is not one digit): literal text
        ph.append(in.p, in.n);
        if (mode == "svarb") ph.push_back(Char_T('}'));
        ph += lit<Char_T>("{0}");
        value[kp] = String<Char_T>(static_cast<const Char_T *>(ph.data()), SizeT(ph.size()));
        value[ka] = S;
        t = lit<Char_T>("{svar:p, {var:a}}");
    } else if (mode == "rawloop") {
        value[kl] += S;
        t = lit<Char_T>("<loop set=\"l\" value=\"v\">{raw:v}</loop>");
    } else if (mode == "rawif" || mode == "rawelse" || mode == "rawiif" || mode == "rawiiff" || mode == "varif" ||
               mode == "variif") {
        value[kx] = S;
        t = lit<Char_T>(mode == "rawif"     ? "<if case=\"1\">{raw:x}</if>"
                        : mode == "rawelse" ? "<if case=\"0\">a<else />{raw:x}</if>"
                        : mode == "rawiif"  ? "{if case=\"1\" true=\"{raw:x}\" false=\"{var:x}\"}"
                        : mode == "rawiiff" ? "{if case=\"0\" true=\"{var:x}\" false=\"{raw:x}\"}"
                        : mode == "varif"   ? "<if case=\"1\">{var:x}</if>"
                                            : "{if case=\"1\" true=\"{var:x}\" false=\"{raw:x}\"}");
    } else if (mode == "rawsvar") {
        const Str ph0 = lit<Char_T>("{0}");
        value[kp]     = String<Char_T>(static_cast<const Char_T *>(ph0.data()), SizeT(ph0.size()));
        value[ka] = S;
        t = lit<Char_T>("{svar:p, {raw:a}}");
    } else {
        return "bad-op";
    }
    std::vector<uint64_t> tu(t.begin(), t.end());
    vh::ExactBuf<Char_T>  tb(tu);
    StringStream<Char_T>  ss;
    ss += Char_T('<');
    if (!through_copy) {
        Template::Render(tb.p, SizeT(tb.n), value, ss);
    } else {
        using Core  = TemplateCore<Char_T, Value<Char_T>, StringStream<Char_T>>;
        using Tags_ = Array<Tags::TagBit>;
        const Char_T *cp = tb.p;
        Tags_         last;
        {
            // something to overwrite: copy assignment over a non-empty array
            const std::basic_string<Char_T> o = lit<Char_T>("{raw:x}<loop value=\"v\">{var:v}</loop>{svar:p, {raw:a}}");
            std::vector<uint64_t>           ou(o.begin(), o.end());
            vh::ExactBuf<Char_T>            ob(ou);
            Core::Parse(static_cast<const Char_T *>(ob.p), SizeT(ob.n), last);
        }
        {
            Tags_ orig;
            Core::Parse(cp, SizeT(tb.n), orig);
            const Tags_ &co = orig;
            Tags_        c1(co);
            const Tags_ &cc = c1;
            last            = cc;
        }
        Core         temp{cp, SizeT(tb.n)};
        const Tags_ &ct = last;
        temp.Render(ct, value, ss);
    }
    if (ss.Length() < 1 || ss.First()[0] != Char_T('<')) return "prefix-disturbed";
    SizeT from = 1, len = ss.Length() - 1;
    if (mode == "arr") {
        if (len < 2 || ss.First()[1] != Char_T('a') || *ss.Last() != Char_T('b')) return "frame-disturbed";
        from = 2;
        len -= 2;
    }
    return vh::show_units(ss.First() + from, len);
}

template <typename Char_T>
static std::string doEsc(const std::vector<uint64_t> &u, bool prefill) {
    vh::ExactBuf<Char_T> in(u);
    StringStream<Char_T> ss;
    if (prefill) {
        ss += Char_T('<');
        ss += Char_T('&');
    }
    StringUtils::EscapeHTMLSpecialChars(ss, in.p, SizeT(in.n));
    if (prefill) {
        if (ss.Length() < 2 || ss.First()[0] != Char_T('<') || ss.First()[1] != Char_T('&')) return "prefix-disturbed";
        return vh::show_units(ss.First() + 2, ss.Length() - 2);
    }
    return vh::show_units(ss.First(), ss.Length());
}

int main() {
    std::string line;
    while (vh::read_line(line)) {
        auto t = vh::split(line);
        std::vector<uint64_t> u;
        if (t.size() == 4 && (t[0] == "esc" || t[0] == "escp") && vh::parse_nats(t[3], u)) {
            const bool pre = (t[0] == "escp");
            if ((t[1] == "1") != Config::AutoEscapeHTML) { vh::emit("cfg-mismatch"); continue; }
            if (t[2] == "1") vh::emit(doEsc<char>(u, pre));
            else if (t[2] == "2") vh::emit(doEsc<char16_t>(u, pre));
            else if (t[2] == "4") vh::emit(doEsc<char32_t>(u, pre));
            else if (t[2] == "W") vh::emit(doEsc<wchar_t>(u, pre));
            else vh::emit("bad-op");
        } else if (t.size() == 5 && (t[0] == "tpl" || t[0] == "tplc") && vh::parse_nats(t[4], u)) {
            const bool cp = (t[0] == "tplc");
            if ((t[1] == "1") != Config::AutoEscapeHTML) { vh::emit("cfg-mismatch"); continue; }
            if (t[2] == "1") vh::emit(doTpl<char>(t[3], u, cp));
            else if (t[2] == "2") vh::emit(doTpl<char16_t>(t[3], u, cp));
            else if (t[2] == "4") vh::emit(doTpl<char32_t>(t[3], u, cp));
            else if (t[2] == "W") vh::emit(doTpl<wchar_t>(t[3], u, cp));
            else vh::emit("bad-op");
        } else {
            vh::emit("bad-op");
        }
    }
    return 0;
}
