// AREA: Unicode
// T1 dumper: the character constants JSONUtils::UnEscape switches on (for every character width)
// and the digit-range constants of Digit::HexStringToNumber, as a Lean module.
#include "JSONUtils.hpp"
#include <cstdio>
using namespace Qentem;

template <typename Char_T>
static void dumpWidth(const char *ns) {
    using J = JSONUtils::JSONotation_T<Char_T>;
    printf("namespace %s\n", ns);
    printf("def quote : Nat := %llu\n", (unsigned long long)J::QuoteChar);
    printf("def bslash : Nat := %llu\n", (unsigned long long)J::BSlashChar);
    printf("def slash : Nat := %llu\n", (unsigned long long)J::SlashChar);
    // escape letters b t n f r u U and the control characters they stand for
    printf("def letters : List Nat := [%llu, %llu, %llu, %llu, %llu, %llu, %llu]\n", (unsigned long long)J::B_Char,
           (unsigned long long)J::T_Char, (unsigned long long)J::N_Char, (unsigned long long)J::F_Char,
           (unsigned long long)J::R_Char, (unsigned long long)J::U_Char, (unsigned long long)J::CU_Char);
    printf("def controls : List Nat := [%llu, %llu, %llu, %llu, %llu]\n", (unsigned long long)J::BackSpaceControlChar,
           (unsigned long long)J::TabControlChar, (unsigned long long)J::LineControlChar,
           (unsigned long long)J::FormfeedControlChar, (unsigned long long)J::CarriageControlChar);
    printf("end %s\n", ns);
}

int main() {
    printf("namespace Qentem.Generated.Unicode\n");
    dumpWidth<char>("W1");
    dumpWidth<char16_t>("W2");
    dumpWidth<char32_t>("W4");
    dumpWidth<wchar_t>("WW");
    // '0' '9' 'A' 'F' 'a' 'f' and the two subtrahends '7' 'W'
    printf("def hexRanges : List Nat := [%d, %d, %d, %d, %d, %d, %d, %d]\n", int(DigitUtils::DigitChar::Zero),
           int(DigitUtils::DigitChar::Nine), int(DigitUtils::DigitChar::UA), int(DigitUtils::DigitChar::UF),
           int(DigitUtils::DigitChar::A), int(DigitUtils::DigitChar::F), int(DigitUtils::DigitChar::Seven),
           int(DigitUtils::DigitChar::UW));
    printf("def sizeofSizeT32 : Nat := %u\n", unsigned(sizeof(SizeT32)));
    printf("def sizeofWchar : Nat := %u\n", unsigned(sizeof(wchar_t)));
    printf("end Qentem.Generated.Unicode\n");
    return 0;
}
