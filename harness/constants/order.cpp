// AREA: Order
// T1 dumper: numeric values of `enum ValueType` (Value.hpp) in the order the model's `rank` lists
// the kinds, as a Lean module.  A reordered or renumbered enum changes this file and breaks
// `Qentem.Props.C15.value_type_ranks`.
#include "Value.hpp"
#include <cstdio>
using namespace Qentem;

int main() {
    printf("namespace Qentem.Generated.Order\n");
    printf("def valueTypeRanks : List Nat := [%u, %u, %u, %u, %u, %u, %u, %u, %u, %u, %u]\n",
           unsigned(ValueType::Undefined), unsigned(ValueType::ValuePtr), unsigned(ValueType::Object),
           unsigned(ValueType::Array), unsigned(ValueType::String), unsigned(ValueType::UIntLong),
           unsigned(ValueType::IntLong), unsigned(ValueType::Double), unsigned(ValueType::True),
           unsigned(ValueType::False), unsigned(ValueType::Null));
    printf("def sizeTBits : Nat := %u\n", unsigned(sizeof(SizeT) * 8));
    printf("end Qentem.Generated.Order\n");
    return 0;
}
