// AREA: StrToNum
// T1 dumper: DigitConst<8> tables (powers of five, reciprocals, shifts), RealNumberInfo<double>,
// DigitChar code units, QNumberType enum order, widths of SizeT / SystemIntType, and the
// BigInt<SizeT64,256> geometry used by powerOfPositiveTen / powerOfNegativeTen, as a Lean module.
#include "Digit.hpp"
#include <cstdio>
using namespace Qentem;

int main() {
    using DC   = DigitUtils::DigitConst<8U>;
    using Info = DigitUtils::RealNumberInfo<double, 8U>;
    using Ch   = DigitUtils::DigitChar;
    using BI   = BigInt<SizeT64, 256U>;
    printf("namespace Qentem.Generated.StrToNum\n");
    printf("def maxShift : Nat := %u\n", DC::MaxShift);
    printf("def maxPowerOfFive : Nat := %u\n", DC::MaxPowerOfFive);
    printf("def maxPowerOfTen : Nat := %u\n", DC::MaxPowerOfTen);
    printf("def maxPowerOfTenValue : Nat := %llu\n", (unsigned long long)DC::MaxPowerOfTenValue);
    printf("def powerOfFive : List Nat := [");
    for (SizeT32 i = 0; i <= DC::MaxPowerOfFive; i++) printf("%s%llu", i ? ", " : "", (unsigned long long)DC::GetPowerOfFive(i));
    printf("]\n");
    printf("def powerOfOneOverFive : List Nat := [");
    for (SizeT32 i = 0; i <= DC::MaxPowerOfFive; i++) printf("%s%llu", i ? ", " : "", (unsigned long long)DC::GetPowerOfOneOverFive(i));
    printf("]\n");
    printf("def powerOfOneOverFiveShift : List Nat := [");
    for (SizeT32 i = 0; i <= DC::MaxPowerOfFive; i++) printf("%s%u", i ? ", " : "", DC::GetPowerOfOneOverFiveShift(i));
    printf("]\n");
    printf("def bias : Nat := %u\n", Info::Bias);
    printf("def exponentSize : Nat := %u\n", Info::ExponentSize);
    printf("def mantissaSize : Nat := %u\n", Info::MantissaSize);
    printf("def signMask : Nat := %llu\n", (unsigned long long)Info::SignMask);
    printf("def exponentMask : Nat := %llu\n", (unsigned long long)Info::ExponentMask);
    printf("def mantissaMask : Nat := %llu\n", (unsigned long long)Info::MantissaMask);
    printf("def leadingBit : Nat := %llu\n", (unsigned long long)Info::LeadingBit);
    // zero nine one five seven e E dot plus minus A F a f W x X
    printf("def digitChars : List Nat := [%d, %d, %d, %d, %d, %d, %d, %d, %d, %d, %d, %d, %d, %d, %d, %d, %d]\n", (int)Ch::Zero,
           (int)Ch::Nine, (int)Ch::One, (int)Ch::Five, (int)Ch::Seven, (int)Ch::E, (int)Ch::UE, (int)Ch::Dot, (int)Ch::Positive,
           (int)Ch::Negative, (int)Ch::UA, (int)Ch::UF, (int)Ch::A, (int)Ch::F, (int)Ch::UW, (int)Ch::X, (int)Ch::UX);
    // NotANumber Real Natural Integer
    printf("def kindCodes : List Nat := [%d, %d, %d, %d]\n", (int)QNumberType::NotANumber, (int)QNumberType::Real,
           (int)QNumberType::Natural, (int)QNumberType::Integer);
    printf("def sizeTBits : Nat := %u\n", (unsigned)(sizeof(SizeT) * 8U));
    printf("def systemIntBits : Nat := %u\n", (unsigned)(sizeof(SystemIntType) * 8U));
    printf("def bigIntTypeWidth : Nat := %u\n", BI::TypeWidth());
    printf("def bigIntTotalBits : Nat := %u\n", BI::TotalBits());
    printf("def bigIntMaxIndex : Nat := %u\n", BI::MaxIndex());
    printf("def qnumber64Bytes : Nat := %u\n", (unsigned)sizeof(QNumber64));
    printf("end Qentem.Generated.StrToNum\n");
    return 0;
}
