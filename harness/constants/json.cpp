// AREA: Json
// T1 dumper: JSON notation characters, keyword literals (with their terminators), the escape
// replacement table and the whitespace set, for every character width.
#include <new>
#include "JSONUtils.hpp"
#include "StringUtils.hpp"
#include <cstdio>
using namespace Qentem;

template <typename Char_T>
static void dumpLit(const char *name, const Char_T *s, SizeT len) {
    printf("def %s : List Nat := [", name);
    for (SizeT i = 0; i <= len; i++) printf("%s%llu", i ? ", " : "", (unsigned long long)(s[i])); // includes the terminator
    printf("]\n");
}

template <typename Char_T>
static void dumpWidth(const char *ns) {
    using N = JSONUtils::JSONotation_T<Char_T>;
    using W = StringUtils::WhiteSpaceChars_T<Char_T>;
    printf("namespace %s\n", ns);
    printf("def structural : List Nat := [%llu, %llu, %llu, %llu, %llu, %llu, %llu, %llu, %llu]\n",
           (unsigned long long)N::QuoteChar, (unsigned long long)N::CommaChar, (unsigned long long)N::ColonChar,
           (unsigned long long)N::SCurlyChar, (unsigned long long)N::ECurlyChar, (unsigned long long)N::SSquareChar,
           (unsigned long long)N::ESquareChar, (unsigned long long)N::SlashChar, (unsigned long long)N::BSlashChar);
    printf("def controls : List Nat := [%llu, %llu, %llu, %llu, %llu]\n", (unsigned long long)N::BackSpaceControlChar,
           (unsigned long long)N::TabControlChar, (unsigned long long)N::LineControlChar,
           (unsigned long long)N::FormfeedControlChar, (unsigned long long)N::CarriageControlChar);
    printf("def escapeLetters : List Nat := [%llu, %llu, %llu, %llu, %llu, %llu, %llu]\n", (unsigned long long)N::B_Char,
           (unsigned long long)N::T_Char, (unsigned long long)N::N_Char, (unsigned long long)N::F_Char,
           (unsigned long long)N::R_Char, (unsigned long long)N::U_Char, (unsigned long long)N::CU_Char);
    printf("def replacement : List Nat := [");
    for (SizeT32 i = 0; i < 14; i++) printf("%s%llu", i ? ", " : "", (unsigned long long)N::GetReplacementChar(i));
    printf("]\n");
    dumpLit("trueString", N::TrueString, N::TrueStringLength);
    dumpLit("falseString", N::FalseString, N::FalseStringLength);
    dumpLit("nullString", N::NullString, N::NullStringLength);
    printf("def whitespace : List Nat := [%llu, %llu, %llu, %llu]\n", (unsigned long long)W::SpaceChar,
           (unsigned long long)W::LineControlChar, (unsigned long long)W::TabControlChar,
           (unsigned long long)W::CarriageControlChar);
    printf("end %s\n", ns);
}

int main() {
    printf("namespace Qentem.Generated.Json\n");
    dumpWidth<char>("W1");
    dumpWidth<char16_t>("W2");
    dumpWidth<char32_t>("W4");
    dumpWidth<wchar_t>("WW");
    printf("end Qentem.Generated.Json\n");
    return 0;
}
