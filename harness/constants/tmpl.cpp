// AREA: Tmpl
// T1 dumper for C01/C02/C17: Tags::List word table (words, lengths, groups, first chars), every
// TagPatterns_T constant the parser/renderer uses, TagType values, field widths of the tag records.
#include <cstdio>
#include <new>
#include "Template.hpp"
#include "Value.hpp"
using namespace Qentem;

template <typename Char_T>
static void str(const char *name, const Char_T *s, unsigned n) {
    printf("def %s : List Nat := [", name);
    for (unsigned i = 0; i < n; i++) printf("%s%llu", i ? ", " : "", (unsigned long long)s[i]);
    printf("]\n");
}

template <typename Char_T>
static void dumpWidth(const char *ns) {
    using L = Tags::List<Char_T>;
    using P = Tags::TagPatterns_T<Char_T>;
    printf("namespace %s\n", ns);
    // words: index 0 is the single-char slot; word i has GetWordLength(i)+1 units (the last one is
    // compared separately by the Finder)
    printf("def words : List (List Nat) := [[]");
    for (unsigned w = 1; w <= 10; w++) {
        printf(", [");
        const unsigned n = L::GetWordLength(w) + 1;
        for (unsigned i = 0; i < n; i++) printf("%s%llu", i ? ", " : "", (unsigned long long)L::GetWord(w)[i]);
        printf("]");
    }
    printf("]\n");
    printf("def wordLengths : List Nat := [");
    for (unsigned w = 0; w <= 10; w++) printf("%s%u", w ? ", " : "", (unsigned)L::GetWordLength(w));
    printf("]\n");
    printf("def firstCharsCount : Nat := %u\n", (unsigned)L::FirstCharsCount);
    printf("def firstChars : List Nat := [%llu, %llu]\n", (unsigned long long)L::GetFirstChar(0),
           (unsigned long long)L::GetFirstChar(1));
    printf("def groups : List (List Nat) := [");
    for (unsigned g = 0; g < L::FirstCharsCount; g++) {
        printf("%s[", g ? ", " : "");
        for (unsigned i = 0; i < L::GetGroupedByFirstCount(g); i++)
            printf("%s%u", i ? ", " : "", (unsigned)L::GetGroupedByFirstChar(g)[i]);
        printf("]");
    }
    printf("]\n");
    printf("def singleChar : Nat := %llu\n", (unsigned long long)L::SingleChar);
#define C(n) printf("def %c%s : Nat := %llu\n", (#n)[0] | 0x20, &(#n)[1], (unsigned long long)(P::n))
    C(LineEndID); C(VariableID); C(RawVariableID); C(MathID); C(SuperVariableID); C(InLineIfID); C(LoopID);
    C(LoopEndID); C(IfID); C(IfEndID); C(ElseID);
    C(InLinePrefixLength); C(InLineSuffixLength); C(MultiLinePrefixLength); C(MultiLineSuffixLength);
    C(InLineFirstChar); C(InLineLastChar); C(MultiLineFirstChar); C(MultiLineLastChar);
    C(VariableIndexPrefix); C(VariableIndexSuffix);
    C(VariablePrefixLength); C(VariableFullLength); C(RawVariablePrefixLength); C(RawVariableFullLength);
    C(MathPrefixLength); C(SuperVariablePrefixLength); C(InLineIfPrefixLength); C(LoopPrefixLength);
    C(LoopSuffixLength); C(IfPrefixLength); C(IfAfterElseLength); C(IfSuffixLength); C(ElseIfChar);
    C(ElsePrefixLength); C(EqualChar); C(SpaceChar); C(VariablesSeparatorChar); C(CaseChar); C(TrueChar);
    C(FalseChar); C(CaseLength); C(TrueLength); C(FalseLength); C(SetSortChar); C(ValueChar); C(GroupChar);
    C(SetLength); C(ValueLength); C(GroupLength); C(SortLength);
#undef C
    str("caseStr", P::Case, P::CaseLength);
    str("trueStr", P::True, P::TrueLength);
    str("falseStr", P::False, P::FalseLength);
    str("setStr", P::Set, P::SetLength);
    str("valueStr", P::Value, P::ValueLength);
    str("groupStr", P::Group, P::GroupLength);
    str("sortStr", P::Sort, P::SortLength);
    printf("def ifPrefixFirst : Nat := %llu\n", (unsigned long long)P::IfPrefix[0]);
    printf("def sortAscendChar : Nat := %u\n", (unsigned)'a');
    printf("def digitZero : Nat := %llu\n", (unsigned long long)DigitUtils::DigitChar::Zero);
    printf("end %s\n", ns);
}

int main() {
    printf("namespace Qentem.Generated.Tmpl\n");
#define T(n) printf("def tagType%s : Nat := %u\n", #n, (unsigned)Tags::TagType::n)
    T(None); T(Variable); T(RawVariable); T(Math); T(SuperVariable); T(InLineIf); T(Loop); T(If);
#undef T
    printf("def sortAscend : Nat := %u\n", (unsigned)Tags::LoopTagOptions::SortAscend);
    printf("def sortDescend : Nat := %u\n", (unsigned)Tags::LoopTagOptions::SortDescend);
    printf("def sizeTBits : Nat := %u\n", (unsigned)(8 * sizeof(SizeT)));
#define W(S, F) printf("def bits_%s_%s : Nat := %u\n", #S, #F, (unsigned)(8 * sizeof(Tags::S::F)))
    W(VariableTag, Offset); W(VariableTag, Length); W(VariableTag, IDLength); W(VariableTag, Level);
    W(InLineIfTag, Length); W(InLineIfTag, TrueOffset); W(InLineIfTag, TrueLength); W(InLineIfTag, FalseOffset);
    W(InLineIfTag, FalseLength); W(InLineIfTag, TrueTagsStartID); W(InLineIfTag, FalseTagsStartID);
    W(LoopTag, ContentOffset); W(LoopTag, ValueOffset); W(LoopTag, ValueLength); W(LoopTag, GroupOffset);
    W(LoopTag, GroupLength); W(LoopTag, Options); W(LoopTag, Level);
#undef W
    printf("def autoEscapeHTML : Bool := %s\n", Config::AutoEscapeHTML ? "true" : "false");
    printf("def templatePrecision : Nat := %u\n", (unsigned)Config::TemplatePrecision);
    dumpWidth<char>("W1");
    dumpWidth<char16_t>("W2");
    dumpWidth<char32_t>("W4");
    dumpWidth<wchar_t>("WW");
    printf("end Qentem.Generated.Tmpl\n");
    return 0;
}
