// AREA: NumToStr
// T1 dumper for the number formatter (C10/C11): DigitTable1/2, the powers-of-five / shift tables
// of DigitConst<8> (the configuration this build uses: SystemIntType is 64-bit) and
// DigitConst<4> (the 32-bit configuration), RealNumberInfo for float and double, the BigInt
// widths realToString declares, DigitChar, DigitString (inf/nan/zeros) for each character
// width and the RealFormatType order - printed as the Lean module Qentem.Generated.NumToStr.
#include "Digit.hpp"
#include "StringStream.hpp"
#include <cstdio>
using namespace Qentem;

#define VERIF_BIGINT_FACTOR 5U

static void natList(const char *name, const unsigned long long *v, unsigned n) {
    printf("def %s : List Nat := [", name);
    for (unsigned i = 0; i < n; i++) printf("%s%llu", i ? ", " : "", v[i]);
    printf("]\n");
}

template <typename Char_T>
static void strList(const char *name, const Char_T *s, unsigned n) {
    printf("def %s : List Nat := [", name);
    for (unsigned i = 0; i < n; i++) printf("%s%llu", i ? ", " : "", (unsigned long long)(s[i]));
    printf("]\n");
}

template <unsigned Size>
static void dumpConst(const char *ns) {
    using C = DigitUtils::DigitConst<Size>;
    printf("namespace %s\n", ns);
    printf("def maxShift : Nat := %u\n", unsigned(C::MaxShift));
    printf("def maxPowerOfFive : Nat := %u\n", unsigned(C::MaxPowerOfFive));
    printf("def maxPowerOfTen : Nat := %u\n", unsigned(C::MaxPowerOfTen));
    printf("def maxPowerOfTenValue : Nat := %llu\n", (unsigned long long)(C::MaxPowerOfTenValue));
    unsigned long long v[64];
    for (unsigned i = 0; i <= C::MaxPowerOfFive; i++) v[i] = C::GetPowerOfFive(i);
    natList("powerOfFive", v, C::MaxPowerOfFive + 1U);
    for (unsigned i = 0; i <= C::MaxPowerOfFive; i++) v[i] = C::GetPowerOfOneOverFive(i);
    natList("powerOfOneOverFive", v, C::MaxPowerOfFive + 1U);
    for (unsigned i = 0; i <= C::MaxPowerOfFive; i++) v[i] = C::GetPowerOfOneOverFiveShift(i);
    natList("powerOfOneOverFiveShift", v, C::MaxPowerOfFive + 1U);
    printf("end %s\n", ns);
}

template <typename Float_T, typename Number_T>
static void dumpInfo(const char *ns) {
    using I = DigitUtils::RealNumberInfo<Float_T, sizeof(Number_T)>;
    // The BigInt type is a function-local alias of realToString (the compiler cannot reflect it):
    // the width expression is repeated here and checks/c10.py compares its factor with the source text.
    using B = BigInt<SystemIntType, ((I::Bias + 1U) + (sizeof(Number_T) * 8U * VERIF_BIGINT_FACTOR))>;
    printf("namespace %s\n", ns);
    printf("def size : Nat := %u\n", unsigned(sizeof(Number_T)));
    printf("def bias : Nat := %u\n", unsigned(I::Bias));
    printf("def exponentSize : Nat := %u\n", unsigned(I::ExponentSize));
    printf("def mantissaSize : Nat := %u\n", unsigned(I::MantissaSize));
    printf("def signMask : Nat := %llu\n", (unsigned long long)(I::SignMask));
    printf("def exponentMask : Nat := %llu\n", (unsigned long long)(I::ExponentMask));
    printf("def mantissaMask : Nat := %llu\n", (unsigned long long)(I::MantissaMask));
    printf("def leadingBit : Nat := %llu\n", (unsigned long long)(I::LeadingBit));
    printf("def maxCut : Nat := %u\n", unsigned(I::MaxCut));
    printf("def bigIntTotalBits : Nat := %u\n", unsigned(B::TotalBits()));
    printf("def bigIntMaxIndex : Nat := %u\n", unsigned(B::MaxIndex()));
    printf("def bigIntTypeWidth : Nat := %u\n", unsigned(B::TypeWidth()));
    printf("def bigIntSizeOfType : Nat := %u\n", unsigned(B::SizeOfType()));
    printf("def bigIntWidthFactor : Nat := %u\n", unsigned(VERIF_BIGINT_FACTOR));
    printf("end %s\n", ns);
}

template <typename Char_T>
static void dumpStrings(const char *ns) {
    using S = DigitUtils::DigitString<Char_T, sizeof(Char_T)>;
    printf("namespace %s\n", ns);
    strList("infinity", S::Infinity, unsigned(S::InfinityLength));
    strList("notANumber", S::NotANumber, unsigned(S::NotANumberLength));
    strList("zeros", S::Zeros, unsigned(S::ZerosLength));
    printf("def zerosLength : Nat := %u\n", unsigned(S::ZerosLength));
    // the unit after the declared length must be the literal's terminator
    printf("def terminators : List Nat := [%llu, %llu, %llu]\n", (unsigned long long)S::Infinity[S::InfinityLength],
           (unsigned long long)S::NotANumber[S::NotANumberLength], (unsigned long long)S::Zeros[S::ZerosLength]);
    printf("end %s\n", ns);
}

int main() {
    printf("namespace Qentem.Generated.NumToStr\n");
    strList("digitTable1", DigitUtils::DigitTable1, unsigned(sizeof(DigitUtils::DigitTable1) - 1U));
    strList("digitTable2", DigitUtils::DigitTable2, unsigned(sizeof(DigitUtils::DigitTable2) - 1U));
    printf("def digitTable1Size : Nat := %u\n", unsigned(sizeof(DigitUtils::DigitTable1)));
    printf("def digitTable2Size : Nat := %u\n", unsigned(sizeof(DigitUtils::DigitTable2)));
    dumpConst<8U>("C8");
    dumpConst<4U>("C4");
    dumpInfo<double, SizeT64>("F64");
    dumpInfo<float, SizeT32>("F32");
    dumpStrings<char>("S1");
    dumpStrings<char16_t>("S2");
    dumpStrings<char32_t>("S4");
    using DC = DigitUtils::DigitChar;
    printf("namespace Ch\n");
    printf("def zero : Nat := %d\ndef one : Nat := %d\ndef five : Nat := %d\ndef nine : Nat := %d\n", DC::Zero, DC::One, DC::Five, DC::Nine);
    printf("def e : Nat := %d\ndef dot : Nat := %d\ndef positive : Nat := %d\ndef negative : Nat := %d\n", DC::E, DC::Dot, DC::Positive, DC::Negative);
    printf("end Ch\n");
    printf("def fmtDefault : Nat := %u\ndef fmtFixed : Nat := %u\ndef fmtSemiFixed : Nat := %u\n",
           unsigned(Digit::RealFormatType::Default), unsigned(Digit::RealFormatType::Fixed), unsigned(Digit::RealFormatType::SemiFixed));
    printf("def defaultPrecision : Nat := %u\n", unsigned(Digit::RealFormatInfo{}.Precision));
    printf("def systemIntBytes : Nat := %u\n", unsigned(sizeof(SystemIntType)));
    printf("def sizeTBytes : Nat := %u\n", unsigned(sizeof(SizeT)));
    // max_number_of_digits = ((n_size * 8 * 30103) / 100000) + 1 for the four integer widths
    printf("def maxDigits : List Nat := [%u, %u, %u, %u]\n", ((1U * 8U * 30103U) / 100000U) + 1U, ((2U * 8U * 30103U) / 100000U) + 1U,
           ((4U * 8U * 30103U) / 100000U) + 1U, ((8U * 8U * 30103U) / 100000U) + 1U);
    printf("end Qentem.Generated.NumToStr\n");
    return 0;
}
