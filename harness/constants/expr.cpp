// AREA: Expr
// T1 dumper for C04: numeric values (= ranks) of QExpression::QOperation, ExpressionType,
// QNumberType, the operator symbols for every character width and the tag-pattern constants the
// expression scanner uses.  Prints the Lean module Qentem.Generated.Expr.
#include <cstdio>
#include <new>
#include "Template.hpp"
#include "Value.hpp"
using namespace Qentem;
using QOp = QExpression::QOperation;
using ET  = QExpression::ExpressionType;

template <typename Char_T>
static void dumpWidth(const char *ns) {
    using S = QOperationSymbol_T<Char_T>;
    using P = Tags::TagPatterns_T<Char_T>;
    printf("namespace %s\n", ns);
#define SYM(n, v) printf("def %s : Nat := %llu\n", n, (unsigned long long)(v))
    SYM("symRemainder", S::RemainderExp);
    SYM("symMultiple", S::MultipleExp);
    SYM("symDivide", S::DivideExp);
    SYM("symAdd", S::AddExp);
    SYM("symSubtract", S::SubtractExp);
    SYM("symEqual", S::EqualExp);
    SYM("symNot", S::NotExp);
    SYM("symLess", S::LessExp);
    SYM("symGreater", S::GreaterExp);
    SYM("symAnd", S::AndExp);
    SYM("symOr", S::OrExp);
    SYM("symParenStart", S::ParenthesesStart);
    SYM("symParenEnd", S::ParenthesesEnd);
    SYM("symBracketStart", S::BracketStart);
    SYM("symBracketEnd", S::BracketEnd);
    SYM("symExponent", S::ExponentExp);
    SYM("symSpace", S::SpaceChar);
    SYM("digitZero", DigitUtils::DigitChar::Zero);
    SYM("digitNine", DigitUtils::DigitChar::Nine);
    SYM("inLineLastChar", P::InLineLastChar);
    SYM("inLineSuffixLength", P::InLineSuffixLength);
    SYM("variablePrefixLength", P::VariablePrefixLength);
    SYM("variableFullLength", P::VariableFullLength);
    printf("def variablePrefix : List Nat := [%llu, %llu, %llu, %llu, %llu]\n", (unsigned long long)P::InLineFirstChar,
           (unsigned long long)P::VariablePrefix[0], (unsigned long long)P::VariablePrefix[1],
           (unsigned long long)P::VariablePrefix[2], (unsigned long long)P::VariablePrefix[3]);
#undef SYM
    printf("end %s\n", ns);
}

int main() {
    printf("namespace Qentem.Generated.Expr\n");
#define Q(n) printf("def qop%s : Nat := %u\n", #n, (unsigned)QOp::n)
    Q(NoOp); Q(Or); Q(And); Q(Equal); Q(NotEqual); Q(GreaterOrEqual); Q(LessOrEqual); Q(Greater); Q(Less);
    Q(BitwiseOr); Q(BitwiseAnd); Q(Addition); Q(Subtraction); Q(Multiplication); Q(Division); Q(Remainder);
    Q(Exponent); Q(Error);
#undef Q
#define E(n) printf("def et%s : Nat := %u\n", #n, (unsigned)ET::n)
    E(Empty); E(RealNumber); E(NaturalNumber); E(IntegerNumber); E(NotANumber); E(Variable); E(SubOperation);
#undef E
#define N(n) printf("def qnt%s : Nat := %u\n", #n, (unsigned)QNumberType::n)
    N(NotANumber); N(Real); N(Natural); N(Integer);
#undef N
    printf("def sizeofQOperation : Nat := %u\n", (unsigned)sizeof(QOp));
    printf("def variableLengthBits : Nat := %u\n", (unsigned)(8 * sizeof(Tags::VariableTag::Length)));
    printf("def sizeTBits : Nat := %u\n", (unsigned)(8 * sizeof(SizeT)));
    dumpWidth<char>("W1");
    dumpWidth<char16_t>("W2");
    dumpWidth<char32_t>("W4");
    dumpWidth<wchar_t>("WW");
    printf("end Qentem.Generated.Expr\n");
    return 0;
}
