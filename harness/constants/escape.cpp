// AREA: Escape
// T1 dumper: HTML entity tables of StringUtils.hpp for every character width, as a Lean module.
#include "StringUtils.hpp"
#include <cstdio>
using namespace Qentem;

template <typename Char_T>
static void dumpStr(const char *name, const Char_T *s, SizeT len) {
    printf("def %s : List Nat := [", name);
    for (SizeT i = 0; i < len; i++) printf("%s%llu", i ? ", " : "", (unsigned long long)(s[i]));
    printf("]\n");
}

template <typename Char_T>
static void dumpWidth(const char *ns) {
    using H = StringUtils::HTMLSpecialChars_T<Char_T, sizeof(Char_T)>;
    printf("namespace %s\n", ns);
    dumpStr("htmlAnd", H::HTMLAnd, H::HTMLAndLength);
    dumpStr("htmlLess", H::HTMLLess, H::HTMLLessLength);
    dumpStr("htmlGreater", H::HTMLGreater, H::HTMLGreaterLength);
    dumpStr("htmlQuote", H::HTMLQuote, H::HTMLQuoteLength);
    dumpStr("htmlSingleQuote", H::HTMLSingleQuote, H::HTMLSingleQuoteLength);
    // one unit past the declared length must be the literal's terminator
    printf("def terminators : List Nat := [%llu, %llu, %llu, %llu, %llu]\n",
           (unsigned long long)H::HTMLAnd[H::HTMLAndLength], (unsigned long long)H::HTMLLess[H::HTMLLessLength],
           (unsigned long long)H::HTMLGreater[H::HTMLGreaterLength], (unsigned long long)H::HTMLQuote[H::HTMLQuoteLength],
           (unsigned long long)H::HTMLSingleQuote[H::HTMLSingleQuoteLength]);
    printf("def semicolon : Nat := %llu\n", (unsigned long long)H::SemicolonChar);
    printf("end %s\n", ns);
}

int main() {
    printf("namespace Qentem.Generated.Escape\n");
    dumpWidth<char>("W1");
    dumpWidth<char16_t>("W2");
    dumpWidth<char32_t>("W4");
    dumpWidth<wchar_t>("WW");
    printf("def autoEscapeDefault : Bool := %s\n", Config::AutoEscapeHTML ? "true" : "false");
    printf("end Qentem.Generated.Escape\n");
    return 0;
}
