// Correspondence harness for C14: Memory::Copy / Memory::SetToZero (Include/Memory.hpp:31-92).
// Built three times: scalar (no flag), -DQENTEM_SSE2=1 -msse2, -DQENTEM_AVX2=1 -mavx2.
//
//   seqmem copy <simd> <shift> <size> <seed>
//   seqmem zero <simd> <shift> <size> <seed>
//   seqmem copyL|zeroL <simd> <shift> <size> <seed>   large blocks: 5x5 misalignments (0,1,8,16,31) instead of 32x32
//   seqmem cfg  0 0 0 0                      -> "simd=<0|1> shift=<n> block=<bytes>"
//
// For one length the routine is run at every source misalignment 0..31 x destination misalignment
// 0..31 (relative to a 64-byte boundary).  Each run is done twice: into an exact-size block (the
// sanitizer redzone borders [dst, dst+size) and [src, src+size)), and into a block with 8 sentinel
// bytes after it.  Every result is compared with a plain byte loop and with memcpy/memset.
// Output: "<fnv(first size bytes)> <fnv(8 sentinel bytes)>" — the same digest the Lean model prints —
// or "MISMATCH …".
#include <new>
#include "common.hpp"
#include "Memory.hpp"
using namespace Qentem;

static uint32_t fnv(const unsigned char *p, size_t n) {
    uint32_t h = 2166136261u;
    for (size_t i = 0; i < n; i++) h = (h ^ p[i]) * 16777619u;
    return h;
}

static unsigned char *aligned(size_t n) {
    void *p = nullptr;
    if (posix_memalign(&p, 64, n ? n : 1) != 0) abort();
    return static_cast<unsigned char *>(p);
}

// `sparse`: large blocks — a handful of misalignments (0, 1, 8, 16, 31 relative to a 64-byte boundary) instead of all 32x32.
static const unsigned SPARSE[5] = {0, 1, 8, 16, 31};

static std::string run(bool copy, size_t size, uint64_t seed, bool sparse = false) {
    std::vector<unsigned char> pat(size), ref(size), zero(size, 0);
    for (size_t i = 0; i < size; i++) pat[i] = static_cast<unsigned char>((i * 131 + seed * 7 + i / 256 + 1) % 256);
    // independent reference: a plain byte loop
    for (size_t i = 0; i < size; i++) ref[i] = copy ? pat[i] : 0;
    std::string first;
    char        buf[96];
    for (unsigned sai = 0; sai < (copy ? (sparse ? 5u : 32u) : 1u); sai++) {
        const unsigned sa = sparse ? SPARSE[sai] : sai;
        unsigned char *ps = aligned(sa + size);
        if (size) memcpy(ps + sa, pat.data(), size);
        for (unsigned dai = 0; dai < (sparse ? 5u : 32u); dai++) {
            const unsigned da = sparse ? SPARSE[dai] : dai;
            // pass A: exact-size destination
            unsigned char *pd = aligned(da + size);
            memset(pd, 0xAA, da + size);
            if (copy) Memory::Copy(pd + da, ps + sa, SizeT(size)); else Memory::SetToZero(pd + da, SizeT(size));
            bool ok = (size == 0) || (memcmp(pd + da, ref.data(), size) == 0);
            for (unsigned i = 0; i < da; i++) ok = ok && (pd[i] == 0xAA);
            free(pd);
            // pass B: sentinel after the destination
            unsigned char *pe = aligned(da + size + 8);
            memset(pe, 0xAA, da + size + 8);
            if (copy) Memory::Copy(pe + da, ps + sa, SizeT(size)); else Memory::SetToZero(pe + da, SizeT(size));
            ok = ok && ((size == 0) || (memcmp(pe + da, ref.data(), size) == 0));
            for (unsigned i = 0; i < da; i++) ok = ok && (pe[i] == 0xAA);
            for (unsigned i = 0; i < 8; i++) ok = ok && (pe[da + size + i] == 0xAA);
            if (copy && size) ok = ok && (memcmp(ps + sa, pat.data(), size) == 0);   // source untouched
            snprintf(buf, sizeof buf, "%u %u", fnv(pe + da, size), fnv(pe + da + size, 8));
            free(pe);
            if (!ok) {
                snprintf(buf, sizeof buf, "MISMATCH size=%zu src_align=%u dst_align=%u", size, sa, da);
                free(ps);
                return buf;
            }
            if (first.empty()) first = buf;
            else if (first != buf) { free(ps); return "MISMATCH digest varies with alignment"; }
        }
        free(ps);
    }
    return first;
}

int main() {
    std::string line;
    while (vh::read_line(line)) {
        auto t = vh::split(line);
        if (t.size() != 6 || t[0] != "seqmem") { vh::emit("bad-op"); continue; }
        const bool     simd  = Config::IsSIMDEnabled;
        const unsigned shift = Platform::SIMD::Shift;
        if (t[1] == "cfg") {
            char buf[64];
            snprintf(buf, sizeof buf, "simd=%d shift=%u block=%u", simd ? 1 : 0, shift, unsigned(Platform::SIMD::Size));
            vh::emit(buf);
            continue;
        }
        if ((t[2] == "1") != simd || (simd && strtoul(t[3].c_str(), nullptr, 10) != shift)) { vh::emit("cfg-mismatch"); continue; }
        const size_t   size = strtoull(t[4].c_str(), nullptr, 10);
        const uint64_t seed = strtoull(t[5].c_str(), nullptr, 10);
        if (t[1] == "copy") vh::emit(run(true, size, seed));
        else if (t[1] == "zero") vh::emit(run(false, size, seed));
        else if (t[1] == "copyL") vh::emit(run(true, size, seed, true));
        else if (t[1] == "zeroL") vh::emit(run(false, size, seed, true));
        else vh::emit("bad-op");
    }
    return 0;
}
