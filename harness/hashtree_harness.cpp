// C13 (nested values) / C16: HArray whose value type itself holds an HArray - a tree
//     struct Node { unsigned tag; HArray<String<char>, Node> kids; };
// (the shape of the library's own Value objects).  Source and destination of an assignment or a
// merge may be related: `root.kids = root.kids["a"].kids`, `child.kids = root.kids`, ...
//   httree <op;op;...>     path = keys joined by '.', "~" = the root; key = units joined by ',' ("-" = empty key)
//     g/<path>/<key>   get-or-create child      node(path).kids[key]
//     t/<path>/<n>     node(path).tag = n
//     r/<path>/<key>   node(path).kids.Remove(key)
//     x/<path>         node(path).kids.Reset()        k/<path>  kids.Clear()       z/<path>  kids.Compress()
//     c/<dst>/<src>    node(dst).kids = node(src).kids               copy assignment of the table
//     m/<dst>/<src>    node(dst).kids = Move(node(src).kids)         move assignment of the table
//     a/<dst>/<src>    node(dst) = node(src)                         whole node (tag, then kids)
//     p/<dst>/<src>    node(dst).kids += node(src).kids              copy merge
//     q/<dst>/<src>    node(dst).kids += Move(node(src).kids)        move merge
//     i/<dst>/<key>/<src>  node(dst).kids.Insert(key, node(src))      const-value Insert; node(src) may be an element
//                          of the very table it is inserted into (value semantics: the argument is read first)
//     y/<path>         { Kids t(node.kids); node.kids = t; }         copy-construct, assign back
//     Y/<path>         { Kids t(node.kids); node.kids = Move(t); }
//   Output: dump of the whole tree after every op, '|'-joined.  dump(node) = <tag>[key=dump;key=dump...]
//   (iteration by index with GetKey/GetValue, removed slots skipped: insertion order).
//   After every op every stored path is also looked up by key and compared with the iteration
//   (found-iff-stored, key -> index -> key) - "LOOKUP-MISMATCH" replaces the dump otherwise.
#include <new>
#include "ledger.hpp"
#include "common.hpp"
#include "HArray.hpp"
#include "String.hpp"
using namespace Qentem;

struct Node;
using Key  = String<char>;
using Kids = HArray<Key, Node>;

struct Node {
    unsigned tag{0};
    Kids     kids{};

    Node()                 = default;
    Node(const Node &)     = default;
    Node(Node &&) noexcept = default;
    Node &operator=(Node &&) noexcept = default;
    // The scalar is read before, and written after, the table assignment, so that the only thing that
    // has to cope with `src` living inside `*this` (or `*this` inside `src`) is the library's
    // HashTable::operator=(const HashTable &).
    Node &operator=(const Node &src) {
        const unsigned t = src.tag;
        kids             = src.kids;
        tag              = t;
        return *this;
    }
};

static bool parse_key(const std::string &s, std::string &out) {
    std::vector<uint64_t> u;
    if (!vh::parse_nats(s, u)) return false;
    out.clear();
    for (auto c : u) out.push_back(char(static_cast<unsigned char>(c)));
    return true;
}

static Node *at(Node &root, const std::string &path) {
    Node *n = &root;
    if (path == "~") return n;
    for (auto &t : vh::split(path, '.')) {
        std::string k;
        if (!parse_key(t, k)) return nullptr;
        vh::ExactBuf<char> kb(std::vector<uint64_t>(k.begin(), k.end()));
        for (size_t i = 0; i < k.size(); ++i) kb.p[i] = k[i];
        Node *c = n->kids.GetValue(static_cast<const char *>(kb.p), SizeT(kb.n));
        if (c == nullptr) return nullptr;
        n = c;
    }
    return n;
}

static bool dump(std::string &out, const Node &n) {
    out += std::to_string(n.tag);
    out += '[';
    bool  first = true;
    SizeT cnt   = 0;
    for (SizeT i = 0; i < n.kids.Size(); i++) {
        const Key *k = n.kids.GetKey(i);
        if (k == nullptr) continue;
        const Node *c = n.kids.GetValue(i);
        // the same entry through its key
        SizeT idx = 0;
        if (c == nullptr || !n.kids.GetKeyIndex(idx, k->First(), k->Length()) || idx != i ||
            n.kids.GetValue(k->First(), k->Length()) != c)
            return false;
        if (!first) out += ';';
        first = false;
        ++cnt;
        out += vh::show_units(k->First(), k->Length());
        out += '=';
        if (!dump(out, *c)) return false;
    }
    if (n.kids.ActualSize() != cnt || n.kids.Size() > n.kids.Capacity()) return false;
    out += ']';
    return true;
}

static std::string run(const std::string &prog) {
    std::string out;
    {
        Node root;
        for (auto &op : vh::split(prog, ';')) {
            if (op.empty()) continue;
            auto f = vh::split(op, '/');
            if (f[0].size() != 1) return "bad-op";
            const char k = f[0][0];
            if ((k == 'g' || k == 'r') && f.size() == 3) {
                Node       *p = at(root, f[1]);
                std::string key;
                if (!p) return "bad-path";
                if (!parse_key(f[2], key)) return "bad-op";
                vh::ExactBuf<char> kb(std::vector<uint64_t>(key.begin(), key.end()));
                for (size_t i = 0; i < key.size(); ++i) kb.p[i] = key[i];
                const char *kp = kb.p;
                if (k == 'g') (void)p->kids.Get(kp, SizeT(kb.n));
                else p->kids.Remove(kp, SizeT(kb.n));
            } else if (k == 't' && f.size() == 3) {
                Node *p = at(root, f[1]);
                if (!p) return "bad-path";
                p->tag = unsigned(atoi(f[2].c_str()));
            } else if ((k == 'x' || k == 'k' || k == 'z' || k == 'y' || k == 'Y') && f.size() == 2) {
                Node *p = at(root, f[1]);
                if (!p) return "bad-path";
                if (k == 'x') p->kids.Reset();
                else if (k == 'k') p->kids.Clear();
                else if (k == 'z') p->kids.Compress();
                else if (k == 'y') { Kids t(p->kids); p->kids = t; }
                else { Kids t(p->kids); p->kids = Memory::Move(t); }
            } else if (k == 'i' && f.size() == 4) {
                Node       *d = at(root, f[1]), *sn = at(root, f[3]);
                std::string key;
                if (!d || !sn) return "bad-path";
                if (!parse_key(f[2], key)) return "bad-op";
                static unsigned rot = 0;
                const char     *kp  = key.data(); // const: String(const Char_T *, len) copies, (Char_T *, len) would adopt
                if (rot++ % 2) {
                    Key kk(kp, SizeT(key.size()));
                    d->kids.Insert(kk, *sn); // (const Key_T &, const Value_T &)
                } else {
                    d->kids.Insert(Key(kp, SizeT(key.size())), *sn); // (Key_T &&, const Value_T &)
                }
            } else if ((k == 'c' || k == 'm' || k == 'a' || k == 'p' || k == 'q') && f.size() == 3) {
                Node *d = at(root, f[1]), *s = at(root, f[2]);
                if (!d || !s) return "bad-path";
                if (k == 'c') d->kids = s->kids;
                else if (k == 'm') d->kids = Memory::Move(s->kids);
                else if (k == 'a') *d = *s;
                else if (k == 'p') d->kids += s->kids;
                else d->kids += Memory::Move(s->kids);
            } else {
                return "bad-op";
            }
            if (!out.empty()) out += '|';
            std::string d;
            if (dump(d, root)) out += d;
            else out += "LOOKUP-MISMATCH";
        }
    } // the whole tree is destroyed before the line is emitted (ledger: live=0)
    return out.empty() ? "-" : out;
}

int main() {
    std::string line;
    while (vh::read_line(line)) {
        auto        t = vh::split(line);
        std::string out;
        if (t.size() == 2 && t[0] == "httree") out = run(t[1]);
        else out = "bad-op";
        vh::emit(out);
    }
    return 0;
}
