// Correspondence harness for C20: Unicode::ToUTF, Digit::HexStringToNumber, JSONUtils::UnEscape
// on exact-size heap buffers (ASan redzones border [content, content+length)).
//   uni_enc <w> <lo> <hi>            units of ToUTF<Char_T>(u) for u in [lo,hi), groups joined by ';'
//   uni_esc <w> <mode> <lo> <hi>     for cp in [lo,hi): "ret:units" of UnEscape on the string of <mode>
//   uni_un  <w> <prefill> <units>    "ret|stream" of UnEscape(units, |units|, stream holding prefill)
//   uni_hex <w> <units>              HexStringToNumber<SizeT32>(units, |units|)
// The escape strings of uni_esc are built here from RFC 8259 section 7, independently of the Lean side.
#include "common.hpp"
#include "StringStream.hpp"
#include "Digit.hpp"
#include "Unicode.hpp"
#include "JSONUtils.hpp"
using namespace Qentem;

static uint64_t hexChar(bool upper, unsigned d) {
    if (d < 10) return '0' + d;
    return (upper ? 'A' : 'a') + (d - 10);
}

static void uEscape(std::vector<uint64_t> &out, bool bigU, bool upper, unsigned v) {
    out.push_back('\\');
    out.push_back(bigU ? 'U' : 'u');
    for (int sh = 12; sh >= 0; sh -= 4) out.push_back(hexChar(upper, (v >> sh) & 0xFU));
}

static void jsonEscape(std::vector<uint64_t> &out, bool bigU, bool upper, unsigned cp) {
    if (cp < 0x10000U) {
        uEscape(out, bigU, upper, cp);
    } else {
        const unsigned v = cp - 0x10000U;
        uEscape(out, bigU, upper, 0xD800U + (v >> 10));
        uEscape(out, bigU, upper, 0xDC00U + (v & 0x3FFU));
    }
}

static bool modeInput(const std::string &mode, unsigned cp, std::vector<uint64_t> &in) {
    in.clear();
    if (mode == "l") {
        jsonEscape(in, false, false, cp);
        in.push_back('"');
    } else if (mode == "u") {
        jsonEscape(in, false, true, cp);
    } else if (mode == "U") {
        jsonEscape(in, true, true, cp);
        in.push_back('"');
    } else if (mode == "c") {
        for (unsigned i = 0; i < cp % 4; i++) in.push_back('a' + i);
        jsonEscape(in, false, (cp % 2) == 1, cp);
        for (unsigned i = 0; i < (cp / 4) % 3; i++) in.push_back('x' + i);
        in.push_back('"');
    } else {
        return false;
    }
    return true;
}

template <typename Char_T>
static std::string doEnc(uint64_t lo, uint64_t hi) {
    std::string out;
    for (uint64_t u = lo; u < hi; u++) {
        StringStream<Char_T> ss;
        Unicode::ToUTF<Char_T>(SizeT32(u), ss);
        if (u != lo) out += ';';
        out += vh::show_units(ss.First(), ss.Length());
    }
    return out;
}

template <typename Char_T>
static std::string doEsc(const std::string &mode, uint64_t lo, uint64_t hi) {
    std::string           out;
    std::vector<uint64_t> in;
    for (uint64_t cp = lo; cp < hi; cp++) {
        if (!modeInput(mode, unsigned(cp), in)) return "bad-mode";
        vh::ExactBuf<Char_T> buf(in);
        StringStream<Char_T> ss;
        const SizeT          r = JSONUtils::UnEscape(buf.p, SizeT(buf.n), ss);
        if (cp != lo) out += ';';
        out += std::to_string((unsigned long long)r);
        out += ':';
        out += vh::show_units(ss.First(), ss.Length());
    }
    return out;
}

template <typename Char_T>
static std::string doUn(const std::vector<uint64_t> &pre, const std::vector<uint64_t> &u) {
    vh::ExactBuf<Char_T> buf(u);
    StringStream<Char_T> ss;
    for (uint64_t x : pre) ss += Char_T(x);
    const SizeT r = JSONUtils::UnEscape(buf.p, SizeT(buf.n), ss);
    return std::to_string((unsigned long long)r) + "|" + vh::show_units(ss.First(), ss.Length());
}

template <typename Char_T>
static std::string doHex(const std::vector<uint64_t> &u) {
    vh::ExactBuf<Char_T> buf(u);
    const SizeT32        n = Digit::HexStringToNumber<SizeT32>(buf.p, SizeT(buf.n));
    return std::to_string((unsigned long long)n);
}

template <typename Char_T>
static std::string run(const std::vector<std::string> &t) {
    std::vector<uint64_t> a, b;
    if (t[0] == "uni_enc" && t.size() == 4) return doEnc<Char_T>(strtoull(t[2].c_str(), nullptr, 10), strtoull(t[3].c_str(), nullptr, 10));
    if (t[0] == "uni_esc" && t.size() == 5) return doEsc<Char_T>(t[2], strtoull(t[3].c_str(), nullptr, 10), strtoull(t[4].c_str(), nullptr, 10));
    if (t[0] == "uni_un" && t.size() == 4 && vh::parse_nats(t[2], a) && vh::parse_nats(t[3], b)) return doUn<Char_T>(a, b);
    if (t[0] == "uni_hex" && t.size() == 3 && vh::parse_nats(t[2], a)) return doHex<Char_T>(a);
    return "bad-op";
}

int main() {
    std::string line;
    while (vh::read_line(line)) {
        auto t = vh::split(line);
        if (t.size() < 3) { vh::emit("bad-op"); continue; }
        if (t[1] == "1") vh::emit(run<char>(t));
        else if (t[1] == "2") vh::emit(run<char16_t>(t));
        else if (t[1] == "4") vh::emit(run<char32_t>(t));
        else if (t[1] == "W") vh::emit(run<wchar_t>(t));
        else vh::emit("bad-op");
    }
    return 0;
}
