// Correspondence harness for C20: Unicode::ToUTF, Digit::HexStringToNumber, JSONUtils::UnEscape
// on exact-size heap buffers (ASan redzones border [content, content+length)).
//   uni_enc <w> <lo> <hi>            units of ToUTF<Char_T>(u) for u in [lo,hi), groups joined by ';'
//   uni_esc <w> <mode> <lo> <hi>     for cp in [lo,hi): "ret:units" of UnEscape on the string of <mode>
//   uni_un  <w> <prefill> <units>    "ret|stream" of UnEscape(units, |units|, stream holding prefill)
//   uni_hex <w> <units>              HexStringToNumber<SizeT32>(units, |units|)
// Public-API / capacity pass (every entry point, every overload, both stream types that satisfy Stream_T):
//   uni_encf <w> <S|T> <p> <k> <lo> <hi>       ToUTF into a stream holding p units with exactly k free units
//                                              (S = StringStream, T = String; even u: Unicode::ToUTF<Char_T>,
//                                              odd u: UnicodeToUTF<Char_T,Stream_T,sizeof(Char_T)>::ToUTF); whole stream printed
//   uni_escf <w> <S|T> <mode> <p> <k> <lo> <hi>  UnEscape of the mode string into such a stream, "ret:stream"
//   uni_unf  <w> <S|T> <k> <prefill> <units>     UnEscape(units) into prefill with exactly k free units, "ret|stream"
//   uni_hexw <w> <bits> <szbits> <off> <end> <units>  HexStringToNumber<uintBITS_t>(units, offset&, end) with a SizeT_Type of
//                                              szbits, "number:offset"
//   uni_hex2 <w> <bits> <units>                HexStringToNumber<uintBITS_t>(units, |units|)
// The escape strings of uni_esc are built here from RFC 8259 section 7, independently of the Lean side.
#include "common.hpp"
#include "StringStream.hpp"
#ifdef UNI_STRING_STREAM   // second build: String<Char_T> as Stream_T (not instantiated by the library itself)
#include "String.hpp"
#endif
#include "Digit.hpp"
#include "Unicode.hpp"
#include "JSONUtils.hpp"
using namespace Qentem;

static uint64_t hexChar(bool upper, unsigned d) {
    if (d < 10) return '0' + d;
    return (upper ? 'A' : 'a') + (d - 10);
}

static void uEscape(std::vector<uint64_t> &out, bool bigU, bool upper, unsigned v) {
    out.push_back('\\');
    out.push_back(bigU ? 'U' : 'u');
    for (int sh = 12; sh >= 0; sh -= 4) out.push_back(hexChar(upper, (v >> sh) & 0xFU));
}

static void jsonEscape(std::vector<uint64_t> &out, bool bigU, bool upper, unsigned cp) {
    if (cp < 0x10000U) {
        uEscape(out, bigU, upper, cp);
    } else {
        const unsigned v = cp - 0x10000U;
        uEscape(out, bigU, upper, 0xD800U + (v >> 10));
        uEscape(out, bigU, upper, 0xDC00U + (v & 0x3FFU));
    }
}

static bool modeInput(const std::string &mode, unsigned cp, std::vector<uint64_t> &in) {
    in.clear();
    if (mode == "l") {
        jsonEscape(in, false, false, cp);
        in.push_back('"');
    } else if (mode == "u") {
        jsonEscape(in, false, true, cp);
    } else if (mode == "U") {
        jsonEscape(in, true, true, cp);
        in.push_back('"');
    } else if (mode == "c") {
        for (unsigned i = 0; i < cp % 4; i++) in.push_back('a' + i);
        jsonEscape(in, false, (cp % 2) == 1, cp);
        for (unsigned i = 0; i < (cp / 4) % 3; i++) in.push_back('x' + i);
        in.push_back('"');
    } else {
        return false;
    }
    return true;
}

template <typename Char_T>
static std::string doEnc(uint64_t lo, uint64_t hi) {
    std::string out;
    for (uint64_t u = lo; u < hi; u++) {
        StringStream<Char_T> ss;
        Unicode::ToUTF<Char_T>(SizeT32(u), ss);
        if (u != lo) out += ';';
        out += vh::show_units(ss.First(), ss.Length());
    }
    return out;
}

template <typename Char_T>
static std::string doEsc(const std::string &mode, uint64_t lo, uint64_t hi) {
    std::string           out;
    std::vector<uint64_t> in;
    for (uint64_t cp = lo; cp < hi; cp++) {
        if (!modeInput(mode, unsigned(cp), in)) return "bad-mode";
        vh::ExactBuf<Char_T> buf(in);
        StringStream<Char_T> ss;
        const SizeT          r = JSONUtils::UnEscape(buf.p, SizeT(buf.n), ss);
        if (cp != lo) out += ';';
        out += std::to_string((unsigned long long)r);
        out += ':';
        out += vh::show_units(ss.First(), ss.Length());
    }
    return out;
}

template <typename Char_T>
static std::string doUn(const std::vector<uint64_t> &pre, const std::vector<uint64_t> &u) {
    vh::ExactBuf<Char_T> buf(u);
    StringStream<Char_T> ss;
    for (uint64_t x : pre) ss += Char_T(x);
    const SizeT r = JSONUtils::UnEscape(buf.p, SizeT(buf.n), ss);
    return std::to_string((unsigned long long)r) + "|" + vh::show_units(ss.First(), ss.Length());
}

template <typename Char_T>
static std::string doHex(const std::vector<uint64_t> &u) {
    vh::ExactBuf<Char_T> buf(u);
    const SizeT32        n = Digit::HexStringToNumber<SizeT32>(buf.p, SizeT(buf.n));
    return std::to_string((unsigned long long)n);
}

// ---- a destination with p units in it and exactly k free units ------------------------------------
static inline uint64_t prefillUnit(uint64_t i) { return 'a' + (i % 26); }

template <typename Char_T>
static bool prepare(StringStream<Char_T> &ss, uint64_t p, uint64_t k) {
    ss.Reserve(SizeT(p + k));
    for (uint64_t i = 0; i < p; i++) ss += Char_T(prefillUnit(i));
    return (ss.Length() == SizeT(p)) && (SizeT(ss.Capacity() - ss.Length()) == SizeT(k));
}
template <typename Char_T>
static bool prepare(StringStream<Char_T> &ss, const std::vector<uint64_t> &pre, uint64_t k) {
    ss.Reserve(SizeT(pre.size() + k));
    for (uint64_t x : pre) ss += Char_T(x);
    return (ss.Length() == SizeT(pre.size())) && (SizeT(ss.Capacity() - ss.Length()) == SizeT(k));
}
#ifdef UNI_STRING_STREAM
template <typename Char_T>
static bool prepare(String<Char_T> &ss, uint64_t p, uint64_t) {   // String has no spare capacity: k is ignored
    for (uint64_t i = 0; i < p; i++) ss += Char_T(prefillUnit(i));
    return ss.Length() == SizeT(p);
}
template <typename Char_T>
static bool prepare(String<Char_T> &ss, const std::vector<uint64_t> &pre, uint64_t) {
    for (uint64_t x : pre) ss += Char_T(x);
    return ss.Length() == SizeT(pre.size());
}
#endif

template <typename Char_T, typename Stream_T>
static std::string doEncF(uint64_t p, uint64_t k, uint64_t lo, uint64_t hi) {
    std::string out;
    for (uint64_t u = lo; u < hi; u++) {
        Stream_T ss;
        if (!prepare(ss, p, k)) return "cap-mismatch";
        if ((u & 1U) == 0) Unicode::ToUTF<Char_T>(SizeT32(u), ss);
        else Unicode::UnicodeToUTF<Char_T, Stream_T, sizeof(Char_T)>::ToUTF(SizeT32(u), ss);
        if (u != lo) out += ';';
        out += vh::show_units(ss.First(), ss.Length());
    }
    return out;
}

template <typename Char_T, typename Stream_T>
static std::string doEscF(const std::string &mode, uint64_t p, uint64_t k, uint64_t lo, uint64_t hi) {
    std::string           out;
    std::vector<uint64_t> in;
    for (uint64_t cp = lo; cp < hi; cp++) {
        if (!modeInput(mode, unsigned(cp), in)) return "bad-mode";
        vh::ExactBuf<Char_T> buf(in);
        Stream_T             ss;
        if (!prepare(ss, p, k)) return "cap-mismatch";
        const SizeT r = JSONUtils::UnEscape(buf.p, SizeT(buf.n), ss);
        if (cp != lo) out += ';';
        out += std::to_string((unsigned long long)r);
        out += ':';
        out += vh::show_units(ss.First(), ss.Length());
    }
    return out;
}

template <typename Char_T, typename Stream_T>
static std::string doUnF(uint64_t k, const std::vector<uint64_t> &pre, const std::vector<uint64_t> &u) {
    vh::ExactBuf<Char_T> buf(u);
    Stream_T             ss;
    if (!prepare(ss, pre, k)) return "cap-mismatch";
    const SizeT r = JSONUtils::UnEscape(buf.p, SizeT(buf.n), ss);
    return std::to_string((unsigned long long)r) + "|" + vh::show_units(ss.First(), ss.Length());
}

template <typename Number_T, typename Size_T, typename Char_T>
static std::string doHexW3(uint64_t off, uint64_t end, const std::vector<uint64_t> &u) {
    vh::ExactBuf<Char_T> buf(u);
    Size_T               offset = Size_T(off);
    const Number_T       n      = Digit::HexStringToNumber<Number_T>(buf.p, offset, Size_T(end));
    return std::to_string((unsigned long long)n) + ":" + std::to_string((unsigned long long)offset);
}

template <typename Number_T, typename Char_T>
static std::string doHexW2(const std::vector<uint64_t> &u) {
    vh::ExactBuf<Char_T> buf(u);
    const Number_T       n = Digit::HexStringToNumber<Number_T>(buf.p, SizeT(buf.n));
    return std::to_string((unsigned long long)n);
}

template <typename Char_T>
static std::string runHexW(const std::vector<std::string> &t) {
    std::vector<uint64_t> a;
    if (t[0] == "uni_hex2" && t.size() == 4 && vh::parse_nats(t[3], a)) {
        if (t[2] == "8") return doHexW2<uint8_t, Char_T>(a);
        if (t[2] == "16") return doHexW2<uint16_t, Char_T>(a);
        if (t[2] == "32") return doHexW2<uint32_t, Char_T>(a);
        if (t[2] == "64") return doHexW2<uint64_t, Char_T>(a);
        return "bad-op";
    }
    if (t[0] == "uni_hexw" && t.size() == 7 && vh::parse_nats(t[6], a)) {
        const uint64_t off = strtoull(t[4].c_str(), nullptr, 10), end = strtoull(t[5].c_str(), nullptr, 10);
        if (end > a.size() && off < end) return "bad-op";   // the caller's contract: [offset, end) lies inside the buffer
        const bool wide = (t[3] == "64");
        if (t[2] == "8") return wide ? doHexW3<uint8_t, uint64_t, Char_T>(off, end, a) : doHexW3<uint8_t, SizeT, Char_T>(off, end, a);
        if (t[2] == "16") return wide ? doHexW3<uint16_t, uint64_t, Char_T>(off, end, a) : doHexW3<uint16_t, SizeT, Char_T>(off, end, a);
        if (t[2] == "32") return wide ? doHexW3<uint32_t, uint64_t, Char_T>(off, end, a) : doHexW3<uint32_t, SizeT, Char_T>(off, end, a);
        if (t[2] == "64") return wide ? doHexW3<uint64_t, uint64_t, Char_T>(off, end, a) : doHexW3<uint64_t, SizeT, Char_T>(off, end, a);
    }
    return "bad-op";
}

template <typename Char_T, typename Stream_T>
static std::string runF(const std::vector<std::string> &t) {
    std::vector<uint64_t> a, b;
    auto                  N = [&](size_t i) { return strtoull(t[i].c_str(), nullptr, 10); };
    if (t[0] == "uni_encf" && t.size() == 7) return doEncF<Char_T, Stream_T>(N(3), N(4), N(5), N(6));
    if (t[0] == "uni_escf" && t.size() == 8) return doEscF<Char_T, Stream_T>(t[3], N(4), N(5), N(6), N(7));
    if (t[0] == "uni_unf" && t.size() == 6 && vh::parse_nats(t[4], a) && vh::parse_nats(t[5], b)) return doUnF<Char_T, Stream_T>(N(3), a, b);
    return "bad-op";
}

template <typename Char_T>
static std::string run(const std::vector<std::string> &t) {
    if (t[0] == "uni_hexw" || t[0] == "uni_hex2") return runHexW<Char_T>(t);
    if (t[0] == "uni_encf" || t[0] == "uni_escf" || t[0] == "uni_unf") {
        if (t.size() > 2 && t[2] == "S") return runF<Char_T, StringStream<Char_T>>(t);
#ifdef UNI_STRING_STREAM
        if (t.size() > 2 && t[2] == "T") return runF<Char_T, String<Char_T>>(t);
#endif
        return "bad-op";
    }
    std::vector<uint64_t> a, b;
    if (t[0] == "uni_enc" && t.size() == 4) return doEnc<Char_T>(strtoull(t[2].c_str(), nullptr, 10), strtoull(t[3].c_str(), nullptr, 10));
    if (t[0] == "uni_esc" && t.size() == 5) return doEsc<Char_T>(t[2], strtoull(t[3].c_str(), nullptr, 10), strtoull(t[4].c_str(), nullptr, 10));
    if (t[0] == "uni_un" && t.size() == 4 && vh::parse_nats(t[2], a) && vh::parse_nats(t[3], b)) return doUn<Char_T>(a, b);
    if (t[0] == "uni_hex" && t.size() == 3 && vh::parse_nats(t[2], a)) return doHex<Char_T>(a);
    return "bad-op";
}

int main() {
    std::string line;
    while (vh::read_line(line)) {
        auto t = vh::split(line);
        if (t.size() < 3) { vh::emit("bad-op"); continue; }
        if (t[1] == "1") vh::emit(run<char>(t));
        else if (t[1] == "2") vh::emit(run<char16_t>(t));
        else if (t[1] == "4") vh::emit(run<char32_t>(t));
        else if (t[1] == "W") vh::emit(run<wchar_t>(t));
        else vh::emit("bad-op");
    }
    return 0;
}
